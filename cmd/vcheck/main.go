// Command vcheck is the entry point of every registered check:
//
//	vcheck run <property> [--tier quick|thorough]
//	vcheck replay <file>
//	vcheck list <property> [--tier ...]
//
// It instruments /repo's current working tree (cmd instr), builds the harness worker with the
// resulting overlay, runs one worker process per core on disjoint shards of the property's
// scenarios, merges their reports, applies known_findings.json, writes evidence/<id>.json and
// prints VIOLATION / KNOWN-FINDING lines. Exit 0: held on everything explored; 1: violation;
// 2: framework error.
package main

import (
	"encoding/json"
	"fmt"
	"os"
	"os/exec"
	"path/filepath"
	"runtime"
	"sort"
	"strconv"
	"strings"
	"sync"
	"syscall"
	"time"
)

// verifDir is where the framework lives: /verif, or the snapshot a background run works in
// (the vcheck script exports VERIF_DIR = its own directory).
var verifDir = func() string {
	if d := os.Getenv("VERIF_DIR"); d != "" {
		return d
	}
	return "/verif"
}()

// GODEBUG=goindex=0: the module index of packages in the module cache ignores overlays; sno is
// instrumented through the overlay, so the index is switched off.
var goEnv = []string{"GOFLAGS=-mod=mod", "GOPROXY=off", "GOSUMDB=off", "GOTOOLCHAIN=local", "GOWORK=off", "GODEBUG=goindex=0"}

type violation struct {
	Sig      string `json:"sig"`
	Msg      string `json:"msg"`
	Scenario string `json:"scenario"`
	Replay   string `json:"replay"`
}

type report struct {
	Prop        string      `json:"prop"`
	Scenarios   int         `json:"scenarios"`
	ScenariosOK int         `json:"scenarios_exhaustive"`
	Skipped     int         `json:"scenarios_skipped"`
	Execs       int64       `json:"execs"`
	Complete    int64       `json:"complete"`
	Pruned      int64       `json:"pruned"`
	Steps       int64       `json:"steps"`
	States      int64       `json:"states"`
	Nontrivial  int64       `json:"nontrivial"`
	Deadlocks   int64       `json:"deadlocks"`
	DistinctN   int64       `json:"distinct"`
	Evals       int64       `json:"evals"`
	MaxBound    int         `json:"max_bound"`
	MinBound    int         `json:"min_bound"`
	Unbounded   int         `json:"unbounded_scenarios"`
	Caps        []string    `json:"caps"`
	Samples     []any       `json:"samples"`
	Violations  []violation `json:"violations"`
	Aborts      []string    `json:"aborts"`
	WallS       float64     `json:"wall_s"`
	Exhaustive  bool        `json:"exhaustive"`
	PerScenario []string    `json:"per_scenario"`
}

type knownFinding struct {
	Property  string `json:"property"`
	Signature string `json:"signature"`
	Status    string `json:"status"` // known | fixed
	What      string `json:"what"`
	Commit    string `json:"commit,omitempty"`
	// Also lists further signature patterns of the same root cause. Patterns may contain '*'
	// (any sequence of characters).
	Also []string `json:"also,omitempty"`
}

// glob matches s against a pattern in which '*' stands for any sequence of characters.
func glob(pat, s string) bool {
	for len(pat) > 0 {
		if pat[0] == '*' {
			for len(pat) > 0 && pat[0] == '*' {
				pat = pat[1:]
			}
			if len(pat) == 0 {
				return true
			}
			for i := 0; i <= len(s); i++ {
				if glob(pat, s[i:]) {
					return true
				}
			}
			return false
		}
		if len(s) == 0 || pat[0] != s[0] {
			return false
		}
		pat, s = pat[1:], s[1:]
	}
	return len(s) == 0
}

type propMeta struct {
	Rule        string   `json:"rule"`
	Assumptions []string `json:"assumptions"`
}

func die(format string, a ...any) {
	fmt.Fprintf(os.Stderr, "vcheck: "+format+"\n", a...)
	os.Exit(2)
}

func runCmd(dir string, env []string, name string, args ...string) (string, error) {
	cmd := exec.Command(name, args...)
	cmd.Dir = dir
	cmd.Env = append(os.Environ(), env...)
	out, err := cmd.CombinedOutput()
	return string(out), err
}

// build instruments the repository and builds the worker; returns the scratch dir and binary.
func build(race bool) (scratch, worker, inputHash string) {
	base := "/dev/shm"
	if st, err := os.Stat(base); err != nil || !st.IsDir() {
		base = filepath.Join(verifDir, ".build")
		os.MkdirAll(base, 0o755)
	}
	// The build reads /repo's working tree. scripts/seed_eval.py holds this lock exclusively
	// while a seeded change is applied to /repo, so that a concurrently started check never
	// builds a half-applied or seeded tree.
	if os.Getenv("VERIF_NOLOCK") == "" {
		if lf, err := os.OpenFile(filepath.Join(base, "verif-repo.lock"), os.O_CREATE|os.O_RDWR, 0o666); err == nil {
			if syscall.Flock(int(lf.Fd()), syscall.LOCK_SH) == nil {
				defer syscall.Flock(int(lf.Fd()), syscall.LOCK_UN)
			}
			defer lf.Close()
		}
	}
	scratch, err := os.MkdirTemp(base, "verif-")
	if err != nil {
		die("%v", err)
	}
	instr := filepath.Join(verifDir, "bin", "instr")
	if _, err := os.Stat(instr); err != nil {
		if out, err := runCmd(filepath.Join(verifDir, "instr"), goEnv, "go", "build", "-o", instr, "."); err != nil {
			die("building instr: %v\n%s", err, out)
		}
	}
	out, err := runCmd(verifDir, goEnv, instr, "-out", scratch, "-rt", filepath.Join(verifDir, "rt"), "-dir", verifDir,
		"github.com/olive-io/bpmn/v2", "github.com/olive-io/bpmn/v2/pkg/...", "github.com/olive-io/bpmn/v2/model", "github.com/muyo/sno", "github.com/muyo/sno/internal", "verif/harness/...")
	if err != nil {
		os.RemoveAll(scratch)
		die("instrumenting /repo failed (does it compile?): %v\n%s", err, out)
	}
	if i := strings.Index(out, "input_hash="); i >= 0 {
		inputHash = strings.TrimSpace(out[i+len("input_hash="):])
	}
	worker = filepath.Join(scratch, "worker")
	args := []string{"build", "-overlay", filepath.Join(scratch, "overlay.json"), "-o", worker}
	if race {
		// race mode: the runtime package itself stays uninstrumented (DESIGN.md §2.5)
		args = append(args, "-race", "-gcflags=github.com/olive-io/bpmn/v2/verifrt=-race=false")
	}
	args = append(args, "./harness/cmd/worker")
	out, err = runCmd(verifDir, goEnv, "go", args...)
	if err != nil {
		os.RemoveAll(scratch)
		die("building the instrumented worker failed: %v\n%s", err, out)
	}
	return
}

func main() {
	if len(os.Args) < 3 {
		die("usage: vcheck run|replay|list <arg> [--tier quick|thorough]")
	}
	cmd, arg := os.Args[1], os.Args[2]
	tier := os.Getenv("VERIF_TIER")
	if tier == "" {
		tier = "quick"
	}
	only := ""
	budgetOverride := time.Duration(0)
	for i := 3; i < len(os.Args); i++ {
		switch os.Args[i] {
		case "--tier":
			i++
			tier = os.Args[i]
		case "--only":
			i++
			only = os.Args[i]
		case "--budget":
			i++
			d, err := time.ParseDuration(os.Args[i])
			if err != nil {
				die("%v", err)
			}
			budgetOverride = d
		}
	}
	switch cmd {
	case "replay":
		race := os.Getenv("VERIF_RACE") != ""
		if b, err := os.ReadFile(arg); err == nil && (strings.Contains(string(b), `"property": "C17"`) || strings.Contains(string(b), `"property":"C17"`)) {
			race = true
		}
		scratch, worker, _ := build(race)
		defer os.RemoveAll(scratch)
		c := exec.Command(worker, "-replay", arg)
		if race {
			c.Env = append(os.Environ(), "GORACE=halt_on_error=0 log_path="+filepath.Join(scratch, "race"), "VERIF_RACE_LOG="+filepath.Join(scratch, "race"))
		}
		c.Stdout, c.Stderr = os.Stdout, os.Stderr
		err := c.Run()
		os.RemoveAll(scratch)
		if ee, ok := err.(*exec.ExitError); ok {
			os.Exit(ee.ExitCode())
		}
		if err != nil {
			die("%v", err)
		}
	case "list":
		scratch, worker, _ := build(false)
		c := exec.Command(worker, "-list", "-prop", arg, "-tier", tier)
		c.Stdout, c.Stderr = os.Stdout, os.Stderr
		c.Run()
		os.RemoveAll(scratch)
	case "run":
		os.Exit(runCheck(arg, tier, only, budgetOverride))
	default:
		die("unknown command %s", cmd)
	}
}

// racePhase: scenario-name prefixes that are explored a second time in race mode.
var racePhase = map[string][]string{
	"C20": {"C20/fallback/", "C20/sno/g2x2"},
	"C09": {"C09/tracer/s2x1", "C09/tracer/s2x2", "C09/relay"},
	"C13": {"C13/unit/duration", "C13/unit/R2/", "C13/unit/R-end"},
	// two or three tokens evaluating the same conditions: state shared between evaluations
	// (a cached program, a reused VM) is touched by plain statements of two flows
	"C04": {"C04/xor/k1/default@0/tokens2/", "C04/xor/k1/default@none/tokens2/", "C04/xor/k2/default@1/tokens2/", "C04/xor/k1/default@0/tokens3/expr"},
}

func runCheck(prop, tier, only string, budgetOverride time.Duration) int {
	t0 := time.Now()
	seed := 0
	if s := os.Getenv("VERIF_SEED"); s != "" {
		seed, _ = strconv.Atoi(s)
	}
	race := prop == "C17" || os.Getenv("VERIF_RACE") != ""
	scratch, worker, inputHash := build(race)
	defer os.RemoveAll(scratch)
	buildS := time.Since(t0).Seconds()

	budget := 150 * time.Second
	if tier == "thorough" {
		budget = 20 * time.Minute
	}
	if budgetOverride > 0 {
		budget = budgetOverride
	}
	n := runtime.NumCPU()
	if n > 16 {
		n = 16
	}
	// workers write every witness into the scratch directory; only the ones that are printed
	// (one per distinct violation signature, one per known finding) are kept in /verif/replays
	replayDir := filepath.Join(scratch, "replays")
	keep := func(path string) string {
		if path == "" {
			return path
		}
		b, err := os.ReadFile(path)
		if err != nil {
			return path
		}
		dst := filepath.Join(verifDir, "replays", filepath.Base(path))
		os.MkdirAll(filepath.Dir(dst), 0o755)
		if os.WriteFile(dst, b, 0o644) != nil {
			return path
		}
		return dst
	}
	// job list
	jobsOut, err := exec.Command(worker, "-jobs", "-prop", prop, "-tier", tier).Output()
	if err != nil {
		fmt.Fprintf(os.Stderr, "vcheck: listing jobs failed: %v\n", err)
		return 2
	}
	var jobs []json.RawMessage
	var jobMeta []struct {
		Name string `json:"name"`
	}
	if err := json.Unmarshal(jobsOut, &jobs); err != nil {
		fmt.Fprintf(os.Stderr, "vcheck: job list: %v\n", err)
		return 2
	}
	json.Unmarshal(jobsOut, &jobMeta)
	var jobMeta2 []string // names of the (filtered) jobs
	if only != "" {
		var js []json.RawMessage
		for i, j := range jobs {
			if jobMeta[i].Name == only || (strings.HasSuffix(only, "*") && strings.HasPrefix(jobMeta[i].Name, only[:len(only)-1])) {
				js = append(js, j)
				jobMeta2 = append(jobMeta2, jobMeta[i].Name)
			}
		}
		jobs = js
	} else {
		for _, m := range jobMeta {
			jobMeta2 = append(jobMeta2, m.Name)
		}
	}
	if len(jobs) == 0 {
		fmt.Fprintf(os.Stderr, "vcheck: no job for %s\n", prop)
		return 2
	}
	deadline := time.Now().Add(budget)
	var mu sync.Mutex
	var reports []*report
	// dispatch serves a job list to worker processes of one build (plain or race mode)
	dispatch := func(worker string, race bool, jobs []json.RawMessage) int {
		n := n
		if len(jobs) < n {
			n = len(jobs)
		}
		next := 0
		errs := make([]string, n)
		var wg sync.WaitGroup
		for i := 0; i < n; i++ {
			wg.Add(1)
			go func(i int) {
				defer wg.Done()
				c := exec.Command(worker, "-serve", "-prop", prop, "-tier", tier, "-replays", replayDir, "-deadline", strconv.FormatInt(deadline.UnixNano(), 10))
				c.Env = append(os.Environ(), "GOMAXPROCS=2")
				if race {
					c.Env = append(c.Env, "GORACE=halt_on_error=0 log_path="+filepath.Join(scratch, "race"), "VERIF_RACE_LOG="+filepath.Join(scratch, "race"))
				}
				stdin, _ := c.StdinPipe()
				stdout, _ := c.StdoutPipe()
				var stderr strings.Builder
				c.Stderr = &stderr
				if err := c.Start(); err != nil {
					errs[i] = err.Error()
					return
				}
				dec := json.NewDecoder(stdout)
				for {
					mu.Lock()
					if next >= len(jobs) {
						mu.Unlock()
						break
					}
					j := jobs[next]
					next++
					mu.Unlock()
					if _, err := stdin.Write(append(j, '\n')); err != nil {
						errs[i] = fmt.Sprintf("worker %d: %v\n%s", i, err, tail(stderr.String(), 60))
						break
					}
					var r report
					if err := dec.Decode(&r); err != nil {
						errs[i] = fmt.Sprintf("worker %d died on job %s: %v\n%s", i, string(j), err, tail(stderr.String(), 60))
						break
					}
					mu.Lock()
					reports = append(reports, &r)
					mu.Unlock()
				}
				stdin.Close()
				c.Wait()
			}(i)
		}
		wg.Wait()
		for _, e := range errs {
			if e != "" {
				fmt.Fprintln(os.Stderr, "vcheck: worker failed:", e)
				return 2
			}
		}
		return 0
	}
	if rc := dispatch(worker, race, jobs); rc != 0 {
		return rc
	}
	// second phase in race mode (DESIGN.md §2.5) for the scenarios of properties other than C17
	// whose subject is a small piece of shared state drawn from concurrently: a data race there
	// (two draws not ordered by the generator's own synchronisation) is a violation of the
	// property's "concurrently" clause that the cooperative scheduler alone cannot see, because
	// it never interleaves two plain statements
	if prefixes := racePhase[prop]; len(prefixes) > 0 && !race {
		scratch2, worker2, _ := build(true)
		defer os.RemoveAll(scratch2)
		scratch = scratch2 // race logs of this phase
		var js []json.RawMessage
		for i, j := range jobs {
			for _, p := range prefixes {
				if strings.HasPrefix(jobMeta2[i], p) {
					js = append(js, j)
					break
				}
			}
		}
		if len(js) > 0 {
			if rc := dispatch(worker2, true, js); rc != 0 {
				return rc
			}
		}
	}
	// merge
	m := report{Exhaustive: true, MinBound: 1 << 30}
	for _, r := range reports {
		m.Scenarios += r.Scenarios
		m.ScenariosOK += r.ScenariosOK
		m.Skipped += r.Skipped
		m.Execs += r.Execs
		m.Complete += r.Complete
		m.Pruned += r.Pruned
		m.Steps += r.Steps
		m.States += r.States
		m.Nontrivial += r.Nontrivial
		m.Deadlocks += r.Deadlocks
		m.DistinctN += r.DistinctN
		m.Evals += r.Evals
		m.Unbounded += r.Unbounded
		if r.MaxBound > m.MaxBound {
			m.MaxBound = r.MaxBound
		}
		if r.Scenarios > 0 && r.MinBound < m.MinBound {
			m.MinBound = r.MinBound
		}
		m.Caps = append(m.Caps, r.Caps...)
		m.Aborts = append(m.Aborts, r.Aborts...)
		m.Violations = append(m.Violations, r.Violations...)
		m.PerScenario = append(m.PerScenario, r.PerScenario...)
		m.Exhaustive = m.Exhaustive && r.Exhaustive
		for _, s := range r.Samples {
			if len(m.Samples) < 3 {
				m.Samples = append(m.Samples, s)
			}
		}
	}
	if m.MinBound == 1<<30 {
		m.MinBound = 0
	}
	if len(m.Aborts) > 0 {
		fmt.Fprintf(os.Stderr, "vcheck: framework error: aborted executions (replay divergence or step cap):\n  %s\n", strings.Join(m.Aborts, "\n  "))
		return 2
	}
	if m.Scenarios == 0 {
		fmt.Fprintf(os.Stderr, "vcheck: no scenario ran for %s\n", prop)
		return 2
	}
	// known findings
	var kf struct {
		Findings []knownFinding `json:"findings"`
	}
	if b, err := os.ReadFile(filepath.Join(verifDir, "known_findings.json")); err == nil {
		if err := json.Unmarshal(b, &kf); err != nil {
			die("known_findings.json: %v", err)
		}
	}
	var knownPats []knownFinding
	for _, k := range kf.Findings {
		if k.Property == prop && k.Status == "known" {
			knownPats = append(knownPats, k)
		}
	}
	lookup := func(sig string) (knownFinding, bool) {
		for _, k := range knownPats {
			if glob(k.Signature, sig) {
				return k, true
			}
			for _, p := range k.Also {
				if glob(p, sig) {
					return k, true
				}
			}
		}
		return knownFinding{}, false
	}
	sort.Slice(m.Violations, func(i, j int) bool {
		if m.Violations[i].Sig != m.Violations[j].Sig {
			return m.Violations[i].Sig < m.Violations[j].Sig
		}
		if len(m.Violations[i].Scenario) != len(m.Violations[j].Scenario) {
			return len(m.Violations[i].Scenario) < len(m.Violations[j].Scenario)
		}
		return m.Violations[i].Scenario < m.Violations[j].Scenario
	})
	seenKnown := map[string]int{}
	printed := map[string]bool{}
	nviol := 0
	for _, v := range m.Violations {
		if k, ok := lookup(v.Sig); ok {
			seenKnown[k.Signature]++
			if !printed["known:"+k.Signature] {
				printed["known:"+k.Signature] = true
				fmt.Printf("KNOWN-FINDING: property=%s %s [%s] e.g. %s replay=%s\n", prop, k.What, v.Sig, v.Scenario, keep(v.Replay))
			}
			continue
		}
		nviol++
		if !printed[v.Sig] {
			printed[v.Sig] = true
			fmt.Printf("VIOLATION property=%s replay=%s\n", prop, keep(v.Replay))
			fmt.Printf("  signature=%s scenario=%s\n  %s\n", v.Sig, v.Scenario, strings.ReplaceAll(v.Msg, "\n", "\n  "))
		}
	}
	// evidence
	var meta map[string]propMeta
	if b, err := os.ReadFile(filepath.Join(verifDir, "props_meta.json")); err == nil {
		json.Unmarshal(b, &meta)
	}
	pm := meta[prop]
	if pm.Rule == "" {
		pm.Rule = "scenarios of the property's grammar, each explored over all schedules within the deviation bound and all environment choices; an execution is non-trivial when it contained at least one scheduling decision; distinct = distinct final states"
	}
	if len(pm.Assumptions) == 0 {
		pm.Assumptions = []string{}
	}
	pm.Assumptions = append(pm.Assumptions,
		"the controlled runtime implements Go's channel/select/sync/atomic/context semantics (checked by the conformance litmus suite)",
		"code between two synchronisation operations is atomic (true for data-race-free code; races are searched for under C17)",
		"state cache keys are 64-bit hashes (collisions are possible but negligible)",
		"coverage is bounded: schedules within the stated deviation bound, scenarios and histories of the stated sizes")
	knownList := []string{}
	for s, c := range seenKnown {
		knownList = append(knownList, fmt.Sprintf("%s (%d scenarios)", s, c))
	}
	sort.Strings(knownList)
	states := m.States
	if states == 0 {
		states = m.DistinctN
	}
	transitions := m.Steps
	if transitions == 0 {
		transitions = m.Evals // plain enumerations: one evaluation of the real code per case
	}
	cov := map[string]any{
		"evaluations":                   m.Execs,
		"complete_executions":           m.Complete,
		"pruned_at_visited_state":       m.Pruned,
		"distinct_nontrivial":           m.DistinctN,
		"nontrivial_executions":         m.Nontrivial,
		"rule":                          pm.Rule,
		"states":                        states,
		"transitions":                   transitions,
		"traces_validated_against_impl": m.Execs,
		"samples":                       m.Samples,
		"exhaustive":                    m.Exhaustive,
		"scenarios":                     m.Scenarios,
		"scenarios_exhaustive":          m.ScenariosOK,
		"scenarios_skipped_for_time":    m.Skipped,
		"bound_model":                   "deviation (delay) bound: every non-default scheduling or select-readiness choice costs 1; environment choices cost 0",
		"bound_completed_min":           m.MinBound,
		"bound_completed_max":           m.MaxBound,
		"unbounded_scenarios":           m.Unbounded,
		"caps_hit":                      m.Caps,
		"input_hash":                    inputHash,
		"known_findings_seen":           knownList,
		"deadlocked_executions":         m.Deadlocks,
		"build_s":                       buildS,
		"workers":                       n,
	}
	ev := map[string]any{
		"property_id": prop, "tier": tier, "seed": seed, "level": "model_checking",
		"coverage": cov, "assumptions": pm.Assumptions, "wall_s": time.Since(t0).Seconds(), "violations": nviol,
	}
	os.MkdirAll(filepath.Join(verifDir, "evidence"), 0o755)
	b, _ := json.MarshalIndent(ev, "", " ")
	if err := os.WriteFile(filepath.Join(verifDir, "evidence", prop+".json"), b, 0o644); err != nil {
		die("%v", err)
	}
	if os.Getenv("VERIF_VERBOSE") != "" {
		sort.Strings(m.PerScenario)
		for _, l := range m.PerScenario {
			fmt.Println("  ", l)
		}
	}
	fmt.Printf("%s %s: scenarios=%d (exhaustive %d, skipped %d) executions=%d states=%d transitions=%d distinct_final=%d bound=%d..%d unbounded=%d exhaustive=%v violations=%d known=%d wall=%.1fs\n",
		prop, tier, m.Scenarios, m.ScenariosOK, m.Skipped, m.Execs, states, m.Steps, m.DistinctN, m.MinBound, m.MaxBound, m.Unbounded, m.Exhaustive, nviol, len(seenKnown), time.Since(t0).Seconds())
	if nviol > 0 {
		return 1
	}
	return 0
}

func tail(s string, n int) string {
	lines := strings.Split(s, "\n")
	if len(lines) > n {
		lines = lines[len(lines)-n:]
	}
	return strings.Join(lines, "\n")
}
