package verifrt

import (
	"fmt"
	"os"
	"time"
)

var debugExplore = os.Getenv("VERIF_DEBUG_EXPLORE") != ""

// Cache is the visited-state table of one exploration.
type Cache struct {
	m    hset
	Full bool // the cache reached cacheMaxStates: later states were explored without being stored
}

func NewCache() *Cache { return &Cache{} }

// visit records arrival at state k having spent `spent` deviations; it returns false when the
// state was already reached with no more deviations spent (everything reachable from here
// within the remaining budget is covered by the earlier visit).
func (c *Cache) visit(k H, spent int, unbounded bool) bool {
	if unbounded {
		spent = 0
	}
	if spent > 250 {
		spent = 250
	}
	s, ok := c.m.lookup(uint64(k))
	if ok && int(s) <= spent {
		return false
	}
	if !ok && c.m.n >= cacheMaxStates {
		// full: the state is explored but not remembered (sound: nothing is pruned because of
		// it; a later arrival is explored again). Sixteen workers with unbounded caches
		// exhausted the machine's memory in the thorough tier.
		c.Full = true
		return true
	}
	c.m.store(uint64(k), uint8(spent))
	return true
}

// cacheMaxStates bounds a worker's state cache (20 bytes per state at load 1/2, three times
// that while the table is rebuilt: about 1 GB).
const cacheMaxStates = 1<<25 - 1

func (c *Cache) Len() int { return c.m.n }

// Stats summarises one exploration.
type Stats struct {
	Execs      int   // complete or pruned executions run
	Complete   int   // executions that ran to their end (not pruned)
	Pruned     int   // executions cut at an already visited state
	Steps      int64 // scheduling steps executed (transitions)
	States     int   // distinct state keys visited
	Deadlocks  int
	MaxPoints  int
	Nontrivial int            // complete executions that had at least one real scheduling choice
	Outcomes   map[string]int // distinct observation logs of complete executions
	Exhaustive bool           // the space within the bound was covered completely
	CapHit     string
	Bound      int
	Aborted    int
	FirstAbort string
	SharedDup  int             // executions of the shared choice tree repeated by jobs other than job 0 (not counted)
	First      *Outcome        // the default (deviation-free) execution
	Finals     map[uint64]bool // distinct final state keys of complete executions
	MaxGs      int             // largest number of goroutines created in one execution
}

// Violation is a failed check with the schedule that produced it.
type Violation struct {
	Msg     string
	Choices []int
	Outcome *Outcome
}

// Scenario is one closed system to explore: Body runs as the main goroutine of each
// execution, Check judges the finished execution (it runs outside the execution).
type Scenario struct {
	Name  string
	Body  func()
	Check func(o *Outcome) []string
}

func choicesOf(ps []Point, n int) []int {
	out := make([]int, n)
	for i := 0; i < n; i++ {
		out[i] = ps[i].Chosen
	}
	return out
}

// Explore runs the scenario under every schedule within opts.Bound deviations (or all, if
// opts.Unbounded) and every environment choice.
func Explore(sc *Scenario, opts Options) (Stats, []Violation) {
	if opts.StarveSteps == 0 {
		opts.StarveSteps = 400
	}
	if opts.Starve > 0 {
		// the starvation clock is not part of the state key
		opts.UseCache = false
	}
	if opts.MaxSteps == 0 {
		opts.MaxSteps = 200000
	}
	if opts.Unbounded {
		opts.Bound = 1 << 30
		opts.UseCache = true
	}
	st := Stats{Outcomes: map[string]int{}, Exhaustive: true, Bound: opts.Bound, Finals: map[uint64]bool{}}
	var cache *Cache
	if opts.UseCache {
		cache = NewCache()
	}
	var viol []Violation
	nroot := 0
	// Intra-scenario sharding (SplitK > 1): the deviation-free tree of environment choices is
	// "shared" - every job executes it - and the scheduling deviations found on shared executions
	// are dealt round-robin to the jobs, each of which explores the subtrees it owns completely.
	// Shared executions are counted and checked by job 0 only.
	type frame struct {
		prefix []int
		shared bool
	}
	stack := []frame{{nil, opts.SplitK > 1}}
	for len(stack) > 0 {
		if opts.MaxExecs > 0 && st.Execs >= opts.MaxExecs {
			st.Exhaustive = false
			st.CapHit = fmt.Sprintf("execution cap %d", opts.MaxExecs)
			break
		}
		if !opts.Deadline.IsZero() && st.Execs%64 == 0 && time.Now().After(opts.Deadline) {
			st.Exhaustive = false
			st.CapHit = "time budget"
			break
		}
		fr := stack[len(stack)-1]
		stack = stack[:len(stack)-1]
		o := run(fr.prefix, &opts, cache, sc.Body)
		counted := !fr.shared || opts.SplitIdx == 0
		st.Execs++
		if !counted {
			st.Execs--
			st.SharedDup++
		}
		if debugExplore {
			fmt.Printf("exec prefix=%v points=%d pruned=%v steps=%d fails=%v\n", fr.prefix, len(o.Points), o.Pruned, o.Steps, o.Fails)
		}
		if st.First == nil {
			st.First = o
		}
		st.Steps += int64(o.Steps)
		if o.Gs > st.MaxGs {
			st.MaxGs = o.Gs
		}
		if len(o.Points) > st.MaxPoints {
			st.MaxPoints = len(o.Points)
		}
		if o.Aborted != "" {
			st.Aborted++
			st.Exhaustive = false
			if st.FirstAbort == "" {
				st.FirstAbort = fmt.Sprintf("%s (prefix %v)", o.Aborted, fr.prefix)
			}
		}
		if !counted {
			// executed only to find this job's share of the deviations; job 0 judges it
		} else if o.Pruned {
			st.Pruned++
		} else if o.Aborted == "" {
			st.Complete++
			if o.Deadlock {
				st.Deadlocks++
			}
			sched := false
			for _, p := range o.Points {
				if p.Kind != KChoose {
					sched = true
					break
				}
			}
			if sched || opts.Bound == 0 {
				st.Nontrivial++
			}
			if len(st.Finals) < 1000000 {
				st.Finals[o.FinalKey] = true
			}
			if len(st.Outcomes) < 100000 {
				st.Outcomes[fmt.Sprint(o.Deadlock, o.Panic != "", o.Log)]++
			}
			if opts.AfterRun != nil {
				for _, msg := range opts.AfterRun(o) {
					if len(viol) < 20 {
						viol = append(viol, Violation{Msg: msg, Choices: choicesOf(o.Points, len(o.Points)), Outcome: o})
					}
				}
			}
			if sc.Check != nil {
				for _, msg := range sc.Check(o) {
					if len(viol) < 20 {
						viol = append(viol, Violation{Msg: msg, Choices: choicesOf(o.Points, len(o.Points)), Outcome: o})
					}
				}
			}
		}
		// branch on every decision after the replayed prefix
		spent := 0
		var kids []frame
		for i, p := range o.Points {
			if i >= len(fr.prefix) {
				for alt := 1; alt < p.N; alt++ {
					c := spent
					if p.Kind != KChoose {
						c++
					}
					if c <= opts.Bound {
						np := make([]int, i+1)
						for j := 0; j < i; j++ {
							np[j] = o.Points[j].Chosen
						}
						np[i] = alt
						kidShared := false
						if fr.shared {
							if p.Kind == KChoose && spent == 0 {
								kidShared = true
							} else {
								nroot++
								if (nroot-1)%opts.SplitK != opts.SplitIdx {
									continue
								}
							}
						}
						kids = append(kids, frame{np, kidShared})
					}
				}
			}
			if p.Chosen != 0 && p.Kind != KChoose {
				spent++
			}
		}
		// push in reverse so that the earliest decision's first alternative is explored next
		for i := len(kids) - 1; i >= 0; i-- {
			stack = append(stack, kids[i])
		}
	}
	if cache != nil {
		st.States = cache.Len()
	}
	return st, viol
}

// Replay runs one schedule and returns its outcome.
func Replay(sc *Scenario, choices []int, opts Options) *Outcome {
	if opts.StarveSteps == 0 {
		opts.StarveSteps = 400
	}
	if opts.Starve > 0 {
		// the starvation clock is not part of the state key
		opts.UseCache = false
	}
	if opts.MaxSteps == 0 {
		opts.MaxSteps = 200000
	}
	if opts.Unbounded {
		opts.Bound = 1 << 30
	}
	if opts.Bound < len(choices) {
		opts.Bound = len(choices) + 1
	}
	return run(choices, &opts, nil, sc.Body)
}
