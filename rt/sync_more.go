package verifrt

import (
	"sync"
	"sync/atomic"
	"unsafe"
)

// ---------- Cond ----------

// Cond models sync.Cond: Wait enqueues the caller, releases L, blocks until a Signal or
// Broadcast picks it, and takes L again. Enqueueing happens before L is released (as in the
// standard library, where the notify ticket is taken first), so a Signal issued by a goroutine
// that acquired L after the waiter released it is never lost.
type Cond struct {
	L       sync.Locker
	real    *sync.Cond
	o       obj
	waiters []*condWaiter
}

type condWaiter struct {
	g         *G
	signalled bool
	blocked   bool
}

func NewCond(l sync.Locker) *Cond { return &Cond{L: l} }

func (c *Cond) outside() *sync.Cond {
	if c.real == nil {
		c.real = sync.NewCond(c.L)
	}
	return c.real
}

func (c *Cond) state() H {
	h := mix(c.o.hash, 1)
	for _, w := range c.waiters {
		h = mix(h, uint64(w.g.hash))
	}
	return h
}

func (c *Cond) Wait() {
	if !live() {
		c.outside().Wait()
		return
	}
	g := yield()
	g.active()
	e := ex
	if c.o.enter(g) {
		c.waiters = nil
	}
	w := &condWaiter{g: g}
	c.waiters = push(c.waiters, w)
	g.hash = mix2(g.hash, opLock, 0xC0)
	e.touchG(g)
	e.touchObj(&c.o, c.state())
	c.L.Unlock()
	if !w.signalled {
		w.blocked = true
		e.block(g, "Cond.Wait")
	}
	g.hash = mix2(g.hash, opLock, 0xC1)
	e.touchG(g)
	c.L.Lock()
}

func (c *Cond) wake(all bool) {
	g := yield()
	g.active()
	e := ex
	if c.o.enter(g) {
		c.waiters = nil
	}
	n := 0
	for len(c.waiters) > 0 && (all || n == 0) {
		w := c.waiters[0]
		c.waiters = c.waiters[1:]
		w.signalled = true
		if w.blocked {
			e.ready(w.g)
		}
		n++
	}
	g.hash = mix2(g.hash, opUnlock, uint64(0xC2+n))
	c.o.hash = mix(c.o.hash, uint64(g.hash))
	e.touchG(g)
	e.touchObj(&c.o, c.state())
}

func (c *Cond) Signal() {
	if !live() {
		c.outside().Signal()
		return
	}
	c.wake(false)
}

func (c *Cond) Broadcast() {
	if !live() {
		c.outside().Broadcast()
		return
	}
	c.wake(true)
}

// ---------- remaining atomics ----------

func SwapInt64(p *int64, n int64) int64 {
	g := AtomicPre(false)
	old := atomic.SwapInt64(p, n)
	AtomicPost(g, nil, unsafe.Pointer(p), uint64(n)^uint64(old)<<1, true)
	return old
}
func SwapUint32(p *uint32, n uint32) uint32 {
	g := AtomicPre(false)
	old := atomic.SwapUint32(p, n)
	AtomicPost(g, nil, unsafe.Pointer(p), uint64(n)|uint64(old)<<32, true)
	return old
}
func SwapUint64(p *uint64, n uint64) uint64 {
	g := AtomicPre(false)
	old := atomic.SwapUint64(p, n)
	AtomicPost(g, nil, unsafe.Pointer(p), n^old<<1, true)
	return old
}
func LoadUintptr(p *uintptr) uintptr {
	g := AtomicPre(true)
	v := atomic.LoadUintptr(p)
	AtomicPost(g, nil, unsafe.Pointer(p), uint64(v), false)
	return v
}
func StoreUintptr(p *uintptr, v uintptr) {
	g := AtomicPre(false)
	atomic.StoreUintptr(p, v)
	AtomicPost(g, nil, unsafe.Pointer(p), uint64(v), true)
}
func AddUintptr(p *uintptr, d uintptr) uintptr {
	g := AtomicPre(false)
	v := atomic.AddUintptr(p, d)
	AtomicPost(g, nil, unsafe.Pointer(p), uint64(v), true)
	return v
}
func SwapUintptr(p *uintptr, n uintptr) uintptr {
	g := AtomicPre(false)
	old := atomic.SwapUintptr(p, n)
	AtomicPost(g, nil, unsafe.Pointer(p), uint64(n)^uint64(old)<<1, true)
	return old
}
func CompareAndSwapUintptr(p *uintptr, old, new uintptr) bool {
	g := AtomicPre(false)
	ok := atomic.CompareAndSwapUintptr(p, old, new)
	AtomicPost(g, nil, unsafe.Pointer(p), uint64(atomic.LoadUintptr(p))^b2u(ok)<<63, ok)
	return ok
}

// Pointer-valued atomics: the observed value enters the state hash as a per-object version
// (a pointer's numeric value differs between executions and must not).
func LoadPointer(p *unsafe.Pointer) unsafe.Pointer {
	g := AtomicPre(true)
	v := atomic.LoadPointer(p)
	AtomicPost(g, nil, unsafe.Pointer(p), 0, false)
	return v
}
func StorePointer(p *unsafe.Pointer, v unsafe.Pointer) {
	g := AtomicPre(false)
	atomic.StorePointer(p, v)
	AtomicPost(g, nil, unsafe.Pointer(p), ptrVersion(unsafe.Pointer(p)), true)
}
func SwapPointer(p *unsafe.Pointer, v unsafe.Pointer) unsafe.Pointer {
	g := AtomicPre(false)
	old := atomic.SwapPointer(p, v)
	AtomicPost(g, nil, unsafe.Pointer(p), ptrVersion(unsafe.Pointer(p)), true)
	return old
}
func CompareAndSwapPointer(p *unsafe.Pointer, old, new unsafe.Pointer) bool {
	g := AtomicPre(false)
	ok := atomic.CompareAndSwapPointer(p, old, new)
	var v uint64
	if ok {
		v = ptrVersion(unsafe.Pointer(p))
	}
	AtomicPost(g, nil, unsafe.Pointer(p), v^b2u(ok)<<63, ok)
	return ok
}

// ptrVersion counts the writes to a pointer-valued atomic within the execution.
func ptrVersion(addr unsafe.Pointer) uint64 {
	if !live() {
		return 0
	}
	ex.ptrWrites++
	return ex.ptrWrites
}

// AtomicUintptr, AtomicValue and AtomicPointer are the typed counterparts.
type AtomicUintptr struct {
	v uintptr
}

func (x *AtomicUintptr) Load() uintptr          { return LoadUintptr(&x.v) }
func (x *AtomicUintptr) Store(v uintptr)        { StoreUintptr(&x.v, v) }
func (x *AtomicUintptr) Add(d uintptr) uintptr  { return AddUintptr(&x.v, d) }
func (x *AtomicUintptr) Swap(n uintptr) uintptr { return SwapUintptr(&x.v, n) }
func (x *AtomicUintptr) CompareAndSwap(old, new uintptr) bool {
	return CompareAndSwapUintptr(&x.v, old, new)
}

func (x *AtomicUint32) Swap(n uint32) uint32 {
	g := AtomicPre(false)
	old := x.v.Swap(n)
	AtomicPost(g, &x.a, nil, uint64(n)|uint64(old)<<32, true)
	return old
}
func (x *AtomicUint64) Swap(n uint64) uint64 {
	g := AtomicPre(false)
	old := x.v.Swap(n)
	AtomicPost(g, &x.a, nil, n^old<<1, true)
	return old
}

// AtomicValue models atomic.Value.
type AtomicValue struct {
	v atomic.Value
	a AObj
	n uint64
}

func (x *AtomicValue) Load() any {
	g := AtomicPre(true)
	v := x.v.Load()
	AtomicPost(g, &x.a, nil, x.n, false)
	return v
}
func (x *AtomicValue) Store(val any) {
	g := AtomicPre(false)
	x.v.Store(val)
	x.n++
	AtomicPost(g, &x.a, nil, x.n, true)
}
func (x *AtomicValue) Swap(new any) any {
	g := AtomicPre(false)
	old := x.v.Swap(new)
	x.n++
	AtomicPost(g, &x.a, nil, x.n, true)
	return old
}
func (x *AtomicValue) CompareAndSwap(old, new any) bool {
	g := AtomicPre(false)
	ok := x.v.CompareAndSwap(old, new)
	if ok {
		x.n++
	}
	AtomicPost(g, &x.a, nil, x.n^b2u(ok)<<63, ok)
	return ok
}

// AtomicPtr is the non-generic core of vatomic.Pointer[T].
type AtomicPtr struct {
	p unsafe.Pointer
}

func (x *AtomicPtr) Load() unsafe.Pointer   { return LoadPointer(&x.p) }
func (x *AtomicPtr) Store(v unsafe.Pointer) { StorePointer(&x.p, v) }
func (x *AtomicPtr) Swap(v unsafe.Pointer) unsafe.Pointer {
	return SwapPointer(&x.p, v)
}
func (x *AtomicPtr) CompareAndSwap(old, new unsafe.Pointer) bool {
	return CompareAndSwapPointer(&x.p, old, new)
}
