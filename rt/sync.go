package verifrt

import (
	"sync"
	"sync/atomic"
	"unsafe"
)

// Model implementations of sync.Mutex, RWMutex, WaitGroup, Once. The packages
// verifrt/vsync and verifrt/vatomic alias these under the names of the standard library, and
// the instrumenter redirects the imports. Model state is valid for one execution (epoch);
// outside an execution the embedded real primitive is used.

type obj struct {
	epoch   uint64
	id      H
	hash    H
	contrib H
	tok     byte // race mode: release -> acquire token of the object
	tok2    byte // RWMutex: readers -> writer
}

func (o *obj) acq()  { raceAcquire(unsafe.Pointer(&o.tok)) }
func (o *obj) rel()  { raceReleaseMerge(unsafe.Pointer(&o.tok)) }
func (o *obj) acq2() { raceAcquire(unsafe.Pointer(&o.tok2)) }
func (o *obj) rel2() { raceReleaseMerge(unsafe.Pointer(&o.tok2)) }

// enter resets the model state when the object is first used in an execution.
func (o *obj) enter(g *G) bool {
	if o.epoch == ex.epoch {
		return false
	}
	o.epoch = ex.epoch
	o.id = mix(g.hash, 0x0B1)
	o.hash = 0
	o.contrib = 0
	return true
}

func (e *Exec) touchObj(o *obj, state H) {
	var c H
	if state != 0 {
		c = mix(o.id, uint64(state))
	}
	e.sum += c - o.contrib
	o.contrib = c
}

// ---------- Mutex ----------

type Mutex struct {
	real    sync.Mutex
	o       obj
	locked  bool
	waiters []*G
}

func (m *Mutex) state() H {
	h := mix(m.o.hash, 1)
	if m.locked {
		h = mix(h, 2)
	}
	for _, w := range m.waiters {
		h = mix(h, uint64(w.hash))
	}
	return h
}

func (m *Mutex) Lock() {
	if !live() {
		m.real.Lock()
		return
	}
	g := yield()
	g.active()
	e := ex
	if m.o.enter(g) {
		m.locked, m.waiters = false, nil
	}
	for m.locked {
		m.waiters = push(m.waiters, g)
		e.touchObj(&m.o, m.state())
		e.block(g, "Mutex.Lock")
	}
	m.locked = true
	m.o.acq()
	g.hash = mix2(g.hash, opLock, uint64(m.o.hash))
	e.touchG(g)
	e.touchObj(&m.o, m.state())
}

func (m *Mutex) TryLock() bool {
	if !live() {
		return m.real.TryLock()
	}
	g := yield()
	g.active()
	e := ex
	if m.o.enter(g) {
		m.locked, m.waiters = false, nil
	}
	if m.locked {
		g.hash = mix2(g.hash, opLock, 0xF)
		e.touchG(g)
		return false
	}
	m.locked = true
	m.o.acq()
	g.hash = mix2(g.hash, opLock, uint64(m.o.hash))
	e.touchG(g)
	e.touchObj(&m.o, m.state())
	return true
}

func (m *Mutex) Unlock() {
	if !live() {
		m.real.Unlock()
		return
	}
	g := yield()
	g.active()
	e := ex
	if m.o.enter(g) {
		m.locked, m.waiters = false, nil
	}
	if !m.locked {
		panic("sync: unlock of unlocked mutex")
	}
	m.locked = false
	m.o.rel()
	g.hash = mix(g.hash, opUnlock)
	m.o.hash = mix(m.o.hash, uint64(g.hash))
	if len(m.waiters) > 0 {
		w := m.waiters[0]
		m.waiters = m.waiters[1:]
		e.ready(w)
	}
	e.touchG(g)
	e.touchObj(&m.o, m.state())
}

// ---------- RWMutex ----------

type RWMutex struct {
	real     sync.RWMutex
	o        obj
	writer   bool
	readers  int
	pendingW int
	wq       []*G
	rq       []*G
}

func (m *RWMutex) reset() {
	m.writer, m.readers, m.pendingW, m.wq, m.rq = false, 0, 0, nil, nil
}

func (m *RWMutex) state() H {
	h := mix3(m.o.hash, 1, uint64(m.readers), uint64(m.pendingW))
	if m.writer {
		h = mix(h, 2)
	}
	for _, w := range m.wq {
		h = mix2(h, 3, uint64(w.hash))
	}
	for _, w := range m.rq {
		h = mix2(h, 4, uint64(w.hash))
	}
	return h
}

func (m *RWMutex) Lock() {
	if !live() {
		m.real.Lock()
		return
	}
	g := yield()
	g.active()
	e := ex
	if m.o.enter(g) {
		m.reset()
	}
	for m.writer || m.readers > 0 {
		m.pendingW++
		m.wq = push(m.wq, g)
		e.touchObj(&m.o, m.state())
		e.block(g, "RWMutex.Lock")
		m.pendingW--
	}
	m.writer = true
	m.o.acq()
	m.o.acq2()
	g.hash = mix2(g.hash, opLock, uint64(m.o.hash))
	e.touchG(g)
	e.touchObj(&m.o, m.state())
}

func (m *RWMutex) Unlock() {
	if !live() {
		m.real.Unlock()
		return
	}
	g := yield()
	g.active()
	e := ex
	if m.o.enter(g) {
		m.reset()
	}
	if !m.writer {
		panic("sync: Unlock of unlocked RWMutex")
	}
	m.writer = false
	m.o.rel()
	g.hash = mix(g.hash, opUnlock)
	m.o.hash = mix(m.o.hash, uint64(g.hash))
	// readers that arrived during the write are admitted first, as in sync.RWMutex
	for _, r := range m.rq {
		m.readers++
		r.hash = mix2(r.hash, opRLock, uint64(m.o.hash))
		e.ready(r)
	}
	m.rq = nil
	if len(m.wq) > 0 {
		w := m.wq[0]
		m.wq = m.wq[1:]
		e.ready(w)
	}
	e.touchG(g)
	e.touchObj(&m.o, m.state())
}

func (m *RWMutex) RLock() {
	if !live() {
		m.real.RLock()
		return
	}
	g := yield()
	g.active()
	e := ex
	if m.o.enter(g) {
		m.reset()
	}
	if m.writer || m.pendingW > 0 {
		m.rq = push(m.rq, g)
		e.touchObj(&m.o, m.state())
		e.block(g, "RWMutex.RLock") // admitted by Unlock / the last pending writer
		m.o.acq()
		e.touchG(g)
		return
	}
	m.readers++
	m.o.acq()
	g.hash = mix2(g.hash, opRLock, uint64(m.o.hash))
	e.touchG(g)
	e.touchObj(&m.o, m.state())
}

func (m *RWMutex) RUnlock() {
	if !live() {
		m.real.RUnlock()
		return
	}
	g := yield()
	g.active()
	e := ex
	if m.o.enter(g) {
		m.reset()
	}
	if m.readers <= 0 {
		panic("sync: RUnlock of unlocked RWMutex")
	}
	m.readers--
	m.o.rel2()
	g.hash = mix(g.hash, opRUnlock)
	if m.readers == 0 && len(m.wq) > 0 {
		w := m.wq[0]
		m.wq = m.wq[1:]
		e.ready(w)
	}
	e.touchG(g)
	e.touchObj(&m.o, m.state())
}

func (m *RWMutex) TryLock() bool {
	if !live() {
		return m.real.TryLock()
	}
	g := yield()
	g.active()
	e := ex
	if m.o.enter(g) {
		m.reset()
	}
	if m.writer || m.readers > 0 {
		return false
	}
	m.writer = true
	m.o.acq()
	m.o.acq2()
	g.hash = mix2(g.hash, opLock, uint64(m.o.hash))
	e.touchG(g)
	e.touchObj(&m.o, m.state())
	return true
}

func (m *RWMutex) TryRLock() bool {
	if !live() {
		return m.real.TryRLock()
	}
	g := yield()
	g.active()
	e := ex
	if m.o.enter(g) {
		m.reset()
	}
	if m.writer || m.pendingW > 0 {
		return false
	}
	m.readers++
	m.o.acq()
	g.hash = mix2(g.hash, opRLock, uint64(m.o.hash))
	e.touchG(g)
	e.touchObj(&m.o, m.state())
	return true
}

type rlocker RWMutex

func (r *rlocker) Lock()   { (*RWMutex)(r).RLock() }
func (r *rlocker) Unlock() { (*RWMutex)(r).RUnlock() }

func (m *RWMutex) RLocker() sync.Locker { return (*rlocker)(m) }

// ---------- WaitGroup ----------

type WaitGroup struct {
	real    sync.WaitGroup
	o       obj
	n       int
	waiters []*G
}

func (w *WaitGroup) state() H {
	h := mix2(w.o.hash, 1, uint64(w.n))
	for _, g := range w.waiters {
		h += mix(g.hash, 5)
	}
	return h
}

func (w *WaitGroup) Add(delta int) {
	if !live() {
		w.real.Add(delta)
		return
	}
	g := yield()
	g.active()
	e := ex
	if w.o.enter(g) {
		w.n, w.waiters = 0, nil
	}
	w.n += delta
	if w.n < 0 {
		panic("sync: negative WaitGroup counter")
	}
	w.o.rel()
	g.hash = mix2(g.hash, opWgAdd, uint64(delta))
	w.o.hash += mix(g.hash, 7) // commutative: the order of Add/Done calls is not observable
	if w.n == 0 {
		for _, x := range w.waiters {
			x.hash = mix2(x.hash, opWgWait, uint64(w.o.hash))
			e.ready(x)
		}
		w.waiters = nil
	}
	e.touchG(g)
	e.touchObj(&w.o, w.state())
}

func (w *WaitGroup) Done() { w.Add(-1) }

func (w *WaitGroup) Wait() {
	if !live() {
		w.real.Wait()
		return
	}
	g := yield()
	g.active()
	e := ex
	if w.o.enter(g) {
		w.n, w.waiters = 0, nil
	}
	if w.n == 0 {
		w.o.acq()
		g.hash = mix2(g.hash, opWgWait, uint64(w.o.hash))
		e.touchG(g)
		return
	}
	w.waiters = push(w.waiters, g)
	e.touchObj(&w.o, w.state())
	e.block(g, "WaitGroup.Wait")
	w.o.acq()
	e.touchG(g)
}

// ---------- Once ----------

type Once struct {
	real    sync.Once
	o       obj
	done    bool
	running bool
	waiters []*G
}

func (o *Once) state() H {
	h := mix(o.o.hash, 1)
	if o.done {
		h = mix(h, 2)
	}
	if o.running {
		h = mix(h, 3)
	}
	for _, g := range o.waiters {
		h = mix(h, uint64(g.hash))
	}
	return h
}

func (o *Once) Do(f func()) {
	if !live() {
		o.real.Do(f)
		return
	}
	g := yield()
	e := ex
	if o.o.enter(g) {
		o.done, o.running, o.waiters = false, false, nil
	}
	if o.done {
		// passive: does not count as progress for spin detection
		o.o.acq()
		g.hash = mix2(g.hash, opOnce, uint64(o.o.hash))
		e.touchG(g)
		return
	}
	g.active()
	if o.running {
		o.waiters = push(o.waiters, g)
		e.touchObj(&o.o, o.state())
		e.block(g, "Once.Do (another goroutine is running the function)")
		o.o.acq()
		g.hash = mix2(g.hash, opOnce, uint64(o.o.hash))
		e.touchG(g)
		return
	}
	o.running = true
	g.hash = mix(g.hash, opOnce+100)
	e.touchG(g)
	e.touchObj(&o.o, o.state())
	defer func() {
		if e.exiting {
			return
		}
		g := yield()
		g.active()
		o.running, o.done = false, true
		o.o.rel()
		g.hash = mix(g.hash, opOnceDone)
		o.o.hash = g.hash
		for _, x := range o.waiters {
			e.ready(x)
		}
		o.waiters = nil
		e.touchG(g)
		e.touchObj(&o.o, o.state())
	}()
	f()
}

// ---------- atomics ----------

// atomic objects addressed by raw pointers (function-style API) live in a side table.
type atomObj struct {
	o obj
}

func atomOf(p unsafe.Pointer, g *G) *obj {
	a := (*atomObj)(ex.atoms.get(p))
	if a == nil {
		a = &atomObj{}
		ex.atoms.put(p, unsafe.Pointer(a))
	}
	a.o.enter(g)
	return &a.o
}

// AtomicPre is the scheduling point before an atomic operation; passive marks pure loads.
func AtomicPre(passive bool) *G {
	if !live() {
		return nil
	}
	g := yield()
	if !passive {
		g.active()
	}
	return g
}

// AtomicPost records the value observed/stored by the operation. o may be nil for raw pointers.
func AtomicPost(g *G, o *AObj, addr unsafe.Pointer, val uint64, wrote bool) {
	if g == nil {
		return
	}
	e := ex
	var ob *obj
	if o != nil {
		o.o.enter(g)
		ob = &o.o
	} else {
		ob = atomOf(addr, g)
	}
	g.hash = mix2(g.hash, opAtomic, val)
	e.touchG(g)
	if wrote {
		e.touchObj(ob, mix(0xA7, val))
	}
	// Race mode. The real operation above is invisible to the detector (this package is built
	// without instrumentation and the compiler intrinsifies sync/atomic here), so the edges and
	// the access are declared by hand: every atomic operation acquires and releases the object's
	// token (Go's atomics are sequentially consistent: an operation that observes another is
	// synchronised after it; ordering *all* operations on one address is slightly stronger and
	// can only hide, never invent, a report), and for a raw pointer the access itself is
	// declared, so that a plain access elsewhere that is not ordered with it is reported
	// (mixed atomic/plain use of one variable).
	raceAcquire(unsafe.Pointer(&ob.tok))
	if addr != nil {
		if wrote {
			raceWrite(addr)
		} else {
			raceRead(addr)
		}
	}
	raceReleaseMerge(unsafe.Pointer(&ob.tok))
}

// AObj is embedded in the typed atomic shims.
type AObj struct{ o obj }

// Typed atomics.

type AtomicBool struct {
	v atomic.Bool
	a AObj
}

func b2u(b bool) uint64 {
	if b {
		return 1
	}
	return 0
}

func (x *AtomicBool) Load() bool {
	g := AtomicPre(true)
	v := x.v.Load()
	AtomicPost(g, &x.a, nil, b2u(v), false)
	return v
}
func (x *AtomicBool) Store(val bool) {
	g := AtomicPre(false)
	x.v.Store(val)
	AtomicPost(g, &x.a, nil, b2u(val), true)
}
func (x *AtomicBool) Swap(new bool) bool {
	g := AtomicPre(false)
	old := x.v.Swap(new)
	AtomicPost(g, &x.a, nil, b2u(new)|b2u(old)<<1, true)
	return old
}
func (x *AtomicBool) CompareAndSwap(old, new bool) bool {
	g := AtomicPre(false)
	ok := x.v.CompareAndSwap(old, new)
	AtomicPost(g, &x.a, nil, b2u(x.v.Load())|b2u(ok)<<1, ok)
	return ok
}

type AtomicInt32 struct {
	v atomic.Int32
	a AObj
}

func (x *AtomicInt32) Load() int32 {
	g := AtomicPre(true)
	v := x.v.Load()
	AtomicPost(g, &x.a, nil, uint64(uint32(v)), false)
	return v
}
func (x *AtomicInt32) Store(val int32) {
	g := AtomicPre(false)
	x.v.Store(val)
	AtomicPost(g, &x.a, nil, uint64(uint32(val)), true)
}
func (x *AtomicInt32) Add(d int32) int32 {
	g := AtomicPre(false)
	v := x.v.Add(d)
	AtomicPost(g, &x.a, nil, uint64(uint32(v)), true)
	return v
}
func (x *AtomicInt32) Swap(new int32) int32 {
	g := AtomicPre(false)
	old := x.v.Swap(new)
	AtomicPost(g, &x.a, nil, uint64(uint32(new))|uint64(uint32(old))<<32, true)
	return old
}
func (x *AtomicInt32) CompareAndSwap(old, new int32) bool {
	g := AtomicPre(false)
	ok := x.v.CompareAndSwap(old, new)
	AtomicPost(g, &x.a, nil, uint64(uint32(x.v.Load()))|b2u(ok)<<32, ok)
	return ok
}

type AtomicInt64 struct {
	v atomic.Int64
	a AObj
}

func (x *AtomicInt64) Load() int64 {
	g := AtomicPre(true)
	v := x.v.Load()
	AtomicPost(g, &x.a, nil, uint64(v), false)
	return v
}
func (x *AtomicInt64) Store(val int64) {
	g := AtomicPre(false)
	x.v.Store(val)
	AtomicPost(g, &x.a, nil, uint64(val), true)
}
func (x *AtomicInt64) Add(d int64) int64 {
	g := AtomicPre(false)
	v := x.v.Add(d)
	AtomicPost(g, &x.a, nil, uint64(v), true)
	return v
}
func (x *AtomicInt64) Swap(new int64) int64 {
	g := AtomicPre(false)
	old := x.v.Swap(new)
	AtomicPost(g, &x.a, nil, mix(H(new), uint64(old)).u(), true)
	return old
}
func (x *AtomicInt64) CompareAndSwap(old, new int64) bool {
	g := AtomicPre(false)
	ok := x.v.CompareAndSwap(old, new)
	AtomicPost(g, &x.a, nil, mix(H(x.v.Load()), b2u(ok)).u(), ok)
	return ok
}

func (h H) u() uint64 { return uint64(h) }

type AtomicUint32 struct {
	v atomic.Uint32
	a AObj
}

func (x *AtomicUint32) Load() uint32 {
	g := AtomicPre(true)
	v := x.v.Load()
	AtomicPost(g, &x.a, nil, uint64(v), false)
	return v
}
func (x *AtomicUint32) Store(val uint32) {
	g := AtomicPre(false)
	x.v.Store(val)
	AtomicPost(g, &x.a, nil, uint64(val), true)
}
func (x *AtomicUint32) Add(d uint32) uint32 {
	g := AtomicPre(false)
	v := x.v.Add(d)
	AtomicPost(g, &x.a, nil, uint64(v), true)
	return v
}
func (x *AtomicUint32) CompareAndSwap(old, new uint32) bool {
	g := AtomicPre(false)
	ok := x.v.CompareAndSwap(old, new)
	AtomicPost(g, &x.a, nil, uint64(x.v.Load())|b2u(ok)<<32, ok)
	return ok
}

type AtomicUint64 struct {
	v atomic.Uint64
	a AObj
}

func (x *AtomicUint64) Load() uint64 {
	g := AtomicPre(true)
	v := x.v.Load()
	AtomicPost(g, &x.a, nil, v, false)
	return v
}
func (x *AtomicUint64) Store(val uint64) {
	g := AtomicPre(false)
	x.v.Store(val)
	AtomicPost(g, &x.a, nil, val, true)
}
func (x *AtomicUint64) Add(d uint64) uint64 {
	g := AtomicPre(false)
	v := x.v.Add(d)
	AtomicPost(g, &x.a, nil, v, true)
	return v
}
func (x *AtomicUint64) CompareAndSwap(old, new uint64) bool {
	g := AtomicPre(false)
	ok := x.v.CompareAndSwap(old, new)
	AtomicPost(g, &x.a, nil, mix(H(x.v.Load()), b2u(ok)).u(), ok)
	return ok
}

// Function-style atomics on raw addresses.

func LoadInt32(p *int32) int32 {
	g := AtomicPre(true)
	v := atomic.LoadInt32(p)
	AtomicPost(g, nil, unsafe.Pointer(p), uint64(uint32(v)), false)
	return v
}
func StoreInt32(p *int32, v int32) {
	g := AtomicPre(false)
	atomic.StoreInt32(p, v)
	AtomicPost(g, nil, unsafe.Pointer(p), uint64(uint32(v)), true)
}
func AddInt32(p *int32, d int32) int32 {
	g := AtomicPre(false)
	v := atomic.AddInt32(p, d)
	AtomicPost(g, nil, unsafe.Pointer(p), uint64(uint32(v)), true)
	return v
}
func SwapInt32(p *int32, n int32) int32 {
	g := AtomicPre(false)
	old := atomic.SwapInt32(p, n)
	AtomicPost(g, nil, unsafe.Pointer(p), uint64(uint32(n))|uint64(uint32(old))<<32, true)
	return old
}
func CompareAndSwapInt32(p *int32, old, new int32) bool {
	g := AtomicPre(false)
	ok := atomic.CompareAndSwapInt32(p, old, new)
	AtomicPost(g, nil, unsafe.Pointer(p), uint64(uint32(atomic.LoadInt32(p)))|b2u(ok)<<32, ok)
	return ok
}
func LoadInt64(p *int64) int64 {
	g := AtomicPre(true)
	v := atomic.LoadInt64(p)
	AtomicPost(g, nil, unsafe.Pointer(p), uint64(v), false)
	return v
}
func StoreInt64(p *int64, v int64) {
	g := AtomicPre(false)
	atomic.StoreInt64(p, v)
	AtomicPost(g, nil, unsafe.Pointer(p), uint64(v), true)
}
func AddInt64(p *int64, d int64) int64 {
	g := AtomicPre(false)
	v := atomic.AddInt64(p, d)
	AtomicPost(g, nil, unsafe.Pointer(p), uint64(v), true)
	return v
}
func CompareAndSwapInt64(p *int64, old, new int64) bool {
	g := AtomicPre(false)
	ok := atomic.CompareAndSwapInt64(p, old, new)
	AtomicPost(g, nil, unsafe.Pointer(p), mix(H(atomic.LoadInt64(p)), b2u(ok)).u(), ok)
	return ok
}
func LoadUint32(p *uint32) uint32 {
	g := AtomicPre(true)
	v := atomic.LoadUint32(p)
	AtomicPost(g, nil, unsafe.Pointer(p), uint64(v), false)
	return v
}
func StoreUint32(p *uint32, v uint32) {
	g := AtomicPre(false)
	atomic.StoreUint32(p, v)
	AtomicPost(g, nil, unsafe.Pointer(p), uint64(v), true)
}
func AddUint32(p *uint32, d uint32) uint32 {
	g := AtomicPre(false)
	v := atomic.AddUint32(p, d)
	AtomicPost(g, nil, unsafe.Pointer(p), uint64(v), true)
	return v
}
func CompareAndSwapUint32(p *uint32, old, new uint32) bool {
	g := AtomicPre(false)
	ok := atomic.CompareAndSwapUint32(p, old, new)
	AtomicPost(g, nil, unsafe.Pointer(p), uint64(atomic.LoadUint32(p))|b2u(ok)<<32, ok)
	return ok
}
func LoadUint64(p *uint64) uint64 {
	g := AtomicPre(true)
	v := atomic.LoadUint64(p)
	AtomicPost(g, nil, unsafe.Pointer(p), v, false)
	return v
}
func StoreUint64(p *uint64, v uint64) {
	g := AtomicPre(false)
	atomic.StoreUint64(p, v)
	AtomicPost(g, nil, unsafe.Pointer(p), v, true)
}
func AddUint64(p *uint64, d uint64) uint64 {
	g := AtomicPre(false)
	v := atomic.AddUint64(p, d)
	AtomicPost(g, nil, unsafe.Pointer(p), v, true)
	return v
}
func CompareAndSwapUint64(p *uint64, old, new uint64) bool {
	g := AtomicPre(false)
	ok := atomic.CompareAndSwapUint64(p, old, new)
	AtomicPost(g, nil, unsafe.Pointer(p), mix(H(atomic.LoadUint64(p)), b2u(ok)).u(), ok)
	return ok
}
