package verifrt

import (
	"reflect"
	"runtime"
	"unsafe"
)

// Channels. The real channel made by `make` is only an identity token (its address keys the
// side table, which also keeps it alive) and the source of cap(); instrumented code never sends
// a value through it while an execution is active.

type elem struct {
	v any
	h H
}

type waiter struct {
	g      *G
	val    any
	valH   H
	sel    *selState
	caseIx int
}

type selState struct {
	done  bool
	chans []*chanState
}

type chanState struct {
	keep    any
	cap     int
	buf     []elem
	recvq   []*waiter
	sendq   []*waiter
	closed  bool
	contrib H
	name    string
	tokS    byte // race mode: sends and close -> receives
	tokR    byte // race mode: receives -> sends that complete later
}

func (e *Exec) touchChan(c *chanState) {
	var h H
	if len(c.buf) > 0 || len(c.recvq) > 0 || len(c.sendq) > 0 || c.closed {
		h = mix(0xC0FFEE, uint64(c.cap))
		if c.closed {
			h = mix(h, 0xC105ED)
		}
		for _, el := range c.buf {
			h = mix2(h, 1, uint64(el.h))
		}
		for _, w := range c.recvq {
			h = mix2(h, 2, uint64(w.g.hash))
		}
		for _, w := range c.sendq {
			h = mix3(h, 3, uint64(w.g.hash), uint64(w.valH))
		}
	}
	e.sum += h - c.contrib
	c.contrib = h
}

func chanOf(p unsafe.Pointer, keep any, capacity int) *chanState {
	if p == nil {
		return nil
	}
	c := (*chanState)(ex.chans.get(p))
	if c == nil {
		c = &chanState{keep: keep, cap: capacity}
		ex.chans.put(p, unsafe.Pointer(c))
	}
	return c
}

func removeWaiter(q []*waiter, ss *selState) []*waiter {
	for i, w := range q {
		if w.sel == ss {
			return removeIdx(q, i)
		}
	}
	return q
}

// completeSel marks a blocked select as decided and removes its waiters from every channel.
func (e *Exec) completeSel(w *waiter) {
	ss := w.sel
	if ss == nil {
		return
	}
	ss.done = true
	w.g.selIdx = w.caseIx
	for _, c := range ss.chans {
		n1, n2 := len(c.recvq), len(c.sendq)
		c.recvq = removeWaiter(c.recvq, ss)
		c.sendq = removeWaiter(c.sendq, ss)
		if n1 != len(c.recvq) || n2 != len(c.sendq) {
			e.touchChan(c)
		}
	}
}

func popWaiter(q *[]*waiter) *waiter {
	w := (*q)[0]
	*q = removeIdx(*q, 0)
	return w
}

// trySend performs a send if it can complete now.
func (e *Exec) trySend(c *chanState, g *G, v any) bool {
	if c.closed {
		panic("send on closed channel")
	}
	if len(c.recvq) > 0 {
		w := popWaiter(&c.recvq)
		e.completeSel(w)
		raceAcquire(unsafe.Pointer(&c.tokR))
		raceReleaseMerge(unsafe.Pointer(&c.tokS))
		g.hash = mix(g.hash, opSend)
		w.g.val, w.g.valH, w.g.ok = v, g.hash, true
		w.g.hash = mix2(w.g.hash, opRecv, uint64(g.hash))
		e.ready(w.g)
		e.touchChan(c)
		e.touchG(g)
		return true
	}
	if len(c.buf) < c.cap {
		raceAcquire(unsafe.Pointer(&c.tokR))
		raceReleaseMerge(unsafe.Pointer(&c.tokS))
		g.hash = mix(g.hash, opSend)
		c.buf = push(c.buf, elem{v, g.hash})
		e.touchChan(c)
		e.touchG(g)
		return true
	}
	return false
}

// tryRecv performs a receive if it can complete now. done=false means it would block.
func (e *Exec) tryRecv(c *chanState, g *G) (v any, ok bool, done bool) {
	if len(c.buf) > 0 || len(c.sendq) > 0 || c.closed {
		raceAcquire(unsafe.Pointer(&c.tokS))
		raceReleaseMerge(unsafe.Pointer(&c.tokR))
	}
	if len(c.buf) > 0 {
		el := c.buf[0]
		c.buf = removeIdx(c.buf, 0)
		g.hash = mix2(g.hash, opRecv, uint64(el.h))
		if len(c.sendq) > 0 {
			w := popWaiter(&c.sendq)
			e.completeSel(w)
			w.g.hash = mix(w.g.hash, opSend)
			w.g.ok = true
			c.buf = push(c.buf, elem{w.val, w.valH})
			e.ready(w.g)
		}
		e.touchChan(c)
		e.touchG(g)
		return el.v, true, true
	}
	if len(c.sendq) > 0 {
		w := popWaiter(&c.sendq)
		e.completeSel(w)
		g.hash = mix2(g.hash, opRecv, uint64(w.valH))
		w.g.hash = mix(w.g.hash, opSend)
		w.g.ok = true
		e.ready(w.g)
		e.touchChan(c)
		e.touchG(g)
		return w.val, true, true
	}
	if c.closed {
		g.hash = mix2(g.hash, opRecv, 0xDEAD)
		e.touchG(g)
		return nil, false, true
	}
	return nil, false, false
}

// Snd wraps the sending side of a channel; S(ch).Send(v) replaces `ch <- v`.
type Snd[T any] struct{ ch chan<- T }

func S[T any](ch chan<- T) Snd[T] { return Snd[T]{ch} }

func (s Snd[T]) state() *chanState {
	return chanOf(*(*unsafe.Pointer)(unsafe.Pointer(&s.ch)), s.ch, cap(s.ch))
}

func (s Snd[T]) Send(v T) {
	if !live() {
		s.ch <- v
		return
	}
	// the generic wrapper only converts; the operation itself runs in non-generic code of this
	// package (generic bodies are compiled into the caller's package and would be instrumented
	// by the race detector there)
	sendCore(s.state(), v)
}

func sendCore(c *chanState, v any) {
	g := yield()
	g.active()
	e := ex
	if c == nil {
		e.block(g, "send on nil channel")
		return
	}
	if e.trySend(c, g, v) {
		return
	}
	g.hash = mix(g.hash, opSend+100)
	raceReleaseMerge(unsafe.Pointer(&c.tokS)) // the value is handed over by whoever receives it
	c.sendq = push(c.sendq, &waiter{g: g, val: v, valH: g.hash})
	e.touchChan(c)
	e.block(g, "chan send")
	if !g.ok {
		panic("send on closed channel")
	}
}

func recvAny[T any](ch <-chan T) (T, bool) {
	var zero T
	if !live() {
		v, ok := <-ch
		return v, ok
	}
	v, ok := recvCore(chanOf(*(*unsafe.Pointer)(unsafe.Pointer(&ch)), ch, cap(ch)))
	if !ok || v == nil {
		return zero, ok
	}
	return v.(T), ok
}

func recvCore(c *chanState) (any, bool) {
	g := yield()
	g.active()
	e := ex
	if c == nil {
		e.block(g, "receive from nil channel")
		return nil, false
	}
	v, ok, done := e.tryRecv(c, g)
	if !done {
		// a receive from an unbuffered channel is synchronised before the completion of the
		// corresponding send: what this goroutine did so far is visible to whoever hands it a value
		raceReleaseMerge(unsafe.Pointer(&c.tokR))
		c.recvq = push(c.recvq, &waiter{g: g})
		e.touchChan(c)
		e.block(g, "chan receive")
		raceReleaseMerge(unsafe.Pointer(&c.tokR))
		v, ok = g.val, g.ok
		g.val = nil
	}
	return v, ok
}

// Recv replaces `<-ch`; Recv2 replaces `v, ok := <-ch`.
func Recv[T any](ch <-chan T) T          { v, _ := recvAny(ch); return v }
func Recv2[T any](ch <-chan T) (T, bool) { return recvAny(ch) }

// Close replaces close(ch).
func Close[T any](ch chan<- T) {
	if !live() {
		close(ch)
		return
	}
	closeCore(chanOf(*(*unsafe.Pointer)(unsafe.Pointer(&ch)), ch, cap(ch)))
}

func closeCore(c *chanState) {
	g := yield()
	g.active()
	if c == nil {
		panic("close of nil channel")
	}
	ex.closeChan(c, g)
}

func (e *Exec) closeChan(c *chanState, g *G) {
	if c.closed {
		panic("close of closed channel")
	}
	c.closed = true
	raceReleaseMerge(unsafe.Pointer(&c.tokS))
	g.hash = mix(g.hash, opClose)
	for len(c.recvq) > 0 {
		w := popWaiter(&c.recvq)
		e.completeSel(w)
		w.g.val, w.g.ok = nil, false
		w.g.hash = mix2(w.g.hash, opRecv, 0xDEAD)
		e.ready(w.g)
	}
	for len(c.sendq) > 0 {
		w := popWaiter(&c.sendq)
		e.completeSel(w)
		w.g.ok = false // the sender panics when it resumes
		e.ready(w.g)
	}
	e.touchChan(c)
	e.touchG(g)
}

// Range replaces `for v := range ch`: call it as `for { v, ok := Recv2(ch); if !ok { break } ... }`.

// ---------- select ----------

// Case is one communication clause of a select.
type Case interface {
	st() *chanState
	isSend() bool
	sendVal() any
	set(v any, ok bool)
	rcase() reflect.SelectCase
	rset(v reflect.Value, ok bool)
}

// RC is a receive clause.
type RC[T any] struct {
	ch <-chan T
	v  T
	ok bool
}

func R[T any](ch <-chan T) *RC[T] { return &RC[T]{ch: ch} }
func (c *RC[T]) st() *chanState {
	return chanOf(*(*unsafe.Pointer)(unsafe.Pointer(&c.ch)), c.ch, cap(c.ch))
}
func (c *RC[T]) isSend() bool { return false }
func (c *RC[T]) sendVal() any { return nil }
func (c *RC[T]) set(v any, ok bool) {
	c.ok = ok
	if ok && v != nil {
		c.v = v.(T)
	}
}
func (c *RC[T]) rcase() reflect.SelectCase {
	return reflect.SelectCase{Dir: reflect.SelectRecv, Chan: reflect.ValueOf(c.ch)}
}
func (c *RC[T]) rset(v reflect.Value, ok bool) {
	c.ok = ok
	if ok {
		c.v, _ = v.Interface().(T)
	}
}

// V returns the received value, V2 the value and the ok flag.
func (c *RC[T]) V() T          { return c.v }
func (c *RC[T]) V2() (T, bool) { return c.v, c.ok }

// SC is a send clause.
type SC[T any] struct {
	s Snd[T]
	v T
}

func (s Snd[T]) Case(v T) *SC[T]    { return &SC[T]{s, v} }
func (c *SC[T]) st() *chanState     { return c.s.state() }
func (c *SC[T]) isSend() bool       { return true }
func (c *SC[T]) sendVal() any       { return c.v }
func (c *SC[T]) set(v any, ok bool) {}
func (c *SC[T]) rcase() reflect.SelectCase {
	return reflect.SelectCase{Dir: reflect.SelectSend, Chan: reflect.ValueOf(c.s.ch), Send: reflect.ValueOf(c.v)}
}
func (c *SC[T]) rset(v reflect.Value, ok bool) {}

func passThroughSelect(def bool, cs []Case) int {
	rc := make([]reflect.SelectCase, 0, len(cs)+1)
	for _, c := range cs {
		rc = push(rc, c.rcase())
	}
	if def {
		rc = push(rc, reflect.SelectCase{Dir: reflect.SelectDefault})
	}
	i, v, ok := reflect.Select(rc)
	if def && i == len(cs) {
		return -1
	}
	cs[i].rset(v, ok)
	return i
}

// Select replaces a select statement. site identifies the statement (assigned by the
// instrumenter); def tells whether it has a default clause. It returns the index of the chosen
// clause or -1 for default.
//
// Waiting is made visible here: a goroutine that comes back to the same select having last
// taken a receive from a closed channel there, and has since performed only passive operations,
// would stutter (the iteration changes nothing). Such a clause is not offered again while another
// clause is ready, and if nothing else is ready the goroutine is treated as blocked on the
// remaining clauses and flagged as spinning.
func Select(site int, def bool, cs ...Case) int {
	if !live() {
		return passThroughSelect(def, cs)
	}
	e := ex
	var stsArr [8]*chanState
	sts := stsArr[:0]
	for _, c := range cs {
		sts = push(sts, c.st())
	}
	g := yield()
	// The identity of a "visit" for spin detection is the statement plus its callers: tracer.Send
	// called from three consecutive lines is not a loop, the same line reached again is.
	spinKey := uint32(0)
	probation := false
retry:
	var readyArr [8]int
	ready := readyArr[:0]
	stutter := uint32(0)
	for i, c := range cs {
		s := sts[i]
		if s == nil {
			continue
		}
		if c.isSend() {
			if s.closed || len(s.buf) < s.cap || len(s.recvq) > 0 {
				ready = push(ready, i)
			}
		} else {
			if len(s.buf) > 0 || len(s.sendq) > 0 {
				ready = push(ready, i)
			} else if s.closed {
				if spinKey == 0 {
					spinKey = callerKey(site)
				}
				if g.passiveOnly && !probation && g.inSpinSet(spinKey, i) {
					stutter |= 1 << uint(i)
				} else {
					ready = push(ready, i)
				}
			}
		}
	}
	if len(ready) > 0 {
		// Fair default: Go's select chooses uniformly among the ready clauses, so a goroutine that
		// comes back to the same statement (same callers) cannot take the same receive from a
		// closed channel for ever while another clause is ready. The default alternative rotates
		// away from the clause taken at the previous visit; every clause stays an alternative.
		if len(ready) > 1 && g.lastSelKey != 0 {
			if spinKey == 0 {
				spinKey = callerKey(site)
			}
			if spinKey == g.lastSelKey && ready[0] == g.lastSelCase {
				first := ready[0]
				for x := 1; x < len(ready); x++ {
					ready[x-1] = ready[x]
				}
				ready[len(ready)-1] = first
			}
		}
		k := 0
		if len(ready) > 1 && e.spent < e.opts.Bound {
			k = e.pick(len(ready), KSelect)
		}
		i := ready[k]
		s := sts[i]
		g.lastSelKey = 0
		if cs[i].isSend() {
			g.active()
			if !e.trySend(s, g, cs[i].sendVal()) {
				panic("verifrt: select send not ready")
			}
		} else {
			closedCase := s.closed && len(s.buf) == 0 && len(s.sendq) == 0
			v, ok, done := e.tryRecv(s, g)
			if !done {
				panic("verifrt: select receive not ready")
			}
			cs[i].set(v, ok)
			if closedCase {
				if !g.passiveOnly {
					g.spinSet = g.spinSet[:0]
				}
				g.passiveOnly = true
				if spinKey == 0 {
					spinKey = callerKey(site)
				}
				g.spinSet = push(g.spinSet, spinKey<<4|uint32(i))
				g.lastSelKey, g.lastSelCase = spinKey, i
			} else {
				g.active()
			}
		}
		g.hash = mix(g.hash, uint64(i))
		e.touchG(g)
		return i
	}
	if def {
		g.hash = mix2(g.hash, opSelect, 0xDEF)
		e.touchG(g)
		return -1
	}
	if stutter != 0 && g.spinCount < spinLimit {
		// Probation: the goroutine may be in a bounded loop (it is let through a limited number of
		// times) or spinning for ever. It continues at the lowest priority: only when no other
		// goroutine can run, so its iterations add no interleavings; other clauses that become
		// ready in the meantime are seen by the re-evaluation.
		g.spinCount++
		g.lowPrio = true
		yield()
		g.lowPrio = false
		probation = true
		goto retry
	}
	ss := &selState{}
	g.hash = mix(g.hash, opSelect+100)
	for i, c := range cs {
		s := sts[i]
		if s == nil || stutter&(1<<uint(i)) != 0 {
			continue
		}
		w := &waiter{g: g, sel: ss, caseIx: i}
		if c.isSend() {
			w.val, w.valH = c.sendVal(), mix(g.hash, uint64(i))
			raceReleaseMerge(unsafe.Pointer(&s.tokS))
			s.sendq = push(s.sendq, w)
		} else {
			raceReleaseMerge(unsafe.Pointer(&s.tokR))
			s.recvq = push(s.recvq, w)
		}
		ss.chans = push(ss.chans, s)
		e.touchChan(s)
	}
	what := "select"
	if stutter != 0 {
		g.spinBlocked = true
		what = "select (spinning on a closed channel)"
	}
	e.block(g, what)
	g.active()
	i := g.selIdx
	if cs[i].isSend() {
		if !g.ok {
			panic("send on closed channel")
		}
	} else {
		cs[i].set(g.val, g.ok)
		g.val = nil
	}
	g.hash = mix(g.hash, uint64(i))
	e.touchG(g)
	return i
}

// spinLimit is the number of times a goroutine is let through a select whose only ready clause
// is a receive from a closed channel that it has already taken, without any active operation in
// between, before it is declared spinning and treated as blocked.
const spinLimit = 12

// callerKey identifies a visit of a select statement by the statement and its two callers.
func callerKey(site int) uint32 {
	var pcs [3]uintptr
	n := runtime.Callers(3, pcs[:])
	h := H(site + 1)
	for i := 0; i < n; i++ {
		h = mix(h, uint64(pcs[i]))
	}
	k := uint32(h>>8) & 0x0fffffff
	if k == 0 {
		k = 1
	}
	return k
}
