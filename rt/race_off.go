//go:build !race

package verifrt

import "unsafe"

const RaceEnabled = false

func raceAcquire(p unsafe.Pointer)      {}
func raceRelease(p unsafe.Pointer)      {}
func raceReleaseMerge(p unsafe.Pointer) {}
func raceDisable()                      {}
func raceEnable()                       {}
func raceRead(p unsafe.Pointer)         {}
func raceWrite(p unsafe.Pointer)        {}
