//go:build go1.18

package sno

// VerifResetPartitions restores sno's process-wide partition counter to its initial value, so
// that executions of the explorer do not influence each other (and the pool of 65535 partitions
// is not exhausted after that many executions). Added to the sno package through the build
// overlay; the module cache is not modified.
func VerifResetPartitions() { partitions = ^uint32(0) }
