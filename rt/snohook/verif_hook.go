//go:build go1.18

package sno

// VerifResetPartitions restores sno's process-wide partition counter to its initial value, so
// that executions of the explorer do not influence each other (and the pool of 65535 partitions
// is not exhausted after that many executions). Added to the sno package through the build
// overlay; the module cache is not modified.
func VerifResetPartitions() { partitions = ^uint32(0) }

// VerifSkipPartitions advances the partition counter as the creation of n generators from
// defaults does (creation has no other process-wide effect: see genPartition), so that the
// state "n generators have been created and discarded" is reached without creating them.
func VerifSkipPartitions(n uint32) { partitions += n }
