package verifrt

import (
	"context"
	"sort"
	"time"
)

// Contexts and time. Cancellation closes the Done channel through the modelled channel
// operations, so it is a visible transition. Time is virtual: timers fire only when the harness
// advances the clock.

type ctxKey struct{}

type vctx struct {
	context.Context
	done     chan struct{}
	err      error
	children []*vctx
	parent   *vctx
	deadline time.Time
	hasDl    bool
	cause    error
}

func (c *vctx) Done() <-chan struct{} { return c.done }
func (c *vctx) Err() error            { return c.err }
func (c *vctx) Value(key any) any {
	if _, ok := key.(ctxKey); ok {
		return c
	}
	return c.Context.Value(key)
}
func (c *vctx) Deadline() (time.Time, bool) {
	if c.hasDl {
		return c.deadline, true
	}
	return c.Context.Deadline()
}

func (c *vctx) cancel(err error) {
	if c.err != nil {
		return
	}
	c.err = err
	Close(c.done)
	for _, ch := range c.children {
		ch.cancel(err)
	}
	c.children = nil
}

func newCtx(parent context.Context) *vctx {
	c := &vctx{Context: parent, done: make(chan struct{})}
	if p, ok := parent.Value(ctxKey{}).(*vctx); ok {
		if p.err != nil {
			c.err = p.err
			Close(c.done)
		} else {
			p.children = push(p.children, c)
			c.parent = p
		}
	} else if parent.Done() != nil {
		panic("verifrt: context derived from a cancellable context that was not created under the runtime")
	}
	return c
}

// WithCancel replaces context.WithCancel.
func WithCancel(parent context.Context) (context.Context, context.CancelFunc) {
	if !live() {
		return context.WithCancel(parent)
	}
	c := newCtx(parent)
	return c, func() { c.cancel(context.Canceled) }
}

// WithDeadline replaces context.WithDeadline (virtual time).
func WithDeadline(parent context.Context, d time.Time) (context.Context, context.CancelFunc) {
	if !live() {
		return context.WithDeadline(parent, d)
	}
	c := newCtx(parent)
	c.deadline, c.hasDl = d, true
	if c.err == nil {
		ex.addTimer(d.Sub(vbase).Nanoseconds(), func() { c.cancel(context.DeadlineExceeded) })
	}
	return c, func() { c.cancel(context.Canceled) }
}

// WithTimeout replaces context.WithTimeout (virtual time).
func WithTimeout(parent context.Context, d time.Duration) (context.Context, context.CancelFunc) {
	if !live() {
		return context.WithTimeout(parent, d)
	}
	return WithDeadline(parent, Now().Add(d))
}

// WithCancelCause replaces context.WithCancelCause.
func WithCancelCause(parent context.Context) (context.Context, context.CancelCauseFunc) {
	if !live() {
		return context.WithCancelCause(parent)
	}
	c := newCtx(parent)
	return c, func(cause error) {
		if c.err == nil && cause != nil {
			c.cause = cause
		}
		c.cancel(context.Canceled)
	}
}

// Cause replaces context.Cause.
func Cause(ctx context.Context) error {
	if c, ok := ctx.Value(ctxKey{}).(*vctx); ok {
		for x := c; x != nil; x = x.parent {
			if x.cause != nil {
				return x.cause
			}
		}
		return c.err
	}
	return context.Cause(ctx)
}

// withoutCancel hides the cancellable ancestors of a context.
type withoutCancel struct{ context.Context }

func (withoutCancel) Done() <-chan struct{}       { return nil }
func (withoutCancel) Err() error                  { return nil }
func (withoutCancel) Deadline() (time.Time, bool) { return time.Time{}, false }
func (w withoutCancel) Value(key any) any {
	if _, ok := key.(ctxKey); ok {
		return nil
	}
	return w.Context.Value(key)
}

// WithoutCancel replaces context.WithoutCancel.
func WithoutCancel(parent context.Context) context.Context {
	if !live() {
		return context.WithoutCancel(parent)
	}
	return withoutCancel{parent}
}

// ContextAfterFunc replaces context.AfterFunc: f runs in its own goroutine once ctx is done.
func ContextAfterFunc(ctx context.Context, f func()) (stop func() bool) {
	if !live() {
		return context.AfterFunc(ctx, f)
	}
	stopped := make(chan struct{})
	var once Once
	fired := false
	Go(func() {
		switch c0, c1 := R(ctx.Done()), R((<-chan struct{})(stopped)); Select(-77, false, c0, c1) {
		case 0:
			once.Do(func() { fired = true })
			if fired {
				f()
			}
		}
	})
	return func() bool {
		won := false
		once.Do(func() { won = true; Close(stopped) })
		return won
	}
}

// ---------- virtual time ----------

var vbase = time.Date(2024, 1, 1, 0, 0, 0, 0, time.UTC)

type vtimer struct {
	at   int64
	fire func()
	dead bool
	seq  int
}

func (e *Exec) addTimer(at int64, fire func()) *vtimer {
	t := &vtimer{at: at, fire: fire, seq: len(e.timers)}
	e.timers = push(e.timers, t)
	return t
}

// Now replaces time.Now: the virtual clock. Every call advances it by one nanosecond so that
// consecutive readings differ, as they practically always do on a real clock.
func Now() time.Time {
	if !live() {
		return time.Now()
	}
	if !ex.frozen {
		ex.vnow++
	}
	return vbase.Add(time.Duration(ex.vnow))
}

func Since(t time.Time) time.Duration { return Now().Sub(t) }
func Until(t time.Time) time.Duration { return t.Sub(Now()) }

// After replaces time.After.
func After(d time.Duration) <-chan time.Time {
	if !live() {
		return time.After(d)
	}
	ch := make(chan time.Time, 1)
	e := ex
	e.addTimer(e.vnow+d.Nanoseconds(), func() {
		S(ch).Send(vbase.Add(time.Duration(e.vnow)))
	})
	return ch
}

// Sleep replaces time.Sleep: blocks until the harness advances the virtual clock far enough.
func Sleep(d time.Duration) {
	if !live() {
		time.Sleep(d)
		return
	}
	if d <= 0 {
		// a zero sleep only makes sense in a retry loop that waits for the clock to move (sno's
		// regression branch): under the virtual clock that is a wait for the next advance
		d = 1
	}
	Recv(After(d))
}

// Timer replaces *time.Timer for the subset of its API used by instrumented code.
type Timer struct {
	C <-chan time.Time
	t *vtimer
	r *time.Timer
}

func NewTimer(d time.Duration) *Timer {
	if !live() {
		r := time.NewTimer(d)
		return &Timer{C: r.C, r: r}
	}
	ch := make(chan time.Time, 1)
	e := ex
	t := e.addTimer(e.vnow+d.Nanoseconds(), func() {
		S(ch).Send(vbase.Add(time.Duration(e.vnow)))
	})
	return &Timer{C: ch, t: t}
}

func (t *Timer) Stop() bool {
	if t.r != nil {
		return t.r.Stop()
	}
	was := !t.t.dead
	t.t.dead = true
	return was
}

// AfterFunc replaces time.AfterFunc.
func AfterFunc(d time.Duration, f func()) *Timer {
	if !live() {
		r := time.AfterFunc(d, f)
		return &Timer{r: r}
	}
	e := ex
	t := e.addTimer(e.vnow+d.Nanoseconds(), func() { Go(f) })
	return &Timer{t: t}
}

// Advance moves the virtual clock forward by d and fires every timer that became due, in due
// order. It is an environment action of the harness.
func Advance(d time.Duration) {
	e := ex
	g := yield()
	g.active()
	target := e.vnow + d.Nanoseconds()
	for {
		var due []*vtimer
		for _, t := range e.timers {
			if !t.dead && t.at <= target {
				due = push(due, t)
			}
		}
		if len(due) == 0 {
			break
		}
		sort.Slice(due, func(i, j int) bool {
			if due[i].at != due[j].at {
				return due[i].at < due[j].at
			}
			return due[i].seq < due[j].seq
		})
		t := due[0]
		t.dead = true
		if t.at > e.vnow {
			e.vnow = t.at
		}
		t.fire()
	}
	e.vnow = target
	g.hash = mix2(g.hash, opTime, uint64(d))
	e.touchG(g)
}

// PendingTimers reports how many virtual timers are armed.
func PendingTimers() int {
	n := 0
	for _, t := range ex.timers {
		if !t.dead {
			n++
		}
	}
	return n
}

// NewTicker replaces time.NewTicker. Tickers are not modelled: creating one inside an execution
// is a framework error (the only user is sno's sequence-overflow path, which the harnesses
// never reach).
func NewTicker(d time.Duration) *time.Ticker {
	if live() {
		panic("verifrt: time.NewTicker under the controlled runtime is not supported")
	}
	return time.NewTicker(d)
}

// SetClock moves the virtual clock to an absolute offset (nanoseconds since the base), also
// backwards: an environment answer used to explore clock regressions. Timers are not fired.
func SetClock(ns int64) {
	g := yield()
	g.active()
	ex.vnow = ns
	g.hash = mix2(g.hash, opTime, uint64(ns))
	ex.touchG(g)
}

// FreezeClock makes Now() stop advancing on its own (two consecutive readings are equal).
func FreezeClock(on bool) { ex.frozen = on }

// ClockNow returns the virtual clock offset.
func ClockNow() int64 { return ex.vnow }
