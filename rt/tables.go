package verifrt

import "unsafe"

// Open-addressing tables used instead of Go maps for state shared between the goroutines of an
// execution: in race mode the runtime's map code reports accesses on behalf of its caller, and
// the scheduler's hand-offs are hidden from the detector, so a Go map here would be reported as
// racing with itself.

type ptabEntry struct {
	k unsafe.Pointer
	v unsafe.Pointer
}

type ptab struct {
	e []ptabEntry
	n int
}

func hashPtr(p unsafe.Pointer) uint64 {
	x := uint64(uintptr(p))
	x ^= x >> 33
	x *= 0xff51afd7ed558ccd
	x ^= x >> 33
	return x
}

func (t *ptab) get(k unsafe.Pointer) unsafe.Pointer {
	if len(t.e) == 0 {
		return nil
	}
	mask := uint64(len(t.e) - 1)
	for i := hashPtr(k) & mask; ; i = (i + 1) & mask {
		if t.e[i].k == k {
			return t.e[i].v
		}
		if t.e[i].k == nil {
			return nil
		}
	}
}

func (t *ptab) put(k, v unsafe.Pointer) {
	if (t.n+1)*2 > len(t.e) {
		old := t.e
		size := 64
		if len(old) > 0 {
			size = len(old) * 2
		}
		t.e = make([]ptabEntry, size)
		t.n = 0
		for _, x := range old {
			if x.k != nil {
				t.put(x.k, x.v)
			}
		}
	}
	mask := uint64(len(t.e) - 1)
	for i := hashPtr(k) & mask; ; i = (i + 1) & mask {
		if t.e[i].k == nil {
			t.e[i] = ptabEntry{k, v}
			t.n++
			return
		}
		if t.e[i].k == k {
			t.e[i].v = v
			return
		}
	}
}

// hset maps a 64-bit state key to a small integer (the deviations spent on arrival).
type hset struct {
	keys []uint64
	vals []uint8
	used []bool
	n    int
}

func (s *hset) lookup(k uint64) (uint8, bool) {
	if len(s.keys) == 0 {
		return 0, false
	}
	mask := uint64(len(s.keys) - 1)
	for i := (k * 0x9E3779B97F4A7C15) >> 7 & mask; ; i = (i + 1) & mask {
		if !s.used[i] {
			return 0, false
		}
		if s.keys[i] == k {
			return s.vals[i], true
		}
	}
}

func (s *hset) store(k uint64, v uint8) {
	if (s.n+1)*2 > len(s.keys) {
		ok, ov, ou := s.keys, s.vals, s.used
		size := 1 << 12
		if len(ok) > 0 {
			size = len(ok) * 2
		}
		s.keys, s.vals, s.used, s.n = make([]uint64, size), make([]uint8, size), make([]bool, size), 0
		for i := range ok {
			if ou[i] {
				s.store(ok[i], ov[i])
			}
		}
	}
	mask := uint64(len(s.keys) - 1)
	for i := (k * 0x9E3779B97F4A7C15) >> 7 & mask; ; i = (i + 1) & mask {
		if !s.used[i] {
			s.keys[i], s.vals[i], s.used[i] = k, v, true
			s.n++
			return
		}
		if s.keys[i] == k {
			s.vals[i] = v
			return
		}
	}
}

// Slice helpers that do not go through runtime.growslice / runtime.slicecopy: those report
// their accesses to the race detector on behalf of the caller even though this package is
// compiled without race instrumentation.

func push[T any](s []T, x T) []T {
	if len(s) < cap(s) {
		s = s[:len(s)+1]
		s[len(s)-1] = x
		return s
	}
	n := make([]T, len(s)+1, 2*cap(s)+4)
	for i := range s {
		n[i] = s[i]
	}
	n[len(s)] = x
	return n
}

func removeIdx[T any](s []T, i int) []T {
	var zero T
	for j := i; j+1 < len(s); j++ {
		s[j] = s[j+1]
	}
	s[len(s)-1] = zero
	return s[:len(s)-1]
}

func pushFront[T any](s []T, x T) []T {
	var zero T
	s = push(s, zero)
	for j := len(s) - 1; j > 0; j-- {
		s[j] = s[j-1]
	}
	s[0] = x
	return s
}
