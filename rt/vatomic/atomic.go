// Package atomic (import path verifrt/vatomic) stands in for sync/atomic in instrumented code.
package atomic

import (
	"unsafe"

	"github.com/olive-io/bpmn/v2/verifrt"
)

type (
	Bool    = verifrt.AtomicBool
	Int32   = verifrt.AtomicInt32
	Int64   = verifrt.AtomicInt64
	Uint32  = verifrt.AtomicUint32
	Uint64  = verifrt.AtomicUint64
	Uintptr = verifrt.AtomicUintptr
	Value   = verifrt.AtomicValue
)

// Pointer is a thin generic shell around the runtime's untyped pointer atomic.
type Pointer[T any] struct {
	_ [0]*T
	p verifrt.AtomicPtr
}

func (x *Pointer[T]) Load() *T       { return (*T)(x.p.Load()) }
func (x *Pointer[T]) Store(val *T)   { x.p.Store(unsafe.Pointer(val)) }
func (x *Pointer[T]) Swap(new *T) *T { return (*T)(x.p.Swap(unsafe.Pointer(new))) }
func (x *Pointer[T]) CompareAndSwap(old, new *T) bool {
	return x.p.CompareAndSwap(unsafe.Pointer(old), unsafe.Pointer(new))
}

var (
	LoadInt32             = verifrt.LoadInt32
	StoreInt32            = verifrt.StoreInt32
	AddInt32              = verifrt.AddInt32
	SwapInt32             = verifrt.SwapInt32
	CompareAndSwapInt32   = verifrt.CompareAndSwapInt32
	LoadInt64             = verifrt.LoadInt64
	StoreInt64            = verifrt.StoreInt64
	AddInt64              = verifrt.AddInt64
	SwapInt64             = verifrt.SwapInt64
	CompareAndSwapInt64   = verifrt.CompareAndSwapInt64
	LoadUint32            = verifrt.LoadUint32
	StoreUint32           = verifrt.StoreUint32
	AddUint32             = verifrt.AddUint32
	SwapUint32            = verifrt.SwapUint32
	CompareAndSwapUint32  = verifrt.CompareAndSwapUint32
	LoadUint64            = verifrt.LoadUint64
	StoreUint64           = verifrt.StoreUint64
	AddUint64             = verifrt.AddUint64
	SwapUint64            = verifrt.SwapUint64
	CompareAndSwapUint64  = verifrt.CompareAndSwapUint64
	LoadUintptr           = verifrt.LoadUintptr
	StoreUintptr          = verifrt.StoreUintptr
	AddUintptr            = verifrt.AddUintptr
	SwapUintptr           = verifrt.SwapUintptr
	CompareAndSwapUintptr = verifrt.CompareAndSwapUintptr
	LoadPointer           = verifrt.LoadPointer
	StorePointer          = verifrt.StorePointer
	SwapPointer           = verifrt.SwapPointer
	CompareAndSwapPointer = verifrt.CompareAndSwapPointer
)
