// Package atomic (import path verifrt/vatomic) stands in for sync/atomic in instrumented code.
package atomic

import "github.com/olive-io/bpmn/v2/verifrt"

type (
	Bool   = verifrt.AtomicBool
	Int32  = verifrt.AtomicInt32
	Int64  = verifrt.AtomicInt64
	Uint32 = verifrt.AtomicUint32
	Uint64 = verifrt.AtomicUint64
)

var (
	LoadInt32            = verifrt.LoadInt32
	StoreInt32           = verifrt.StoreInt32
	AddInt32             = verifrt.AddInt32
	SwapInt32            = verifrt.SwapInt32
	CompareAndSwapInt32  = verifrt.CompareAndSwapInt32
	LoadInt64            = verifrt.LoadInt64
	StoreInt64           = verifrt.StoreInt64
	AddInt64             = verifrt.AddInt64
	CompareAndSwapInt64  = verifrt.CompareAndSwapInt64
	LoadUint32           = verifrt.LoadUint32
	StoreUint32          = verifrt.StoreUint32
	AddUint32            = verifrt.AddUint32
	CompareAndSwapUint32 = verifrt.CompareAndSwapUint32
	LoadUint64           = verifrt.LoadUint64
	StoreUint64          = verifrt.StoreUint64
	AddUint64            = verifrt.AddUint64
	CompareAndSwapUint64 = verifrt.CompareAndSwapUint64
)
