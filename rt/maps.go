package verifrt

import (
	"fmt"
	"sort"
)

// MapKeys returns the keys of m in a canonical order, so that map iteration in instrumented
// code is deterministic (Go's order is unspecified).
func MapKeys[M ~map[K]V, K comparable, V any](m M) []K {
	keys := make([]K, 0, len(m))
	for k := range m {
		keys = append(keys, k)
	}
	if len(keys) < 2 {
		return keys
	}
	switch ks := any(keys).(type) {
	case []string:
		sort.Strings(ks)
		return keys
	case []int:
		sort.Ints(ks)
		return keys
	}
	strs := make([]string, len(keys))
	for i, k := range keys {
		strs[i] = fmt.Sprint(any(k))
	}
	idx := make([]int, len(keys))
	for i := range idx {
		idx[i] = i
	}
	sort.SliceStable(idx, func(a, b int) bool { return strs[idx[a]] < strs[idx[b]] })
	out := make([]K, len(keys))
	for i, j := range idx {
		out[i] = keys[j]
	}
	return out
}
