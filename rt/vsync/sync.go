// Package sync (import path verifrt/vsync) stands in for the standard library's sync in
// instrumented code.
package sync

import (
	rsync "sync"

	"github.com/olive-io/bpmn/v2/verifrt"
)

type (
	Mutex     = verifrt.Mutex
	RWMutex   = verifrt.RWMutex
	WaitGroup = verifrt.WaitGroup
	Once      = verifrt.Once
	Cond      = verifrt.Cond
	Locker    = rsync.Locker
	// Map and Pool are the real ones: they never block, and their internal synchronisation
	// is executed atomically between two scheduling points
	Map  = rsync.Map
	Pool = rsync.Pool
)

var NewCond = verifrt.NewCond

// OnceFunc, OnceValue and OnceValues are built on the modelled Once.
func OnceFunc(f func()) func() {
	var once Once
	return func() { once.Do(f) }
}

func OnceValue[T any](f func() T) func() T {
	var once Once
	var v T
	return func() T {
		once.Do(func() { v = f() })
		return v
	}
}

func OnceValues[T1, T2 any](f func() (T1, T2)) func() (T1, T2) {
	var once Once
	var v1 T1
	var v2 T2
	return func() (T1, T2) {
		once.Do(func() { v1, v2 = f() })
		return v1, v2
	}
}
