// Package sync (import path verifrt/vsync) stands in for the standard library's sync in
// instrumented code.
package sync

import (
	rsync "sync"

	"github.com/olive-io/bpmn/v2/verifrt"
)

type (
	Mutex     = verifrt.Mutex
	RWMutex   = verifrt.RWMutex
	WaitGroup = verifrt.WaitGroup
	Once      = verifrt.Once
	Locker    = rsync.Locker
	Map       = rsync.Map
	Pool      = rsync.Pool
)
