// Package sync (import path verifrt/vsync) stands in for the standard library's sync in
// instrumented code.
package sync

import (
	rsync "sync"

	"github.com/olive-io/bpmn/v2/verifrt"
)

type (
	Mutex     = verifrt.Mutex
	RWMutex   = verifrt.RWMutex
	WaitGroup = verifrt.WaitGroup
	Once      = verifrt.Once
	Locker    = rsync.Locker
	Map       = rsync.Map
	Pool      = rsync.Pool
	// Cond is not modelled: it is aliased so that code mentioning it compiles; waiting on one
	// inside an execution blocks the run token and trips the watchdog (framework error).
	Cond = rsync.Cond
)

var NewCond = rsync.NewCond
