// Package verifrt is the controlled runtime the instrumented engine runs on.
//
// Every synchronisation operation of instrumented code (channel send/receive/close, select,
// go, sync.*, sync/atomic.*, context cancellation, timers) enters this package. Exactly one
// goroutine of an execution holds the run token; at every operation it publishes what it is
// about to do and lets the explorer decide who runs next. Operations themselves are performed
// with the Go runtime's own algorithms, re-implemented over side tables (see chan.go), so that
// the runtime always knows whether a goroutine is runnable.
//
// Outside an execution (package init, explorer code) every entry point is a pass-through to the
// real operation.
package verifrt

import (
	"fmt"
	"os"
	"runtime"
	"sort"
	"strings"
	"sync"
	"time"
	"unsafe"
)

// H is a 64-bit state hash.
type H uint64

func mix(a H, b uint64) H {
	x := (uint64(a) ^ b) * 0x9E3779B97F4A7C15
	x ^= x >> 29
	x *= 0xBF58476D1CE4E5B9
	x ^= x >> 32
	return H(x)
}

func mix2(a H, b, c uint64) H    { return mix(mix(a, b), c) }
func mix3(a H, b, c, d uint64) H { return mix(mix(mix(a, b), c), d) }

func hashString(s string) uint64 {
	h := uint64(14695981039346656037)
	for i := 0; i < len(s); i++ {
		h ^= uint64(s[i])
		h *= 1099511628211
	}
	return h
}

const (
	stRunning  = iota // holds the token
	stRunnable        // in runq: parked at a yield, just woken, or just created
	stBlocked         // in some wait queue
	stDone
)

// operation kinds (for hashing and reports)
const (
	opStart = iota + 1
	opGo
	opSend
	opRecv
	opClose
	opSelect
	opLock
	opUnlock
	opRLock
	opRUnlock
	opWgAdd
	opWgWait
	opOnce
	opOnceDone
	opAtomic
	opChoose
	opIdle
	opCancel
	opTime
	opYield
	opCond
)

// G is one goroutine of an execution.
type G struct {
	id       int
	hash     H
	wake     chan struct{}
	state    int
	waitIdle bool
	contrib  H // current contribution to the state sum

	// wake-up payload
	val    any
	valH   H
	ok     bool
	selIdx int

	site      string
	blockedOn string
	blockPCs  [8]uintptr
	blockN    int

	// spin detection (see Select)
	spinSite    int
	spinSet     []uint32 // (select site, closed case) pairs taken since the last active operation
	passiveOnly bool
	spinBlocked bool
	spinCount   int    // visits on probation since the last active operation
	lowPrio     bool   // on probation: runs only when nothing else can
	starved     bool   // Options.Starve names this goroutine: it runs only when no other goroutine can ...
	sleeping    bool   // put to sleep by a deviation: runs again only when no other goroutine can (or after StarveSteps)
	queuedAt    int    // step at which it was last put into the run queue (RunNext ageing)
	lastRun     int    // ... unless it has not run for Options.StarveSteps steps (step of its last operation)
	lastSelKey  uint32 // visit key and clause of the last select that took a receive from a closed channel
	lastSelCase int

	nmake int
	isEnv bool // goroutine belongs to the harness (site outside the repository)

	raceTok byte          // race mode: carries the happens-before edge waker -> wakee
	exited  chan struct{} // closed when the real goroutine has finished
}

// Point is one recorded decision.
type Point struct {
	N      int // number of alternatives
	Chosen int
	Kind   int // 0 schedule, 1 select readiness, 2 environment choice, 3 map order
}

const (
	KSched = iota
	KSelect
	KChoose
	KMap
)

// Outcome is what one execution produced.
type Outcome struct {
	Deadlock bool     // ended because no goroutine was runnable while main had not returned
	Blocked  []string // description of blocked goroutines at the end
	Spinners []string // goroutines that at the end were spinning on a permanently ready select case
	Live     []string // creation sites of goroutines alive (not finished) at the end, main excluded
	Panic    string   // panic value + stack, if any goroutine panicked
	Log      []string
	Points   []Point
	Steps    int
	Gs       int // goroutines created in the execution (main included)
	Pruned   bool
	Aborted  string   // framework-level abort reason (step cap)
	Fails    []string // violations recorded in-execution by the harness (Fail)
	FinalKey uint64   // state key at the end of the execution
	Trace    []string // operation trace (only when Options.Trace)
}

// Exec is one controlled execution.
type Exec struct {
	ptrWrites uint64 // writes to pointer-valued atomics (their values enter hashes as versions)
	gs        []*G
	cur       *G
	runq      []*G
	chans     ptab // real channel address -> *chanState
	chanList  []*chanState
	objs      []*obj
	sum       H // commutative sum of all entity contributions
	epoch     uint64

	prefix []int
	points []Point
	spent  int
	opts   *Options

	done     chan struct{}
	kill     chan struct{}
	exiting  bool
	finished bool
	wg       sync.WaitGroup

	out   Outcome
	steps int
	cache *Cache

	atoms    ptab  // address -> *atomObj
	vnow     int64 // virtual nanoseconds since vbase
	timers   []*vtimer
	nchoose  int
	frozen   bool // the virtual clock does not advance on its own
	idleTok  byte // race mode: harness goroutines -> WaitIdle
	tearTok  byte // race mode: orders the sequential teardown
	lastKey  H
	haveLast bool
}

var (
	ex       *Exec
	epochCtr uint64
)

// Active reports whether an execution is in progress (used by the sync/atomic shims).
func Active() bool { return ex != nil && !ex.exiting }

// Exiting reports whether the current execution is being torn down.
func Exiting() bool { return ex != nil && ex.exiting }

// Epoch identifies the current execution; sync shims reset their model state when it changes.
func Epoch() uint64 {
	if !live() {
		return 0
	}
	return ex.epoch
}

type killed struct{}

func (e *Exec) newG(parent *G, site string) *G {
	g := &G{id: len(e.gs), wake: make(chan struct{}, 1), site: site, spinSite: -1, exited: make(chan struct{})}
	if parent != nil {
		g.hash = mix2(parent.hash, opStart, hashString(site))
	} else {
		g.hash = 0x1234567
	}
	g.isEnv = !strings.Contains(site, "@repo")
	g.starved = e.opts.Starve > 0 && g.id == e.opts.Starve
	e.gs = push(e.gs, g)
	return g
}

// ---- state sum ----

func (e *Exec) touchG(g *G) {
	var c H
	if g.state != stDone {
		st := uint64(g.state)
		if g.state == stRunning {
			st = stRunnable
		}
		c = mix2(g.hash, st, 0x67)
		if g.waitIdle {
			c = mix(c, 0x77)
		}
		if g.sleeping {
			c = mix(c, 0x79)
		}
	}
	e.sum += c - g.contrib
	g.contrib = c
}

func (e *Exec) park(g *G) {
	// the scheduler's hand-off is not a synchronisation of the program: hidden from the detector
	raceDisable()
	select {
	case <-g.wake:
	case <-e.kill:
		raceEnable()
		runtime.Goexit()
	}
	raceEnable()
	if e.exiting {
		raceAcquire(unsafe.Pointer(&e.tearTok))
		runtime.Goexit()
	}
}

// pass hands the run token to g.
func (e *Exec) pass(g *G) {
	raceDisable()
	g.wake <- struct{}{}
	raceEnable()
}

func (e *Exec) finish(deadlock bool) {
	if e.finished {
		return
	}
	e.finished = true
	e.out.Deadlock = deadlock
	e.out.FinalKey = uint64(e.sum)
	for _, g := range e.gs {
		if g.state == stDone || g.id == 0 {
			continue
		}
		e.out.Live = push(e.out.Live, g.site)
		if g.spinBlocked {
			e.out.Spinners = push(e.out.Spinners, g.describe())
		}
	}
	if deadlock {
		for _, g := range e.gs {
			if g.state == stBlocked {
				e.out.Blocked = push(e.out.Blocked, g.describe())
			}
		}
	}
	close(e.done)
}

func (g *G) describe() string {
	where := ""
	if g.blockN > 0 {
		fs := runtime.CallersFrames(g.blockPCs[:g.blockN])
		for {
			f, more := fs.Next()
			if !strings.Contains(f.Function, "/verifrt.") && !strings.Contains(f.Function, "/verifrt/") {
				where = fmt.Sprintf(" at %s:%d", shortFile(f.File), f.Line)
				break
			}
			if !more {
				break
			}
		}
	}
	return fmt.Sprintf("g%d[%s] %s%s", g.id, g.site, g.blockedOn, where)
}

func shortFile(f string) string {
	if i := strings.LastIndex(f, "/"); i >= 0 {
		if j := strings.LastIndex(f[:i], "/"); j >= 0 {
			return f[j+1:]
		}
	}
	return f
}

// stateKey is the cache key of the current global state.
func (e *Exec) stateKey() H {
	k := mix(e.sum, uint64(e.vnow))
	if e.opts.Unbounded {
		return k
	}
	// under delay bounding the default schedule depends on who runs and on the queue order
	k = mix(k, uint64(e.cur.hash))
	for _, g := range e.runq {
		k = mix(k, uint64(g.hash))
	}
	return k
}

type divergence struct{ msg string }

// pick records a decision among n alternatives (0 = default).
func (e *Exec) pick(n int, kind int) int {
	idx := 0
	pos := len(e.points)
	if pos < len(e.prefix) {
		idx = e.prefix[pos]
		if idx >= n {
			panic(divergence{fmt.Sprintf("replay divergence at point %d: want alternative %d of %d (kind %d)", pos, idx, n, kind)})
		}
	}
	if idx != 0 && kind != KChoose {
		e.spent++
	}
	e.points = push(e.points, Point{N: n, Chosen: idx, Kind: kind})
	return idx
}

// starving tells whether g is the starved goroutine and still within its starvation window:
// a real scheduler delays a goroutine arbitrarily but not for ever, and code that re-posts or
// polls until another goroutine has moved (the gateways' "reschedule" of an early probe report)
// would never terminate under unbounded starvation.
func (e *Exec) starving(g *G) bool {
	return (g.starved || g.sleeping) && e.steps-g.lastRun < e.opts.StarveSteps
}

// candidates returns the runnable goroutines in canonical order: the current one first (if it
// is the one yielding), then the run queue. Goroutines waiting for idleness are candidates only
// when nothing else is.
func (e *Exec) candidates(cur *G) []*G {
	cands := make([]*G, 0, len(e.runq)+1)
	if cur != nil && !cur.waitIdle && !cur.lowPrio && !e.starving(cur) {
		cands = push(cands, cur)
	}
	for _, g := range e.runq {
		if !g.waitIdle && !g.lowPrio && !e.starving(g) {
			cands = push(cands, g)
		}
	}
	// the starved goroutine (Options.Starve) comes last: by default it runs only when every other
	// goroutine is blocked, but a deviation may pick it for one operation
	if cur != nil && e.starving(cur) && !cur.waitIdle && !cur.lowPrio {
		cands = push(cands, cur)
	}
	for _, g := range e.runq {
		if e.starving(g) && !g.waitIdle && !g.lowPrio {
			cands = push(cands, g)
		}
	}
	if len(cands) == 0 {
		// goroutines on spin probation: one at a time, no choice among them
		if cur != nil && cur.lowPrio {
			return push(cands, cur)
		}
		for _, g := range e.runq {
			if g.lowPrio {
				return push(cands, g)
			}
		}
		if cur != nil && cur.waitIdle {
			return push(cands, cur)
		}
		for _, g := range e.runq {
			if g.waitIdle {
				return push(cands, g)
			}
		}
	}
	return cands
}

func (e *Exec) removeRunq(g *G) {
	for i, x := range e.runq {
		if x == g {
			e.runq = removeIdx(e.runq, i)
			return
		}
	}
}

func (e *Exec) checkExit() {
	if e.exiting {
		runtime.Goexit()
	}
}

// yield is the scheduling point before an operation of the current goroutine.
func yield() *G {
	e := ex
	if e.exiting {
		runtime.Goexit()
	}
	g := e.cur
	e.steps++
	g.lastRun = e.steps
	if g.sleeping {
		// it is running again: the sleep a deviation imposed on it is over
		g.sleeping = false
		e.touchG(g)
	}
	if e.opts.Trace {
		e.traceOp(g)
	}
	if e.steps > e.opts.MaxSteps {
		e.out.Aborted = fmt.Sprintf("step cap %d reached", e.opts.MaxSteps)
		e.finish(false)
		e.park(g)
	}
	if len(e.runq) == 0 {
		if g.waitIdle {
			g.waitIdle = false
			e.touchG(g)
		}
		return g
	}
	sameState := false
	if e.cache != nil {
		k := e.stateKey()
		// A goroutine that was just created or woken reaches its first yield without having
		// changed anything: that is the state of the previous decision (also when that decision
		// was the last one of the replayed prefix), not a revisit.
		if e.haveLast && k == e.lastKey {
			// same state as at the previous decision: its alternatives were offered there, and
			// "run this goroutine up to its first operation, then switch" is the same as
			// switching at once - no new decision point
			sameState = true
		} else {
			e.lastKey, e.haveLast = k, true
			if len(e.points) >= len(e.prefix) && !e.cache.visit(k, e.spent, e.opts.Unbounded) {
				e.out.Pruned = true
				e.finish(false)
				e.park(g)
			}
		}
	}
	cands := e.candidates(g)
	idx := 0
	if len(cands) > 1 && !(sameState && e.opts.Unbounded && !g.waitIdle) {
		if e.spent < e.opts.Bound {
			n := len(cands)
			// one more alternative when the current goroutine could go on: it is put to sleep
			// until no other goroutine can run (a long delay at this very point, which no small
			// number of single-step postponements amounts to)
			sleepAlt := !e.opts.Unbounded && !e.opts.NoSleep && cands[0] == g && !g.waitIdle
			if sleepAlt {
				n++
			}
			idx = e.pick(n, KSched)
			if sleepAlt && idx == n-1 {
				g.sleeping = true
				e.touchG(g)
				idx = 1
			}
		}
	}
	next := cands[idx]
	if next == g {
		if g.waitIdle {
			g.waitIdle = false
			e.touchG(g)
		}
		return g
	}
	// preempted: g goes to the front of the queue so that it resumes when next blocks
	e.removeRunq(next)
	g.state = stRunnable
	e.runq = pushFront(e.runq, g)
	next.state = stRunning
	if next.waitIdle {
		next.waitIdle = false
		e.touchG(next)
	}
	e.cur = next
	e.pass(next)
	e.park(g)
	return g
}

func (e *Exec) traceOp(g *G) {
	var pcs [8]uintptr
	n := runtime.Callers(3, pcs[:])
	fs := runtime.CallersFrames(pcs[:n])
	op, where := "", ""
	for {
		f, more := fs.Next()
		if strings.Contains(f.Function, "/verifrt.") || strings.Contains(f.Function, "/verifrt/") {
			op = f.Function[strings.LastIndex(f.Function, "verifrt")+8:]
		} else {
			where = fmt.Sprintf("%s:%d", shortFile(f.File), f.Line)
			break
		}
		if !more {
			break
		}
	}
	if len(e.out.Trace) < 100000 {
		e.out.Trace = push(e.out.Trace, fmt.Sprintf("g%d[%s] %s @%s", g.id, g.site, op, where))
	}
}

// leave is called when the current goroutine blocks or exits: hand the token to the next one.
func (e *Exec) leave() {
	cands := e.candidates(nil)
	if len(cands) == 0 {
		e.finish(true)
		return
	}
	idx := 0
	if len(cands) > 1 {
		if e.spent < e.opts.Bound {
			idx = e.pick(len(cands), KSched)
		}
	}
	next := cands[idx]
	e.removeRunq(next)
	next.state = stRunning
	if next.waitIdle {
		next.waitIdle = false
		e.touchG(next)
	}
	e.cur = next
	e.pass(next)
}

// block parks the current goroutine in a wait queue (already enqueued by the caller).
func (e *Exec) block(g *G, what string) {
	g.state = stBlocked
	g.blockedOn = what
	g.blockN = runtime.Callers(3, g.blockPCs[:])
	e.touchG(g)
	if g.isEnv {
		raceReleaseMerge(unsafe.Pointer(&e.idleTok))
	}
	e.leave()
	e.park(g)
	raceAcquire(unsafe.Pointer(&g.raceTok))
	g.state = stRunning
	g.blockedOn = ""
	g.blockN = 0
	g.spinBlocked = false
}

// ready makes a blocked goroutine runnable.
func (e *Exec) ready(g *G) {
	raceReleaseMerge(unsafe.Pointer(&g.raceTok)) // the waker's operation happens before the wakee resumes
	g.state = stRunnable
	g.queuedAt = e.steps
	if e.opts.RunNext && !e.queueAged() {
		// Go's own habit: a goroutine that has just been readied (woken or created) runs next
		e.runq = pushFront(e.runq, g)
	} else {
		e.runq = push(e.runq, g)
	}
	e.touchG(g)
}

// queueAged tells whether some goroutine has been waiting in the run queue for more than
// StarveSteps steps: then newly readied goroutines queue up behind it (FIFO) until it has run.
// Like Go's runnext, which inherits a time slice and is not honoured for ever, this keeps the
// "readied goroutine runs next" policy from starving a goroutine that others re-post or poll for.
func (e *Exec) queueAged() bool {
	for _, q := range e.runq {
		if e.steps-q.queuedAt > e.opts.StarveSteps {
			return true
		}
	}
	return false
}

// active marks a non-passive operation of g (for spin detection).
func (g *G) active() { g.passiveOnly = false; g.spinCount = 0 }

func (g *G) inSpinSet(key uint32, c int) bool {
	k := key<<4 | uint32(c)
	for _, x := range g.spinSet {
		if x == k {
			return true
		}
	}
	return false
}

// ---------- goroutines ----------

func callerSite(skip int) string {
	var pcs [1]uintptr
	if runtime.Callers(skip+1, pcs[:]) == 0 {
		return "?"
	}
	fs := runtime.CallersFrames(pcs[:])
	f, _ := fs.Next()
	tag := ""
	if strings.Contains(f.File, "/repo/") || strings.Contains(f.Function, "olive-io/bpmn") {
		tag = "@repo"
	}
	return fmt.Sprintf("%s:%d%s", shortFile(f.File), f.Line, tag)
}

// Go starts f as a new goroutine of the execution.
func Go(f func()) {
	if !live() {
		go f()
		return
	}
	me := yield()
	me.active()
	e := ex
	g := e.newG(me, callerSite(2))
	me.hash = mix(me.hash, opGo)
	e.touchG(me)
	e.wg.Add(1)
	go func() {
		defer e.wg.Done()
		defer close(g.exited)
		defer func() {
			if e.exiting {
				recover()
				raceReleaseMerge(unsafe.Pointer(&e.tearTok))
				return
			}
			if r := recover(); r != nil {
				if d, ok := r.(divergence); ok {
					e.out.Aborted = d.msg
				} else {
					e.out.Panic = fmt.Sprintf("%v\n%s", r, stack())
				}
				g.state = stDone
				e.touchG(g)
				e.finish(false)
				return
			}
			g.state = stDone
			e.touchG(g)
			if g.isEnv {
				raceReleaseMerge(unsafe.Pointer(&e.idleTok))
			}
			e.leave()
		}()
		e.park(g)
		raceAcquire(unsafe.Pointer(&g.raceTok))
		g.state = stRunning
		f()
	}()
	e.ready(g)
}

func stack() string {
	buf := make([]byte, 16<<10)
	n := runtime.Stack(buf, false)
	return string(buf[:n])
}

// ---------- harness primitives ----------

// Choose is an environment choice among n alternatives; all are explored, none costs budget.
func Choose(n int) int {
	if !live() {
		return 0
	}
	g := yield()
	g.active()
	r := 0
	if n > 1 {
		r = ex.pick(n, KChoose)
	}
	ex.nchoose++
	g.hash = mix2(g.hash, opChoose, uint64(r))
	ex.touchG(g)
	return r
}

// WaitIdle returns when no other goroutine is runnable (quiescence).
func WaitIdle() {
	if !live() {
		return
	}
	e := ex
	g := e.cur
	g.active()
	g.waitIdle = true
	e.touchG(g)
	yield()
	raceAcquire(unsafe.Pointer(&e.idleTok)) // what the harness's own goroutines did before they blocked
	// the caller now "observes" the whole state
	g.hash = mix2(g.hash, opIdle, uint64(e.sum))
	e.touchG(g)
}

// Yield is a plain scheduling point (for harness polling loops).
func Yield() {
	if !live() {
		runtime.Gosched()
		return
	}
	yield()
}

// Log appends an observation to the execution's log.
func Log(format string, a ...any) {
	if !live() {
		return
	}
	if len(a) == 0 {
		ex.out.Log = push(ex.out.Log, format)
		return
	}
	ex.out.Log = push(ex.out.Log, fmt.Sprintf(format, a...))
}

// Fail records a violation found by the harness inside the execution. Oracles evaluated here
// are functions of the harness goroutine's local state and are therefore compatible with state
// caching (a pruned execution would have computed the same verdicts as the one that first
// reached the state).
func Fail(format string, a ...any) {
	if !live() {
		return
	}
	ex.out.Fails = push(ex.out.Fails, fmt.Sprintf(format, a...))
}

// NFails returns the number of violations recorded so far in this execution.
func NFails() int {
	if ex == nil {
		return 0
	}
	return len(ex.out.Fails)
}

// LiveRepoGoroutines returns descriptions of live goroutines created by repository code.
func LiveRepoGoroutines() []string {
	var out []string
	if !live() {
		return out
	}
	for _, g := range ex.gs {
		if g.state != stDone && !g.isEnv {
			s := g.describe()
			if g.spinBlocked {
				s += " [spinning]"
			}
			out = push(out, s)
		}
	}
	sort.Strings(out)
	return out
}

// LiveEnvGoroutines returns descriptions of live goroutines created by harness code (other than
// the caller), with the operation each is blocked in.
func LiveEnvGoroutines() []string {
	var out []string
	if !live() {
		return out
	}
	for _, g := range ex.gs {
		if g.state != stDone && g.isEnv && g != ex.cur {
			out = push(out, g.describe())
		}
	}
	sort.Strings(out)
	return out
}

// LiveSpinners returns goroutines currently spinning on a permanently ready select case.
func LiveSpinners() []string {
	var out []string
	if !live() {
		return out
	}
	for _, g := range ex.gs {
		if g.state != stDone && g.spinBlocked {
			out = push(out, g.describe())
		}
	}
	return out
}

// ---------- running one execution ----------

// Options configure exploration.
type Options struct {
	Bound     int  // maximal number of deviations (non-default schedule / select choices)
	Unbounded bool // explore all schedules (state cache required to terminate in reasonable time)
	UseCache  bool
	MaxSteps  int // per-execution step cap (default 200000)
	MaxExecs  int // 0 = no cap
	Deadline  time.Time
	Trace     bool // record an operation trace in the outcome (replay only)
	// Starve > 0: the goroutine created as number Starve in the execution (creation order is
	// deterministic) has the lowest priority for its whole life: it runs only while every other
	// goroutine is blocked (or after StarveSteps steps without running). A second family of base schedules next to the FIFO default: a
	// deviation budget of d around it reaches executions in which one goroutine is delayed
	// arbitrarily long, which a small delay bound around FIFO cannot reach.
	// RunNext selects the third family of base schedules: a goroutine that becomes runnable
	// (woken by a channel operation, an unlock, ... or just created) goes to the *front* of the
	// run queue, as the Go scheduler's runnext slot does, instead of to the back (FIFO).
	RunNext bool
	// NoSleep switches the "sleep until the others are idle" deviation off.
	NoSleep bool
	Starve  int
	// StarveSteps bounds one starvation window (default 400 scheduling steps): after that many
	// steps without running, the starved goroutine is scheduled like any other until its next
	// operation, then starved again (a real scheduler delays a goroutine arbitrarily, not for ever).
	StarveSteps int
	SplitK      int // intra-scenario sharding: number of jobs the first-level subtrees are dealt to
	SplitIdx    int
	// AfterRun is called after every complete execution; the strings it returns are recorded as
	// violations of that execution (used by race mode to attribute detector reports).
	AfterRun func(o *Outcome) []string
}

func run(prefix []int, opts *Options, cache *Cache, body func()) *Outcome {
	epochCtr++
	e := &Exec{prefix: prefix, opts: opts, done: make(chan struct{}),
		kill: make(chan struct{}), cache: cache, epoch: epochCtr}
	ex = e
	g0 := e.newG(nil, "main")
	g0.isEnv = true
	e.cur = g0
	g0.state = stRunning
	e.touchG(g0)
	e.wg.Add(1)
	go func() {
		defer e.wg.Done()
		defer close(g0.exited)
		defer func() {
			if e.exiting {
				recover()
				raceReleaseMerge(unsafe.Pointer(&e.tearTok))
				return
			}
			if r := recover(); r != nil {
				if d, ok := r.(divergence); ok {
					e.out.Aborted = d.msg
				} else {
					e.out.Panic = fmt.Sprintf("%v\n%s", r, stack())
				}
			}
			g0.state = stDone
			raceReleaseMerge(unsafe.Pointer(&e.tearTok))
			e.finish(false)
		}()
		body()
	}()
	select {
	case <-e.done:
	case <-time.After(60 * time.Second):
		buf := make([]byte, 1<<20)
		n := runtime.Stack(buf, true)
		fmt.Fprintf(os.Stderr, "verifrt watchdog: execution did not finish in 60s (a goroutine blocked outside the runtime?)\nprefix=%v\n%s\n", prefix, buf[:n])
		os.Exit(2)
	}
	e.exiting = true
	if RaceEnabled {
		// tear the goroutines down one at a time, each ordered after the previous one, so that
		// their deferred calls are not reported as racing with each other
		raceAcquire(unsafe.Pointer(&e.tearTok))
		for i := 0; i < len(e.gs); i++ {
			g := e.gs[i]
			select {
			case <-g.exited:
				continue
			default:
			}
			raceRelease(unsafe.Pointer(&e.tearTok))
			select {
			case g.wake <- struct{}{}:
			default:
			}
			<-g.exited
			raceAcquire(unsafe.Pointer(&e.tearTok))
		}
	}
	close(e.kill)
	e.wg.Wait()
	ex = nil
	e.out.Points = e.points
	e.out.Steps = e.steps
	e.out.Gs = len(e.gs)
	return &e.out
}

// live reports whether an execution is in progress; a goroutine of an execution that is being
// torn down (it is running its deferred calls after Goexit) ends here, before touching any
// runtime state.
func live() bool {
	if ex == nil {
		return false
	}
	if ex.exiting {
		runtime.Goexit()
	}
	return true
}

// DebugChannels describes every channel that has waiters or buffered elements (debugging aid for
// failure messages: who is blocked on what).
func DebugChannels() []string {
	var out []string
	if !live() {
		return out
	}
	for _, en := range ex.chans.e {
		if en.k == nil {
			continue
		}
		c := (*chanState)(en.v)
		if len(c.buf) == 0 && len(c.recvq) == 0 && len(c.sendq) == 0 {
			continue
		}
		s := fmt.Sprintf("chan %x cap=%d buf=%d closed=%v", uintptr(en.k)&0xffffff, c.cap, len(c.buf), c.closed)
		for _, w := range c.recvq {
			s += fmt.Sprintf(" recv:g%d", w.g.id)
		}
		for _, w := range c.sendq {
			s += fmt.Sprintf(" send:g%d", w.g.id)
		}
		out = push(out, s)
	}
	sort.Strings(out)
	return out
}
