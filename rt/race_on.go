//go:build race

package verifrt

import (
	"runtime"
	"unsafe"
)

// Race mode (DESIGN.md §2.5): the binary is built with -race, this package itself is compiled
// without race instrumentation (-gcflags verifrt=-race=false), the scheduler's own hand-offs are
// hidden from the detector, and every modelled operation is annotated with exactly the
// happens-before edges the Go memory model gives it. The detector then reports an access pair
// that is unordered by the program's own synchronisation in the explored schedule.

const RaceEnabled = true

func raceAcquire(p unsafe.Pointer)      { runtime.RaceAcquire(p) }
func raceRelease(p unsafe.Pointer)      { runtime.RaceRelease(p) }
func raceReleaseMerge(p unsafe.Pointer) { runtime.RaceReleaseMerge(p) }
func raceDisable()                      { runtime.RaceDisable() }
func raceEnable()                       { runtime.RaceEnable() }
func raceRead(p unsafe.Pointer)         { runtime.RaceRead(p) }
func raceWrite(p unsafe.Pointer)        { runtime.RaceWrite(p) }
