// Command instr rewrites Go packages so that every synchronisation operation goes through the
// controlled runtime (package verifrt), and emits the rewritten files together with an overlay
// JSON for `go build -overlay`. The repository is never written.
//
// usage: instr -out DIR [-rt /verif/rt] [-repo /repo] pattern...
//
// Rewrites (type-directed, see DESIGN.md §2.1):
//
//	go f(a)            ->  { __f, __a0 := f, a; verifrt.Go(func() { __f(__a0) }) }
//	ch <- v            ->  verifrt.S(ch).Send(v)
//	<-ch               ->  verifrt.Recv(ch)            (v, ok := <-ch  ->  verifrt.Recv2(ch))
//	close(ch)          ->  verifrt.Close(ch)
//	select {...}       ->  switch __c0, __c1 := verifrt.R(a), verifrt.S(b).Case(v); verifrt.Select(site, def, __c0, __c1) {...}
//	for v := range ch  ->  for { v, ok := verifrt.Recv2(ch); if !ok { break }; ... }
//	for k, v := range m (map) -> iteration over verifrt.MapKeys(m) (canonical order)
//	import "sync", "sync/atomic" -> verifrt/vsync, verifrt/vatomic
//	context.WithCancel/WithTimeout/WithDeadline, time.Now/After/Sleep/NewTimer/AfterFunc/Since/Until -> verifrt.*
//
// Any construct it does not know how to rewrite is a hard error (exit 2).
package main

import (
	"bytes"
	"crypto/sha256"
	"encoding/json"
	"flag"
	"fmt"
	"go/ast"
	"go/printer"
	"go/token"
	"go/types"
	"os"
	"os/exec"
	"path/filepath"
	"sort"
	"strconv"
	"strings"

	"golang.org/x/tools/go/ast/astutil"
	"golang.org/x/tools/go/packages"
)

const rtPath = "github.com/olive-io/bpmn/v2/verifrt"

var (
	outDir  = flag.String("out", "", "output directory for rewritten files and overlay.json")
	rtDir   = flag.String("rt", "/verif/rt", "directory holding the runtime sources")
	repoDir = flag.String("repo", "/repo", "repository root (the virtual runtime package is placed under it)")
	workDir = flag.String("dir", "/verif", "directory to load packages from (module with replace directives)")
	extra   = flag.String("overlay-in", "", "optional overlay JSON to merge (e.g. seeded changes)")
)

func fatal(format string, a ...any) {
	fmt.Fprintf(os.Stderr, "instr: "+format+"\n", a...)
	os.Exit(2)
}

type rewriter struct {
	fset     *token.FileSet
	info     *types.Info
	file     *ast.File
	usedRT   bool
	siteBase string
	nsite    *int
	recv2    map[*ast.UnaryExpr]bool
	inSelect map[ast.Node]bool
	labeled  map[ast.Stmt]bool
	errs     []string
}

func (r *rewriter) errorf(n ast.Node, format string, a ...any) {
	r.errs = append(r.errs, fmt.Sprintf("%s: %s", r.fset.Position(n.Pos()), fmt.Sprintf(format, a...)))
}

func rtSel(name string) ast.Expr {
	return &ast.SelectorExpr{X: ast.NewIdent("verifrt"), Sel: ast.NewIdent(name)}
}

func call(fun ast.Expr, args ...ast.Expr) *ast.CallExpr {
	return &ast.CallExpr{Fun: fun, Args: args}
}

func (r *rewriter) rt(name string, args ...ast.Expr) *ast.CallExpr {
	r.usedRT = true
	return call(rtSel(name), args...)
}

func (r *rewriter) pkgOf(x ast.Expr) string {
	id, ok := x.(*ast.Ident)
	if !ok {
		return ""
	}
	if pn, ok := r.info.Uses[id].(*types.PkgName); ok {
		return pn.Imported().Path()
	}
	return ""
}

func (r *rewriter) isBuiltin(x ast.Expr, name string) bool {
	id, ok := x.(*ast.Ident)
	if !ok || id.Name != name {
		return false
	}
	_, ok = r.info.Uses[id].(*types.Builtin)
	return ok
}

func pure(x ast.Expr) bool {
	switch e := x.(type) {
	case *ast.Ident:
		return true
	case *ast.SelectorExpr:
		return pure(e.X)
	case *ast.StarExpr:
		return pure(e.X)
	case *ast.ParenExpr:
		return pure(e.X)
	}
	return false
}

var timeFuncs = map[string]string{"Now": "Now", "After": "After", "Sleep": "Sleep", "NewTimer": "NewTimer",
	"AfterFunc": "AfterFunc", "Since": "Since", "Until": "Until", "NewTicker": "NewTicker"}
var ctxFuncs = map[string]string{"WithCancel": "WithCancel", "WithTimeout": "WithTimeout", "WithDeadline": "WithDeadline",
	"WithCancelCause": "WithCancelCause", "Cause": "Cause", "WithoutCancel": "WithoutCancel", "AfterFunc": "ContextAfterFunc"}

func (r *rewriter) pre(c *astutil.Cursor) bool {
	switch n := c.Node().(type) {
	case *ast.AssignStmt:
		if len(n.Lhs) == 2 && len(n.Rhs) == 1 {
			if u, ok := ast.Unparen(n.Rhs[0]).(*ast.UnaryExpr); ok && u.Op == token.ARROW {
				r.recv2[u] = true
			}
		}
	case *ast.ValueSpec:
		if len(n.Names) == 2 && len(n.Values) == 1 {
			if u, ok := ast.Unparen(n.Values[0]).(*ast.UnaryExpr); ok && u.Op == token.ARROW {
				r.recv2[u] = true
			}
		}
	case *ast.SelectStmt:
		for _, cl := range n.Body.List {
			cc := cl.(*ast.CommClause)
			switch s := cc.Comm.(type) {
			case *ast.SendStmt:
				r.inSelect[s] = true
			case *ast.ExprStmt:
				r.inSelect[ast.Unparen(s.X)] = true
			case *ast.AssignStmt:
				u := ast.Unparen(s.Rhs[0])
				r.inSelect[u] = true
				delete(r.recv2, u.(*ast.UnaryExpr))
			}
		}
	case *ast.LabeledStmt:
		r.labeled[n.Stmt] = true
	case *ast.TypeSpec, *ast.Field:
		// time.Timer in type positions cannot be redirected
	}
	return true
}

func (r *rewriter) post(c *astutil.Cursor) bool {
	switch n := c.Node().(type) {
	case *ast.UnaryExpr:
		if n.Op != token.ARROW || r.inSelect[n] {
			return true
		}
		if r.recv2[n] {
			c.Replace(r.rt("Recv2", n.X))
		} else {
			c.Replace(r.rt("Recv", n.X))
		}
	case *ast.SendStmt:
		if r.inSelect[n] {
			return true
		}
		c.Replace(&ast.ExprStmt{X: call(&ast.SelectorExpr{X: r.rt("S", n.Chan), Sel: ast.NewIdent("Send")}, n.Value)})
	case *ast.CallExpr:
		if r.isBuiltin(n.Fun, "close") && len(n.Args) == 1 {
			c.Replace(r.rt("Close", n.Args[0]))
		}
	case *ast.SelectorExpr:
		switch r.pkgOf(n.X) {
		case "time":
			if to, ok := timeFuncs[n.Sel.Name]; ok {
				r.usedRT = true
				c.Replace(rtSel(to))
			} else if n.Sel.Name == "Tick" {
				r.errorf(n, "time.%s is not supported by the runtime", n.Sel.Name)
			}
		case "context":
			if to, ok := ctxFuncs[n.Sel.Name]; ok {
				r.usedRT = true
				c.Replace(rtSel(to))
			} else if n.Sel.Name == "WithDeadlineCause" || n.Sel.Name == "WithTimeoutCause" {
				r.errorf(n, "context.%s is not supported by the runtime", n.Sel.Name)
			}
		case "reflect":
			if n.Sel.Name == "Select" {
				r.errorf(n, "reflect.Select escapes the scheduler")
			}
		}
	case *ast.GoStmt:
		c.Replace(r.rewriteGo(n))
	case *ast.SelectStmt:
		c.Replace(r.rewriteSelect(n))
	case *ast.RangeStmt:
		if s := r.rewriteRange(n); s != nil {
			c.Replace(s)
		}
	}
	return true
}

func (r *rewriter) rewriteGo(n *ast.GoStmt) ast.Stmt {
	callx := n.Call
	if fl, ok := callx.Fun.(*ast.FuncLit); ok && len(callx.Args) == 0 && len(fl.Type.Params.List) == 0 {
		return &ast.ExprStmt{X: r.rt("Go", fl)}
	}
	var lhs []ast.Expr
	var rhs []ast.Expr
	lhs = append(lhs, ast.NewIdent("__f"))
	rhs = append(rhs, callx.Fun)
	var args []ast.Expr
	for i, a := range callx.Args {
		tv, ok := r.info.Types[a]
		if ok && (tv.Value != nil || tv.IsNil()) {
			args = append(args, a)
			continue
		}
		if ok {
			if _, isTuple := tv.Type.(*types.Tuple); isTuple {
				r.errorf(a, "go statement with a multi-value argument")
			}
		}
		name := ast.NewIdent("__a" + strconv.Itoa(i))
		lhs = append(lhs, name)
		rhs = append(rhs, a)
		args = append(args, ast.NewIdent(name.Name))
	}
	inner := &ast.CallExpr{Fun: ast.NewIdent("__f"), Args: args, Ellipsis: callx.Ellipsis}
	if callx.Ellipsis != token.NoPos {
		inner.Ellipsis = 1
	}
	body := &ast.BlockStmt{List: []ast.Stmt{&ast.ExprStmt{X: inner}}}
	lit := &ast.FuncLit{Type: &ast.FuncType{Params: &ast.FieldList{}}, Body: body}
	return &ast.BlockStmt{List: []ast.Stmt{
		&ast.AssignStmt{Lhs: lhs, Tok: token.DEFINE, Rhs: rhs},
		&ast.ExprStmt{X: r.rt("Go", lit)},
	}}
}

func (r *rewriter) rewriteSelect(n *ast.SelectStmt) ast.Stmt {
	*r.nsite++
	site := *r.nsite
	var names, inits []ast.Expr
	var clauses []ast.Stmt
	hasDefault := false
	idx := 0
	for _, cl := range n.Body.List {
		cc := cl.(*ast.CommClause)
		if cc.Comm == nil {
			hasDefault = true
			// the select's default clause becomes the switch's default (Select returns -1)
			clauses = append(clauses, &ast.CaseClause{List: nil, Body: cc.Body, Case: cc.Case})
			continue
		}
		name := fmt.Sprintf("__c%d_%d", site, idx)
		var prologue []ast.Stmt
		switch s := cc.Comm.(type) {
		case *ast.SendStmt:
			inits = append(inits, call(&ast.SelectorExpr{X: r.rt("S", s.Chan), Sel: ast.NewIdent("Case")}, s.Value))
		case *ast.ExprStmt:
			u := ast.Unparen(s.X).(*ast.UnaryExpr)
			inits = append(inits, r.rt("R", u.X))
		case *ast.AssignStmt:
			u := ast.Unparen(s.Rhs[0]).(*ast.UnaryExpr)
			inits = append(inits, r.rt("R", u.X))
			method := "V"
			if len(s.Lhs) == 2 {
				method = "V2"
			}
			prologue = append(prologue, &ast.AssignStmt{Lhs: s.Lhs, Tok: s.Tok,
				Rhs: []ast.Expr{call(&ast.SelectorExpr{X: ast.NewIdent(name), Sel: ast.NewIdent(method)})}})
		default:
			r.errorf(cc, "unknown comm clause")
		}
		names = append(names, ast.NewIdent(name))
		clauses = append(clauses, &ast.CaseClause{List: []ast.Expr{&ast.BasicLit{Kind: token.INT, Value: strconv.Itoa(idx)}},
			Body: append(prologue, cc.Body...), Case: cc.Case})
		idx++
	}
	args := []ast.Expr{&ast.BasicLit{Kind: token.INT, Value: strconv.Itoa(site)}, ast.NewIdent(strconv.FormatBool(hasDefault))}
	for _, nm := range names {
		args = append(args, ast.NewIdent(nm.(*ast.Ident).Name))
	}
	if !hasDefault {
		// keeps the statement "terminating" when every clause terminates, as the select was
		clauses = append(clauses, &ast.CaseClause{List: nil, Body: []ast.Stmt{&ast.ExprStmt{X: call(ast.NewIdent("panic"), &ast.BasicLit{Kind: token.STRING, Value: `"verifrt: select returned no clause"`})}}})
	}
	sw := &ast.SwitchStmt{Switch: n.Select, Tag: r.rt("Select", args...), Body: &ast.BlockStmt{List: clauses, Lbrace: n.Body.Lbrace, Rbrace: n.Body.Rbrace}}
	if len(names) > 0 {
		sw.Init = &ast.AssignStmt{Lhs: names, Tok: token.DEFINE, Rhs: inits}
	}
	return sw
}

func (r *rewriter) rewriteRange(n *ast.RangeStmt) ast.Stmt {
	t := r.info.TypeOf(n.X)
	if t == nil {
		r.errorf(n, "range over expression of unknown type")
		return nil
	}
	isIdentBlank := func(e ast.Expr) bool {
		id, ok := e.(*ast.Ident)
		return e == nil || (ok && id.Name == "_")
	}
	switch t.Underlying().(type) {
	case *types.Chan:
		x := n.X
		var pre []ast.Stmt
		if !pure(x) {
			if r.labeled[n] {
				r.errorf(n, "labeled range over a non-trivial channel expression")
				return nil
			}
			pre = append(pre, &ast.AssignStmt{Lhs: []ast.Expr{ast.NewIdent("__ch")}, Tok: token.DEFINE, Rhs: []ast.Expr{x}})
			x = ast.NewIdent("__ch")
		}
		key := n.Key
		tok := n.Tok
		if isIdentBlank(key) {
			key = ast.NewIdent("_")
			tok = token.DEFINE
		}
		var recv ast.Stmt
		if tok == token.DEFINE {
			recv = &ast.AssignStmt{Lhs: []ast.Expr{key, ast.NewIdent("__ok")}, Tok: token.DEFINE, Rhs: []ast.Expr{r.rt("Recv2", x)}}
		} else {
			recv = &ast.BlockStmt{List: []ast.Stmt{
				&ast.DeclStmt{Decl: &ast.GenDecl{Tok: token.VAR, Specs: []ast.Spec{&ast.ValueSpec{Names: []*ast.Ident{ast.NewIdent("__ok")}, Type: ast.NewIdent("bool")}}}},
			}}
			r.errorf(n, "range over channel with assignment form")
			return nil
		}
		brk := &ast.IfStmt{Cond: &ast.UnaryExpr{Op: token.NOT, X: ast.NewIdent("__ok")}, Body: &ast.BlockStmt{List: []ast.Stmt{&ast.BranchStmt{Tok: token.BREAK}}}}
		body := &ast.BlockStmt{List: append([]ast.Stmt{recv, brk}, n.Body.List...)}
		loop := &ast.ForStmt{For: n.For, Body: body}
		if len(pre) > 0 {
			return &ast.BlockStmt{List: append(pre, loop)}
		}
		return loop
	case *types.Map:
		if isIdentBlank(n.Key) && isIdentBlank(n.Value) {
			return nil
		}
		if n.Tok != token.DEFINE {
			r.errorf(n, "range over map with assignment form")
			return nil
		}
		x := n.X
		var pre []ast.Stmt
		if !pure(x) {
			if r.labeled[n] {
				r.errorf(n, "labeled range over a non-trivial map expression")
				return nil
			}
			pre = append(pre, &ast.AssignStmt{Lhs: []ast.Expr{ast.NewIdent("__m")}, Tok: token.DEFINE, Rhs: []ast.Expr{x}})
			x = ast.NewIdent("__m")
		}
		key := n.Key
		if isIdentBlank(key) {
			key = ast.NewIdent("__k")
		}
		keyName := key.(*ast.Ident).Name
		var fetch ast.Stmt
		val := n.Value
		if isIdentBlank(val) {
			val = ast.NewIdent("_")
		}
		fetch = &ast.AssignStmt{Lhs: []ast.Expr{val, ast.NewIdent("__ok")}, Tok: token.DEFINE,
			Rhs: []ast.Expr{&ast.IndexExpr{X: x, Index: ast.NewIdent(keyName)}}}
		cont := &ast.IfStmt{Cond: &ast.UnaryExpr{Op: token.NOT, X: ast.NewIdent("__ok")}, Body: &ast.BlockStmt{List: []ast.Stmt{&ast.BranchStmt{Tok: token.CONTINUE}}}}
		body := &ast.BlockStmt{List: append([]ast.Stmt{fetch, cont}, n.Body.List...)}
		loop := &ast.RangeStmt{For: n.For, Key: ast.NewIdent("_"), Value: ast.NewIdent(keyName), Tok: token.DEFINE, X: r.rt("MapKeys", x), Body: body}
		if len(pre) > 0 {
			return &ast.BlockStmt{List: append(pre, loop)}
		}
		return loop
	}
	return nil
}

func goList(dir, pkg string) (string, error) {
	cmd := exec.Command("go", "list", "-f", "{{.Dir}}", pkg)
	cmd.Dir = dir
	cmd.Env = append(os.Environ(), "GOFLAGS=-mod=mod", "GOPROXY=off", "GOSUMDB=off", "GOTOOLCHAIN=local", "GOWORK=off")
	out, err := cmd.Output()
	return strings.TrimSpace(string(out)), err
}

type overlay struct {
	Replace map[string]string
}

func main() {
	flag.Parse()
	if *outDir == "" || flag.NArg() == 0 {
		fatal("usage: instr -out DIR pattern...")
	}
	if err := os.MkdirAll(*outDir, 0o755); err != nil {
		fatal("%v", err)
	}
	ov := overlay{Replace: map[string]string{}}
	if *extra != "" {
		b, err := os.ReadFile(*extra)
		if err != nil {
			fatal("%v", err)
		}
		if err := json.Unmarshal(b, &ov); err != nil {
			fatal("%v", err)
		}
	}
	// the runtime as a virtual package under the repository's module
	for _, sub := range []string{"", "vsync", "vatomic"} {
		ents, err := os.ReadDir(filepath.Join(*rtDir, sub))
		if err != nil {
			fatal("%v", err)
		}
		for _, e := range ents {
			if strings.HasSuffix(e.Name(), ".go") && !strings.HasSuffix(e.Name(), "_test.go") {
				ov.Replace[filepath.Join(*repoDir, "verifrt", sub, e.Name())] = filepath.Join(*rtDir, sub, e.Name())
			}
		}
	}
	// sno gets a reset hook (rt/snohook) as an additional file of its package
	if out, err := goList(*workDir, "github.com/muyo/sno"); err == nil && out != "" {
		ov.Replace[filepath.Join(out, "verif_hook.go")] = filepath.Join(*rtDir, "snohook", "verif_hook.go")
	}
	// load with the virtual package visible
	loadOverlay := map[string][]byte{}
	for virt, real := range ov.Replace {
		b, err := os.ReadFile(real)
		if err != nil {
			fatal("%v", err)
		}
		loadOverlay[virt] = b
	}
	cfg := &packages.Config{
		Mode: packages.NeedName | packages.NeedFiles | packages.NeedCompiledGoFiles | packages.NeedSyntax | packages.NeedTypes | packages.NeedTypesInfo | packages.NeedImports | packages.NeedDeps,
		Dir:  *workDir, Overlay: loadOverlay,
		Env: append(os.Environ(), "GOFLAGS=-mod=mod", "GOPROXY=off", "GOSUMDB=off", "GOTOOLCHAIN=local", "GOWORK=off"),
	}
	pkgs, err := packages.Load(cfg, flag.Args()...)
	if err != nil {
		fatal("load: %v", err)
	}
	sort.Slice(pkgs, func(i, j int) bool { return pkgs[i].PkgPath < pkgs[j].PkgPath })
	nsite := 0
	hash := sha256.New()
	nfiles := 0
	var allErrs []string
	for _, p := range pkgs {
		if strings.HasPrefix(p.PkgPath, rtPath) {
			continue
		}
		if len(p.Errors) > 0 {
			for _, e := range p.Errors {
				allErrs = append(allErrs, e.Error())
			}
			continue
		}
		for i, f := range p.Syntax {
			path := p.CompiledGoFiles[i]
			readFrom := path
			if real, ok := ov.Replace[path]; ok {
				readFrom = real // a file that exists only in the overlay
			}
			src, err := os.ReadFile(readFrom)
			if err != nil {
				fatal("%v", err)
			}
			hash.Write([]byte(path))
			hash.Write(src)
			r := &rewriter{fset: p.Fset, info: p.TypesInfo, file: f, nsite: &nsite, recv2: map[*ast.UnaryExpr]bool{},
				inSelect: map[ast.Node]bool{}, labeled: map[ast.Stmt]bool{}}
			astutil.Apply(f, r.pre, r.post)
			allErrs = append(allErrs, r.errs...)
			changedImports := false
			for _, im := range f.Imports {
				ip, _ := strconv.Unquote(im.Path.Value)
				switch ip {
				case "sync":
					im.Path.Value = strconv.Quote(rtPath + "/vsync")
					if im.Name == nil {
						im.Name = ast.NewIdent("sync")
					}
					changedImports = true
				case "sync/atomic":
					im.Path.Value = strconv.Quote(rtPath + "/vatomic")
					if im.Name == nil {
						im.Name = ast.NewIdent("atomic")
					}
					changedImports = true
				}
			}
			if !r.usedRT && !changedImports {
				continue
			}
			out := emit(p.Fset, f, src, path, r.usedRT)
			dst := filepath.Join(*outDir, strings.ReplaceAll(strings.TrimPrefix(path, "/"), "/", "__"))
			if err := os.WriteFile(dst, out, 0o644); err != nil {
				fatal("%v", err)
			}
			ov.Replace[path] = dst
			nfiles++
		}
	}
	if len(allErrs) > 0 {
		fatal("cannot instrument:\n  %s", strings.Join(allErrs, "\n  "))
	}
	b, _ := json.MarshalIndent(ov, "", " ")
	if err := os.WriteFile(filepath.Join(*outDir, "overlay.json"), b, 0o644); err != nil {
		fatal("%v", err)
	}
	fmt.Printf("instr: %d packages, %d files rewritten, %d select sites, input_hash=%x\n", len(pkgs), nfiles, nsite, hash.Sum(nil)[:8])
}

// emit prints the rewritten file: the original header (license, build constraints) verbatim up
// to the package clause, the import block, then each declaration preceded by a //line directive
// so that positions in reports refer to the repository's files.
func emit(fset *token.FileSet, f *ast.File, src []byte, path string, usedRT bool) []byte {
	var buf bytes.Buffer
	pkgOff := fset.Position(f.Package).Offset
	if !strings.HasPrefix(path, *repoDir+"/") && !strings.HasPrefix(path, *workDir+"/") && !bytes.Contains(src[:pkgOff], []byte("//go:build")) {
		// third-party module (sno declares go 1.14): the rewritten file uses generic runtime
		// functions, so it selects a newer language version for itself
		buf.WriteString("//go:build go1.18\n\n")
	}
	buf.Write(src[:pkgOff])
	fmt.Fprintf(&buf, "package %s\n\n", f.Name.Name)
	buf.WriteString("import (\n")
	for _, im := range f.Imports {
		if im.Name != nil {
			fmt.Fprintf(&buf, "\t%s %s\n", im.Name.Name, im.Path.Value)
		} else {
			fmt.Fprintf(&buf, "\t%s\n", im.Path.Value)
		}
	}
	hasRT := false
	for _, im := range f.Imports {
		if ip, _ := strconv.Unquote(im.Path.Value); ip == rtPath {
			hasRT = true
		}
	}
	if usedRT && !hasRT {
		fmt.Fprintf(&buf, "\tverifrt %q\n", rtPath)
	}
	buf.WriteString(")\n\n")
	for _, im := range f.Imports {
		ip, _ := strconv.Unquote(im.Path.Value)
		name := ""
		if im.Name != nil {
			name = im.Name.Name
		}
		if name == "_" || name == "." {
			continue
		}
		switch ip {
		case "time":
			if name == "" {
				name = "time"
			}
			fmt.Fprintf(&buf, "var _ %s.Duration\n", name)
		case "context":
			if name == "" {
				name = "context"
			}
			fmt.Fprintf(&buf, "var _ %s.Context\n", name)
		}
	}
	cfg := printer.Config{Mode: printer.UseSpaces | printer.TabIndent, Tabwidth: 8}
	for _, d := range f.Decls {
		if gd, ok := d.(*ast.GenDecl); ok && gd.Tok == token.IMPORT {
			continue
		}
		pos := fset.Position(d.Pos())
		stripDoc(d)
		fmt.Fprintf(&buf, "\n//line %s:%d\n", path, pos.Line)
		if err := cfg.Fprint(&buf, fset, d); err != nil {
			fatal("print %s: %v", path, err)
		}
		buf.WriteString("\n")
	}
	return buf.Bytes()
}

func stripDoc(d ast.Decl) {
	switch x := d.(type) {
	case *ast.FuncDecl:
		x.Doc = nil
	case *ast.GenDecl:
		x.Doc = nil
		for _, s := range x.Specs {
			switch sp := s.(type) {
			case *ast.TypeSpec:
				sp.Doc, sp.Comment = nil, nil
			case *ast.ValueSpec:
				sp.Doc, sp.Comment = nil, nil
			}
		}
	}
}
