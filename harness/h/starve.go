package h

import "strings"

// Starvation schedules (verifrt.Options.Starve): which deviation-free scenarios are explored,
// besides the FIFO base schedule, once per goroutine number 1..StarveN (thorough: 1..64) with that
// goroutine starved (victims beyond the number of goroutines an execution creates are skipped). The thorough tier does it for every deviation-free engine scenario; the quick tier
// for the families below (chosen so that a quick check stays under about a minute).
// C15's engine clause compares two runs line by line and needs both to follow the same
// schedule, so it is excluded; the sequential properties have no schedule dimension.
const StarveN = 40

var starveQuick = map[string][]string{
	"C01": {"short:30"},
	"C02": {""},
	"C03": {"C03/pargw/N1", "C03/pargw/N2M1", "C03/pargw/N2M2", "C03/pargw-race/N2", "C03/pargw-race/N3M1"},
	"C04": {"C04/xor/k1/", "C04/xor/k2/default@none/tokens2", "C04/xor/k2/default@0/tokens2"},
	"C05": {"C05/incl/k1/", "C05/incl/k2/"},
	"C06": {""},
	"C07": {""},
	"C08": {""},
	"C09": {"C09/engine/"},
	"C10": {"C10/task-race", "C10/sub-race/[I]", "C10/sub-race/[I,N]", "C10/task-burst", "C10/sub-burst/[I,N]", "C10/task-timer", "C10/sub-timer/[I]", "C10/task/[I]/pre=false", "C10/sub/[I]/pre=false", "C10/task/[N]/pre=false"},
	"C11": {"C11/burst", "C11/arrival", "C11/cancel-race", "C11/staggered", "C11/one/signal", "C11/behind/signal", "C11/sub-unentered/signal", "C11/same/signal", "C11/operation/message"},
	"C12": {"short:34", "C12/unjoined/"},
	"C13": {"C13/process/duration", "C13/process/R2", "C13/two-instances", "C13/staggered"},
	"C14": {"C14/engine/straight/signal/k2", "C14/engine/loop/signal/k2", "C14/engine/two-tokens/signal/k2", "C14/engine/behind-task/signal/k2"},
	"C17": {""},
	"C18": {"waits[0]/"},
	"C19": {""},
	"C20": {"C20/engine/"},
}

// starveD1Thorough: small scenarios for which the thorough tier combines a starved goroutine with
// one deviation.
var starveD1Thorough = []string{"C02/s1t0/", "C02/s1t1/[W@0]", "C02/second-flow/[W@0]", "C18/plain/n1/", "C18/two-start-events/waits[0]", "C06/racing/alt2/signal/concurrent", "C12/unjoined/parallelGateway/branches2/L1", "C12/unjoined/parallelGateway/branches2/shared-end-direct/L1", "C03/pargw-race/N2M1", "C09/engine/par(t,t)", "C09/engine/sub(par(t,t))"}

func starveFor(prop, tier string, sc *Scn) int {
	if tier == "thorough" && sc.Starve == 0 && sc.Opts.Bound == 1 && !sc.Opts.Unbounded {
		for _, p := range starveD1Thorough {
			if strings.Contains(sc.Name, p) {
				return 64
			}
		}
	}
	if sc.Starve != 0 || sc.Opts.Bound != 0 || sc.Opts.Unbounded || prop == "RT" {
		return sc.Starve
	}
	if strings.HasPrefix(sc.Name, "C15/") || strings.HasPrefix(sc.Name, "C09/tracer") || strings.HasPrefix(sc.Name, "C09/relay") || strings.HasPrefix(sc.Name, "C13/unit") || strings.HasPrefix(sc.Name, "C20/fallback") || strings.HasPrefix(sc.Name, "C20/sno") {
		return 0
	}
	if tier == "thorough" {
		return 64
	}
	for _, p := range starveQuick[prop] {
		switch {
		case p == "":
			return StarveN
		case strings.HasPrefix(p, "short:"):
			n := 0
			for _, c := range p[len("short:"):] {
				n = n*10 + int(c-'0')
			}
			if len(sc.Name) <= n {
				return StarveN
			}
		case strings.Contains(sc.Name, p):
			return StarveN
		}
	}
	return 0
}

// runNextFor tells whether a scenario is also explored around the "readied goroutine runs next"
// base schedule (verifrt.Options.RunNext), at its own deviation bound: in the quick tier the
// deviation-free scenarios, in the thorough tier those with at most one deviation.
func runNextFor(prop, tier string, sc *Scn) bool {
	if sc.Opts.Unbounded || prop == "RT" {
		return false
	}
	if strings.HasPrefix(sc.Name, "C09/tracer") || strings.HasPrefix(sc.Name, "C09/relay") || strings.HasPrefix(sc.Name, "C20/fallback") || strings.HasPrefix(sc.Name, "C20/sno") {
		return false // micro-harnesses already explored without a bound or at d <= 3
	}
	if tier == "thorough" {
		return sc.Opts.Bound <= 1
	}
	return sc.Opts.Bound == 0
}
