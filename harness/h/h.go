// Package h is the scenario framework shared by all property harnesses: registry, exploration
// loop per shard, replay files, partial reports merged by cmd/vcheck.
package h

import (
	"encoding/json"
	"fmt"
	"os"
	"sort"
	"strings"
	"time"

	"github.com/olive-io/bpmn/v2/verifrt"

	"verif/harness/rep"
)

// Finding is one violation: Sig identifies the failed clause (see DESIGN.md Appendix B),
// Msg explains this instance.
type Finding struct {
	Sig string
	Msg string
}

// Scn is one closed scenario explored under the controlled scheduler.
type Scn struct {
	Name  string
	Body  func()
	Check func(o *verifrt.Outcome) []Finding // optional post-hoc judgement (deadlock, panic, live goroutines)
	Opts  verifrt.Options
	// AllowDeadlock: the scenario's own oracle decides about executions that end blocked;
	// otherwise an execution that ends with main blocked is reported by the default check.
	AllowDeadlock bool
	// Final, if set, is evaluated once after the exploration of the scenario (coverage oracles).
	Final func() []Finding
	Split int // > 1: deal the first-level subtrees of the search to this many jobs
	// Starve > 0: besides the FIFO base schedule, explore the scenario once per k in 1..Starve
	// with goroutine number k starved (verifrt.Options.Starve), at the scenario's bound.
	Starve int
	Weight int // scheduling hint: heavier jobs are started first
}

// Plain, Report and ViolationRec live in package rep (no runtime dependency).
type (
	Plain        = rep.Plain
	Report       = rep.Report
	ViolationRec = rep.ViolationRec
)

// Gen produces the scenarios of a property for a tier ("quick" or "thorough").
type Gen func(tier string) ([]*Scn, []*Plain)

var registry = map[string]Gen{}

func Register(prop string, g Gen) { registry[prop] = g }

func Props() []string {
	var out []string
	for k := range registry {
		out = append(out, k)
	}
	sort.Strings(out)
	return out
}

// Fail records an in-execution violation with a signature.
func Fail(sig, format string, a ...any) {
	verifrt.Fail("%s|%s", sig, fmt.Sprintf(format, a...))
}

func splitFail(s string) Finding {
	if i := strings.Index(s, "|"); i > 0 {
		return Finding{Sig: s[:i], Msg: s[i+1:]}
	}
	return Finding{Sig: "unsigned", Msg: s}
}

func firstLines(s string, n int) string {
	lines := strings.Split(s, "\n")
	if len(lines) > n {
		lines = lines[:n]
	}
	return strings.Join(lines, "\n")
}

// judge turns an outcome into findings: in-execution Fails, the scenario's Check, and the
// default rules (panic anywhere; main blocked forever unless the scenario handles it).
func judge(prop string, sc *Scn, o *verifrt.Outcome) []Finding {
	var fs []Finding
	for _, f := range o.Fails {
		fs = append(fs, splitFail(f))
	}
	if o.Panic != "" {
		fs = append(fs, Finding{Sig: prop + "/" + class(sc.Name) + "/panic", Msg: "panic in a goroutine: " + firstLines(o.Panic, 12)})
	}
	if o.Deadlock && !sc.AllowDeadlock {
		fs = append(fs, Finding{Sig: prop + "/" + class(sc.Name) + "/harness-blocked", Msg: fmt.Sprintf("execution ended with the driver blocked; blocked goroutines: %v", o.Blocked)})
	}
	if sc.Check != nil {
		fs = append(fs, sc.Check(o)...)
	}
	return fs
}

// class is the scenario class: the name up to the first '[' or ':' parameter part.
func class(name string) string {
	parts := strings.Split(name, "/")
	if len(parts) >= 2 {
		return parts[1]
	}
	return name
}

// Split, when > 1 on a scenario, deals the first-level subtrees of its search to that many jobs.
// runScn runs one job of a scenario: a shard of its search around the FIFO base schedule
// (starveLo == 0), or the searches around the base schedules that starve goroutine number
// starveLo..starveHi.
func runScn(r *Report, sc *Scn, splitIdx, splitK, starveLo, starveHi int) {
	if starveLo == -1 {
		runScnOne(r, sc, splitIdx, splitK, -1)
		return
	}
	if starveLo <= 0 {
		runScnOne(r, sc, splitIdx, splitK, 0)
		return
	}
	for v := starveLo; v <= starveHi; v++ {
		// goroutines are numbered in creation order: if no execution created goroutine number
		// v, none creates a later one, and the remaining victims would repeat the base search
		if maxGs := runScnOne(r, sc, 0, 1, v); maxGs > 0 && v >= maxGs {
			break
		}
	}
}

func runScnOne(r *Report, sc *Scn, splitIdx, splitK, starve int) (maxGs int) {
	prop, tier := r.Prop, r.Tier
	r.CurName = sc.Name
	if r.Expired() {
		r.Skipped++
		r.Exhaustive = false
		return 0
	}
	r.Scenarios++
	opts := sc.Opts
	opts.Deadline = r.Deadline
	opts.SplitIdx, opts.SplitK = splitIdx, splitK
	if starve == -1 {
		opts.RunNext = true
	} else {
		opts.Starve = starve
	}
	if v := os.Getenv("VERIF_MAXSTEPS"); v != "" {
		fmt.Sscan(v, &opts.MaxSteps)
	}
	if os.Getenv("VERIF_UNBOUNDED") != "" {
		// experiment switch (not used by registered commands): explore every schedule
		opts.Unbounded, opts.UseCache = true, true
	}
	if !opts.Unbounded && !opts.UseCache {
		opts.UseCache = true
	}
	if verifrt.RaceEnabled {
		opts.AfterRun = func(o *verifrt.Outcome) []string { return newRaceReports(prop, sc.Name) }
	}
	ts := time.Now()
	vsc := &verifrt.Scenario{Name: sc.Name, Body: sc.Body, Check: func(o *verifrt.Outcome) []string {
		var out []string
		for _, f := range judge(prop, sc, o) {
			out = append(out, f.Sig+"|"+f.Msg)
		}
		return out
	}}
	st, viol := verifrt.Explore(vsc, opts)
	maxGs = st.MaxGs
	r.Execs += int64(st.Execs)
	r.Complete += int64(st.Complete)
	r.Pruned += int64(st.Pruned)
	r.Steps += st.Steps
	r.States += int64(st.States)
	r.Nontrivial += int64(st.Nontrivial)
	r.Deadlocks += int64(st.Deadlocks)
	for k := range st.Finals {
		if len(r.Distinct) < 2000000 {
			r.Distinct[fmt.Sprintf("%s#%x", sc.Name, k)] = true
		}
	}
	if opts.Unbounded {
		r.Unbounded++
	} else {
		if opts.Bound > r.MaxBound {
			r.MaxBound = opts.Bound
		}
		if opts.Bound < r.MinBound {
			r.MinBound = opts.Bound
		}
	}
	if st.Exhaustive {
		r.ScenariosOK++
	} else {
		r.Exhaustive = false
		r.Caps = append(r.Caps, fmt.Sprintf("%s[%d/%d]: %s after %d executions", sc.Name, splitIdx, splitK, st.CapHit, st.Execs))
	}
	if st.Aborted > 0 {
		r.Aborts = append(r.Aborts, fmt.Sprintf("%s: %d aborted executions, first: %s", sc.Name, st.Aborted, st.FirstAbort))
	}
	if len(r.Samples) < 3 && st.First != nil {
		r.Samples = append(r.Samples, map[string]any{"scenario": sc.Name, "bound": opts.Bound, "unbounded": opts.Unbounded,
			"executions": st.Execs, "states": st.States, "first_execution_log": trunc(st.First.Log, 40), "first_execution_steps": st.First.Steps})
	}
	if sc.Final != nil && st.Exhaustive {
		for _, f := range sc.Final() {
			viol = append(viol, verifrt.Violation{Msg: f.Sig + "|" + f.Msg, Outcome: &verifrt.Outcome{}})
		}
	}
	seen := map[string]bool{}
	for _, v := range viol {
		f := splitFail(v.Msg)
		if seen[f.Sig] {
			continue
		}
		seen[f.Sig] = true
		path := rep.WriteReplay(r.Replays, prop, map[string]any{"property": prop, "tier": tier, "scenario": sc.Name, "kind": "schedule",
			"signature": f.Sig, "message": f.Msg, "bound": opts.Bound, "unbounded": opts.Unbounded, "starve": opts.Starve, "run_next": opts.RunNext, "choices": v.Choices,
			"log": trunc(v.Outcome.Log, 200), "blocked": v.Outcome.Blocked, "spinners": v.Outcome.Spinners, "live": v.Outcome.Live, "panic": firstLines(v.Outcome.Panic, 30)})
		r.Violations = append(r.Violations, ViolationRec{Sig: f.Sig, Msg: f.Msg, Scenario: sc.Name, Replay: path})
	}
	r.PerScenario = append(r.PerScenario, fmt.Sprintf("%s[%d/%d] execs=%d complete=%d states=%d steps=%d exh=%v viol=%d %.2fs", sc.Name, splitIdx, splitK, st.Execs, st.Complete, st.States, st.Steps, st.Exhaustive, len(viol), time.Since(ts).Seconds()))
	return maxGs
}

// Job is one unit of work handed to a worker process.
type Job struct {
	Index    int    `json:"index"` // position in the scenario list (plain enumerations follow the scenarios)
	Name     string `json:"name"`
	SplitIdx int    `json:"split_idx"`
	SplitK   int    `json:"split_k"`
	Starve   int    `json:"starve,omitempty"` // > 0: this job explores the starvation schedules Starve..StarveHi
	StarveHi int    `json:"starve_hi,omitempty"`
	RunNext  bool   `json:"run_next,omitempty"` // this job explores around the "readied goroutine runs next" base schedule
	Weight   int    `json:"weight"`
	Phase    int    `json:"phase"`           // deviation bound of the scenario: lower phases are served first
	Extra    bool   `json:"extra,omitempty"` // thorough tier: a job the quick tier does not have (served after those it has)
}

// class orders the thorough tier: what the quick tier has too, then further scenarios and bounds
// under the FIFO and run-next base schedules, then further starvation schedules (64 runs of a
// scenario each; the heaviest part, which a 20 minute budget does not finish for most properties).
func (j Job) class() int {
	switch {
	case !j.Extra:
		return 0
	case j.Starve == 0:
		return 1
	}
	return 2
}

func (j Job) key() string {
	return fmt.Sprintf("%s|%d/%d|%v|%d", j.Name, j.SplitIdx, j.SplitK, j.RunNext, j.Starve)
}

func mustGen(prop string) Gen {
	gen, ok := registry[prop]
	if !ok {
		fmt.Fprintf(os.Stderr, "unknown property %s (have %v)\n", prop, Props())
		os.Exit(2)
	}
	return gen
}

// Jobs lists the work units of a property, heaviest first.
func Jobs(prop, tier string) []Job {
	scns, plains := mustGen(prop)(tier)
	var out []Job
	for i, sc := range scns {
		k := sc.Split
		if k < 1 {
			k = 1
		}
		sc.Starve = starveFor(prop, tier, sc)
		if v := os.Getenv("VERIF_STARVE"); v != "" && sc.Starve == 0 && (sc.Opts.Bound == 0 || os.Getenv("VERIF_STARVE_D1") != "") && !sc.Opts.Unbounded {
			// experiment switch: starvation schedules for every deviation-free scenario
			fmt.Sscan(v, &sc.Starve)
		}
		for j := 0; j < k; j++ {
			ph := sc.Opts.Bound
			if sc.Opts.Unbounded {
				ph = 0
				if k > 1 {
					ph = 99
				}
			}
			out = append(out, Job{Index: i, Name: sc.Name, SplitIdx: j, SplitK: k, Weight: sc.Weight + 1000*(k-1), Phase: ph})
		}
		// the "readied goroutine runs next" base schedule, at the scenario's bound
		if runNextFor(prop, tier, sc) {
			for j := 0; j < k; j++ {
				out = append(out, Job{Index: i, Name: sc.Name, SplitIdx: j, SplitK: k, RunNext: true, Weight: sc.Weight + 1000*(k-1), Phase: sc.Opts.Bound})
			}
		}
		// starvation schedules: a few victims per job
		for v := 1; v <= sc.Starve; v += 8 {
			hi := v + 7
			if hi > sc.Starve {
				hi = sc.Starve
			}
			out = append(out, Job{Index: i, Name: sc.Name, SplitK: 1, Starve: v, StarveHi: hi, Weight: sc.Weight, Phase: sc.Opts.Bound})
		}
	}
	for i, p := range plains {
		out = append(out, Job{Index: len(scns) + i, Name: p.Name, SplitK: 1, Weight: p.Weight})
	}
	// The thorough tier first serves every job the quick tier has as well (same scenario, same
	// base schedule, same victims), so that a thorough run that hits its time budget still
	// covers what the quick run covers.
	if tier == "thorough" {
		quick := map[string]bool{}
		for _, j := range Jobs(prop, "quick") {
			quick[j.key()] = true
		}
		for i := range out {
			out[i].Extra = !quick[out[i].key()]
		}
	}
	// Lower bounds first, so that a run that hits its time budget has completed everything of
	// the smaller bounds (and says so); within a bound the heaviest jobs first (better packing).
	sort.SliceStable(out, func(a, b int) bool {
		if ca, cb := out[a].class(), out[b].class(); ca != cb {
			return ca < cb
		}
		if out[a].Phase != out[b].Phase {
			return out[a].Phase < out[b].Phase
		}
		return out[a].Weight > out[b].Weight
	})
	return out
}

// Serve reads jobs (JSON lines) from stdin and writes one report (JSON line) per job.
func Serve(prop, tier, replayDir string, deadline time.Time) {
	scns, plains := mustGen(prop)(tier)
	dec := json.NewDecoder(os.Stdin)
	enc := json.NewEncoder(os.Stdout)
	for {
		var j Job
		if err := dec.Decode(&j); err != nil {
			return
		}
		r := rep.New(prop, tier, replayDir, deadline)
		t0 := time.Now()
		if j.Index < len(scns) {
			if j.RunNext {
				runScn(r, scns[j.Index], j.SplitIdx, j.SplitK, -1, 0)
			} else {
				runScn(r, scns[j.Index], j.SplitIdx, j.SplitK, j.Starve, j.StarveHi)
			}
		} else {
			r.RunPlain(plains[j.Index-len(scns)])
		}
		r.Finish(t0)
		if err := enc.Encode(r); err != nil {
			return
		}
	}
}

// RunShard explores the scenarios of prop assigned to shard (index mod nshards); used for
// debugging (-only; a trailing * makes it a prefix) and single-process runs.
func RunShard(prop, tier string, shard, nshards int, budget time.Duration, replayDir string, only string) *Report {
	scns, plains := mustGen(prop)(tier)
	t0 := time.Now()
	var dl time.Time
	if budget > 0 {
		dl = t0.Add(budget)
	}
	r := rep.New(prop, tier, replayDir, dl)
	r.Shard = shard
	idx := 0
	for _, sc := range scns {
		mine := idx%nshards == shard
		idx++
		if (only != "" && !matchOnly(only, sc.Name)) || (only == "" && !mine) {
			continue
		}
		runScn(r, sc, 0, 1, 0, 0)
		if runNextFor(prop, tier, sc) {
			runScn(r, sc, 0, 1, -1, 0)
		}
		sc.Starve = starveFor(prop, tier, sc)
		if sc.Starve > 0 {
			runScn(r, sc, 0, 1, 1, sc.Starve)
		}
	}
	for _, p := range plains {
		mine := idx%nshards == shard
		idx++
		if (only != "" && !matchOnly(only, p.Name)) || (only == "" && !mine) {
			continue
		}
		r.RunPlain(p)
	}
	r.Finish(t0)
	return r
}

func trunc(s []string, n int) []string {
	if len(s) > n {
		return append(append([]string{}, s[:n]...), fmt.Sprintf("... (%d more)", len(s)-n))
	}
	return s
}

// ReplayFile re-executes the schedule stored in a replay file twice, checks that both runs
// agree, and reports whether the violation reproduces.
func ReplayFile(path string) int {
	b, err := os.ReadFile(path)
	if err != nil {
		fmt.Fprintln(os.Stderr, err)
		return 2
	}
	var rec struct {
		Property  string `json:"property"`
		Tier      string `json:"tier"`
		Scenario  string `json:"scenario"`
		Kind      string `json:"kind"`
		Signature string `json:"signature"`
		Bound     int    `json:"bound"`
		Unbounded bool   `json:"unbounded"`
		Starve    int    `json:"starve"`
		RunNext   bool   `json:"run_next"`
		Choices   []int  `json:"choices"`
	}
	if err := json.Unmarshal(b, &rec); err != nil {
		fmt.Fprintln(os.Stderr, err)
		return 2
	}
	gen, ok := registry[rec.Property]
	if !ok {
		fmt.Fprintf(os.Stderr, "unknown property %s\n", rec.Property)
		return 2
	}
	scns, plains := gen(rec.Tier)
	if rec.Kind == "plain" {
		for _, p := range plains {
			if p.Name == rec.Scenario {
				r := &Report{Prop: rec.Property, Tier: rec.Tier, Distinct: map[string]bool{}, Exhaustive: true, Replays: os.TempDir(), CurName: p.Name}
				p.Run(r)
				for _, v := range r.Violations {
					if v.Sig == rec.Signature {
						fmt.Printf("REPRODUCED property=%s signature=%s\n%s\n", rec.Property, v.Sig, v.Msg)
						return 1
					}
				}
				fmt.Printf("NOT-REPRODUCED property=%s signature=%s\n", rec.Property, rec.Signature)
				return 0
			}
		}
		fmt.Fprintf(os.Stderr, "scenario %s not found\n", rec.Scenario)
		return 2
	}
	for _, sc := range scns {
		if sc.Name != rec.Scenario {
			continue
		}
		opts := sc.Opts
		opts.Bound, opts.Unbounded = rec.Bound, rec.Unbounded
		opts.Starve = rec.Starve
		opts.RunNext = rec.RunNext
		opts.Trace = os.Getenv("VERIF_TRACE") != ""
		if v := os.Getenv("VERIF_MAXSTEPS"); v != "" {
			fmt.Sscan(v, &opts.MaxSteps)
		}
		vsc := &verifrt.Scenario{Name: sc.Name, Body: sc.Body}
		var sigs [2][]string
		var logs [2]string
		for i := 0; i < 2; i++ {
			o := verifrt.Replay(vsc, rec.Choices, opts)
			if o.Aborted != "" {
				for i, l := range o.Trace {
					if i < 400 {
						fmt.Println("  op:", l)
					}
				}
				fmt.Printf("replay aborted: %s\n", o.Aborted)
				return 2
			}
			for _, f := range judge(rec.Property, sc, o) {
				sigs[i] = append(sigs[i], f.Sig)
				if i == 0 && f.Sig == rec.Signature {
					fmt.Printf("  %s: %s\n", f.Sig, f.Msg)
				}
			}
			// race mode: the detector reports one access pair once per process, so a report in
			// either run counts
			for _, rr := range newRaceReports(rec.Property, sc.Name) {
				if k := strings.Index(rr, "|"); k > 0 {
					sigs[0] = append(sigs[0], rr[:k])
					if rr[:k] == rec.Signature {
						fmt.Printf("  %s: %s\n", rr[:k], rr[k+1:])
					}
				}
			}
			logs[i] = fmt.Sprint(o.Log, o.Deadlock, o.Blocked, o.Steps)
			if i == 0 {
				for _, l := range trunc(o.Log, 100) {
					fmt.Println("  log:", l)
				}
				for _, l := range o.Blocked {
					fmt.Println("  blocked:", l)
				}
				for _, l := range o.Trace {
					fmt.Println("  op:", l)
				}
			}
		}
		if logs[0] != logs[1] {
			fmt.Println("replay is not deterministic: two runs of the same schedule differ")
			return 2
		}
		for _, s := range sigs[0] {
			if s == rec.Signature {
				fmt.Printf("REPRODUCED property=%s signature=%s (2 identical runs)\n", rec.Property, s)
				return 1
			}
		}
		fmt.Printf("NOT-REPRODUCED property=%s signature=%s\n", rec.Property, rec.Signature)
		return 0
	}
	fmt.Fprintf(os.Stderr, "scenario %s not found\n", rec.Scenario)
	return 2
}

// List prints the scenario names of a property.
func List(prop, tier string) {
	gen, ok := registry[prop]
	if !ok {
		fmt.Println("unknown property")
		return
	}
	scns, plains := gen(tier)
	for _, s := range scns {
		fmt.Printf("%s bound=%d unbounded=%v\n", s.Name, s.Opts.Bound, s.Opts.Unbounded)
	}
	for _, p := range plains {
		fmt.Printf("%s (plain)\n", p.Name)
	}
}

// TraceDefault prints the operation trace of the default execution of one scenario (debugging).
func TraceDefault(prop, tier, name string, n int) {
	scns, _ := registry[prop](tier)
	for _, sc := range scns {
		if sc.Name != name {
			continue
		}
		opts := sc.Opts
		opts.Trace = true
		opts.MaxSteps = n
		var prefix []int
		for _, f := range strings.Fields(strings.ReplaceAll(os.Getenv("VERIF_PREFIX"), ",", " ")) {
			var v int
			fmt.Sscan(f, &v)
			prefix = append(prefix, v)
		}
		o := verifrt.Replay(&verifrt.Scenario{Name: sc.Name, Body: sc.Body}, prefix, opts)
		for _, l := range o.Trace {
			fmt.Println(l)
		}
		fmt.Println("aborted:", o.Aborted, "deadlock:", o.Deadlock, "fails:", o.Fails, "blocked:", o.Blocked)
	}
}

// ---- race mode: attributing detector reports to executions ----

var raceLogOffset int64

// RaceReports counts, per scenario, the detector reports attributed to it (used by the runtime's
// self-check, pseudo-property RT, where reports in the litmus programs are the expected result).
var RaceReports = map[string]int{}

// newRaceReports reads what the race detector has appended to its log since the last call and
// returns one violation per report that involves a non-test file of the repository. The worker
// runs with GORACE=log_path=$VERIF_RACE_LOG, the runtime writes to <path>.<pid>.
func newRaceReports(prop, scenario string) []string {
	base := os.Getenv("VERIF_RACE_LOG")
	if base == "" {
		return nil
	}
	path := fmt.Sprintf("%s.%d", base, os.Getpid())
	st, err := os.Stat(path)
	if err != nil || st.Size() <= raceLogOffset {
		return nil
	}
	f, err := os.Open(path)
	if err != nil {
		return nil
	}
	defer f.Close()
	buf := make([]byte, st.Size()-raceLogOffset)
	f.ReadAt(buf, raceLogOffset)
	raceLogOffset = st.Size()
	var out []string
	for _, rep := range strings.Split(string(buf), "==================") {
		if !strings.Contains(rep, "WARNING: DATA RACE") {
			continue
		}
		top := raceTopFrames(rep)
		rel := ""
		for _, t := range top {
			if prop == "RT" && strings.Contains(t.file, "/harness/litmus/") {
				RaceReports[scenario]++
				break
			}
			if strings.HasPrefix(t.file, "/repo/") && !strings.HasPrefix(t.file, "/repo/verifrt/") && !strings.HasSuffix(t.file, "_test.go") {
				rel = t.fn
				if i := strings.LastIndex(rel, "/"); i >= 0 {
					rel = rel[i+1:]
				}
				break
			}
		}
		if rel == "" {
			// both innermost frames are in library code: the report still counts when BOTH
			// accesses were made on behalf of repository code (a library object shared between
			// two goroutines of the engine); named after the innermost repository frame
			callers := raceRepoCallers(rep)
			if len(callers) < 2 {
				continue // harness or library code only
			}
			rel = callers[0]
			if i := strings.LastIndex(rel, "/"); i >= 0 {
				rel = rel[i+1:]
			}
			rel += "/in-library"
		}
		out = append(out, fmt.Sprintf("%s/%s/data-race/%s|the race detector reports an access pair not ordered by the program's synchronisation in this schedule:\n%s", prop, class(scenario), rel, firstLines(strings.TrimSpace(rep), 40)))
	}
	return out
}

type raceFrame struct{ fn, file string }

// raceRepoCallers returns, for each access section of a report whose stack contains a non-test
// repository frame, the innermost such frame's function.
func raceRepoCallers(rep string) []string {
	var out []string
	lines := strings.Split(rep, "\n")
	for i := 0; i < len(lines); i++ {
		l := strings.TrimSpace(lines[i])
		if !(strings.HasPrefix(l, "Read at") || strings.HasPrefix(l, "Write at") || strings.HasPrefix(l, "Previous read at") || strings.HasPrefix(l, "Previous write at")) {
			continue
		}
		for j := i + 1; j+1 < len(lines); j += 2 {
			fn := strings.TrimSpace(lines[j])
			file := strings.TrimSpace(lines[j+1])
			if fn == "" {
				break
			}
			if strings.HasPrefix(file, "/repo/") && !strings.HasPrefix(file, "/repo/verifrt/") && !strings.Contains(file, "_test.go") {
				out = append(out, strings.TrimSuffix(fn, "()"))
				break
			}
		}
	}
	return out
}

// raceTopFrames returns the innermost frame of each access of a report ("Read at", "Write at",
// "Previous read at", "Previous write at" sections).
func raceTopFrames(rep string) []raceFrame {
	var out []raceFrame
	lines := strings.Split(rep, "\n")
	for i := 0; i < len(lines); i++ {
		l := strings.TrimSpace(lines[i])
		if (strings.HasPrefix(l, "Read at") || strings.HasPrefix(l, "Write at") || strings.HasPrefix(l, "Previous read at") || strings.HasPrefix(l, "Previous write at")) && i+2 < len(lines) {
			// skip runtime helper frames (slicecopy, growslice, memmove, mapaccess...)
			for j := i + 1; j+1 < len(lines); j += 2 {
				fn := strings.TrimSpace(lines[j])
				file := strings.TrimSpace(lines[j+1])
				if fn == "" {
					break
				}
				if k := strings.Index(file, ":"); k >= 0 {
					file = file[:k]
				}
				if strings.HasPrefix(fn, "runtime.") {
					continue
				}
				out = append(out, raceFrame{fn: strings.TrimSuffix(fn, "()"), file: file})
				break
			}
		}
	}
	return out
}

func matchOnly(only, name string) bool {
	if strings.HasSuffix(only, "*") {
		return strings.HasPrefix(name, only[:len(only)-1])
	}
	return name == only
}
