// Package c17: no data race and no panic inside the engine under concurrent use. The scenarios
// run in race mode (the worker is built with -race, DESIGN.md §2.5): every explored schedule is
// checked by the Go race detector, which sees exactly the happens-before edges of the program's
// own synchronisation. The drivers act from several goroutines at once (discipline R).
package c17

import (
	"fmt"
	"sort"
	"strings"

	bpmn "github.com/olive-io/bpmn/v2"
	"github.com/olive-io/bpmn/v2/pkg/data"
	"github.com/olive-io/bpmn/v2/pkg/tracing"
	"github.com/olive-io/bpmn/v2/verifrt"

	"verif/harness/drv"
	"verif/harness/h"
)

// program: block program answered by a racing driver: every task is answered from its own
// goroutine as soon as its request is seen; concurrently a second subscriber joins and leaves,
// a goroutine reads variables, and two goroutines wait for completion.
func programBody(name string, b *drv.Block) func() {
	p := drv.Render("c17_"+name, b)
	defs := p.G.Parse()
	as := p.Assignments()
	return func() {
		a := as[verifrt.Choose(len(as))]
		sig := "C17/program"
		r := drv.Open(p.G, defs, drv.OpenOpts{Vars: a, SubCap: 1})
		m := drv.NewModel(p.G, a)
		issued, returned := 0, 0
		r.OnTrace = func(seq int, raw tracing.ITrace) {
			if tt, ok := tracing.Unwrap(raw).(bpmn.TaskTrace); ok {
				id := ""
				if pid, ok := tt.GetActivity().Element().Id(); ok {
					id = *pid
				}
				visit := 0
				for _, t := range r.Tasks {
					if t.ID == id {
						visit++
					}
				}
				issued++
				// a snapshot of the variables is taken at every task request and read twice, the
				// second time after another call into the engine: results written meanwhile must
				// not be written into the items a snapshot holds
				go func() {
					snap := r.P.Locator().CloneVariables()
					for pass := 0; pass < 2; pass++ {
						if pass == 1 {
							r.P.Locator().GetVariable("c0")
						}
						// the last thing the goroutine does is read the snapshot: nothing orders
						// these reads before a later write by the engine
						for _, it := range snap {
							if it != nil {
								_ = it.Value()
							}
						}
					}
				}()
				go func() {
					if v, isCnt := p.CntTask[id]; isCnt {
						tt.Do(bpmn.DoWithResults(map[string]any{v: int64(visit)}))
					} else {
						tt.Do()
					}
					returned++
				}()
			}
		}
		// the reader marks tasks answered itself
		var w1, w2 *drv.Wait
		r.AfterStart = func() {
			// a waiter that gives up at once (its context is cancelled while the instance runs),
			// then two that stay: completion waits issued from several goroutines
			w0 := r.WaitComplete(nil)
			go w0.Cancel()
			w1 = r.WaitComplete(nil)
			w2 = r.WaitComplete(nil)
		}
		r.StartAll()
		// second subscriber: joins, reads a few traces, leaves
		go func() {
			ch := r.P.Tracer().SubscribeChannel(make(chan tracing.ITrace, 2))
			for i := 0; i < 3; i++ {
				if _, ok := <-ch; !ok {
					return
				}
			}
			r.P.Tracer().Unsubscribe(ch)
		}()
		// variable reader: takes snapshots and reads them (the items of a snapshot are read
		// after the call has returned, possibly while a task result writes the variable again)
		go func() {
			var kept []map[string]data.IItem
			for i := 0; i < 3; i++ {
				snap := r.P.Locator().CloneVariables()
				kept = append(kept, snap)
				r.P.Locator().GetVariable("c0")
				for _, m := range kept {
					for _, it := range m {
						if it != nil {
							_ = it.Value()
						}
					}
				}
			}
		}()
		// event deliverer: an event nobody listens for, handed to the instance while tokens
		// enter activities and tasks are answered
		delivered := 0
		go func() {
			for i := 0; i < 2; i++ {
				r.Signal("noise")
				delivered++
			}
		}()
		verifrt.WaitIdle()
		if delivered != 2 {
			h.Fail(sig+"/consume-returns", "%d of 2 ConsumeEvent calls returned; live %v", delivered, verifrt.LiveRepoGoroutines())
			return
		}
		// model: answer everything (the outcome of these programs does not depend on the order)
		m.StartAll()
		for steps := 0; len(m.Pending) > 0 && steps < 64; steps++ {
			t := m.Pending[0]
			var res map[string]any
			if v, isCnt := p.CntTask[t.At.ID]; isCnt {
				res = map[string]any{v: int64(t.Visit + 1)}
			}
			m.Answer(0, res)
		}
		if !r.StartReturned {
			h.Fail(sig+"/startall-returns", "StartAll has not returned")
			return
		}
		if returned != issued {
			h.Fail(sig+"/do-returns", "%d of %d Do calls returned", returned, issued)
			return
		}
		if m.Stuck > 0 {
			return
		}
		if m.Complete() {
			if w1 == nil || !w1.Returned || !w1.Result || !w2.Returned || !w2.Result {
				h.Fail(sig+"/outcome-allowed", "the token game completes but the waiters have not returned true; pending %v", r.PendingIDs())
				return
			}
		}
		got, want := append([]string{}, r.Completed...), append([]string{}, m.Ended...)
		sort.Strings(got)
		sort.Strings(want)
		if strings.Join(got, ",") != strings.Join(want, ",") {
			h.Fail(sig+"/outcome-allowed", "end events reached %v, the token game allows %v", got, want)
		}
		if len(r.Grammar) > 0 {
			h.Fail("C09/engine/causal-order", "%s", r.Grammar[0])
		}
	}
}

// events: event-based gateway, catch events and an interrupting boundary event with deliveries
// from several goroutines racing with the answers.
func eventBody(kind string) func() {
	g := drv.NewGraph("c17_" + kind)
	s := g.Add(drv.Start, "start")
	deliver := []string{"A", "B"}
	switch kind {
	case "event-gateway":
		gw := g.Add(drv.EBG, "G")
		g.Link(s, gw, nil)
		for _, x := range deliver {
			c := g.Add(drv.Catch, "c"+x)
			c.Defs = []drv.EventDef{{Kind: "signal", Ref: x}}
			t, e := g.Add(drv.Task, "t"+x), g.Add(drv.End, "end"+x)
			g.Link(gw, c, nil)
			g.Link(c, t, nil)
			g.Link(t, e, nil)
		}
	case "parallel-catch":
		f, j, e := g.Add(drv.AND, "F"), g.Add(drv.AND, "J"), g.Add(drv.End, "end")
		g.Link(s, f, nil)
		for _, x := range deliver {
			c := g.Add(drv.Catch, "c"+x)
			c.Defs = []drv.EventDef{{Kind: "signal", Ref: x}}
			t := g.Add(drv.Task, "t"+x)
			g.Link(f, c, nil)
			g.Link(c, t, nil)
			g.Link(t, j, nil)
		}
		g.Link(j, e, nil)
	case "boundary":
		host, tn, en := g.Add(drv.Task, "host"), g.Add(drv.Task, "tn"), g.Add(drv.End, "endn")
		b := g.AddBoundary(host, "b1", true, drv.EventDef{Kind: "signal", Ref: "A"})
		tx, ex := g.Add(drv.Task, "tx"), g.Add(drv.End, "endx")
		g.Link(s, host, nil)
		g.Link(host, tn, nil)
		g.Link(tn, en, nil)
		g.Link(b, tx, nil)
		g.Link(tx, ex, nil)
	}
	defs := g.Parse()
	return func() {
		sig := "C17/" + kind
		r := drv.Open(g, defs, drv.OpenOpts{SubCap: 1})
		issued, returned := 0, 0
		r.OnTrace = func(seq int, raw tracing.ITrace) {
			if tt, ok := tracing.Unwrap(raw).(bpmn.TaskTrace); ok {
				issued++
				go func() { tt.Do(); returned++ }()
			}
		}
		var w *drv.Wait
		r.AfterStart = func() { w = r.WaitComplete(nil) }
		r.StartAll()
		// round 1: the deliveries race with the start of the instance, the arming of the
		// listeners, the activation of the host and its answer; round 2: once more at quiescence
		sent, back := 0, 0
		for round := 0; round < 2; round++ {
			for _, x := range deliver {
				x := x
				sent++
				go func() { r.Signal(x); back++ }()
			}
			verifrt.WaitIdle()
		}
		if back != sent {
			h.Fail(sig+"/consume-returns", "%d of %d ConsumeEvent calls returned; live %v", back, sent, verifrt.LiveRepoGoroutines())
			return
		}
		if returned != issued {
			h.Fail(sig+"/do-returns", "%d of %d Do calls returned", returned, issued)
			return
		}
		ids := map[string]int{}
		for _, t := range r.Tasks {
			ids[t.ID]++
		}
		switch kind {
		case "event-gateway":
			if len(r.Tasks) != 1 {
				h.Fail(sig+"/outcome-allowed", "event-based gateway: tasks requested %v, exactly one branch may continue", ids)
				return
			}
		case "parallel-catch":
			if ids["tA"] != 1 || ids["tB"] != 1 {
				h.Fail(sig+"/outcome-allowed", "both catch events were delivered their event: tasks requested %v", ids)
				return
			}
		case "boundary":
			// the interrupting event raced with the host's answer: either the exception path or the normal path
			if !(ids["tx"] == 1 && ids["tn"] == 0) && !(ids["tn"] == 1 && ids["tx"] == 0) {
				h.Fail(sig+"/outcome-allowed", "interrupting boundary vs answer: tasks requested %v, want exactly one of tx / tn", ids)
				return
			}
		}
		if kind != "boundary" && (w == nil || !w.Returned || !w.Result) {
			h.Fail(sig+"/outcome-allowed", "the instance did not complete (tasks %v)", ids)
		}
	}
}

func init() {
	h.Register("C17", func(tier string) ([]*h.Scn, []*h.Plain) {
		var out []*h.Scn
		thorough := tier == "thorough"
		progs := map[string]*drv.Block{
			"task": drv.T(), "seq": drv.Seq(drv.T(), drv.T()), "par": drv.Par(drv.T(), drv.T()), "xor": drv.Xor(1, drv.T(), drv.E()),
			"incl": drv.Incl(1, drv.T(), drv.T()), "loop": drv.LoopB(drv.T()), "sub": drv.SubB(drv.T()), "side": drv.Side(),
			"par-sub": drv.Par(drv.SubB(drv.T()), drv.T()), "xor-par": drv.Xor(1, drv.Par(drv.T(), drv.T()), drv.T()),
			"par-xor": drv.Par(drv.Xor(1, drv.T(), drv.E()), drv.Xor(1, drv.T(), drv.E())), "par-incl": drv.Par(drv.Incl(1, drv.T(), drv.T()), drv.T()),
		}
		var names []string
		for n := range progs {
			names = append(names, n)
		}
		sort.Strings(names)
		bounds := []int{0}
		if thorough {
			bounds = []int{0, 1}
		}
		for _, d := range bounds {
			for _, n := range names {
				sc := &h.Scn{Name: fmt.Sprintf("C17/program/%s/d%d", n, d), Body: programBody(n, progs[n]), Opts: verifrt.Options{Bound: d, UseCache: true}}
				sc.Weight = 10 * (1 + 300*d)
				if d >= 1 {
					sc.Split = 16
				}
				out = append(out, sc)
			}
			for _, k := range []string{"event-gateway", "parallel-catch", "boundary"} {
				sc := &h.Scn{Name: fmt.Sprintf("C17/%s/d%d", k, d), Body: eventBody(k), Opts: verifrt.Options{Bound: d, UseCache: true}}
				sc.Weight = 10 * (1 + 300*d)
				if d >= 1 {
					sc.Split = 16
				}
				out = append(out, sc)
			}
		}
		more := map[string]func() func(){"cancel": cancelBody, "timer": timerBody, "data": dataBody, "process-set": setBody}
		for _, k := range []string{"cancel", "data", "process-set", "timer"} {
			for _, d := range bounds {
				sc := &h.Scn{Name: fmt.Sprintf("C17/%s/d%d", k, d), Body: more[k](), Opts: verifrt.Options{Bound: d, UseCache: true}}
				sc.Weight = 10 * (1 + 300*d)
				if d >= 1 {
					sc.Split = 16
				}
				out = append(out, sc)
			}
		}
		if !thorough {
			// one deviation on the two smallest programs also in the quick tier
			for _, n := range []string{"task", "par"} {
				sc := &h.Scn{Name: fmt.Sprintf("C17/program/%s/d1", n), Body: programBody(n, progs[n]), Opts: verifrt.Options{Bound: 1, UseCache: true}, Weight: 5000, Split: 8}
				out = append(out, sc)
			}
			out = append(out, &h.Scn{Name: "C17/event-gateway/d1", Body: eventBody("event-gateway"), Opts: verifrt.Options{Bound: 1, UseCache: true}, Weight: 5000, Split: 8})
		}
		return out, nil
	})
}
