package c17

import (
	"context"
	"fmt"
	"time"

	"github.com/olive-io/bpmn/schema"
	bpmn "github.com/olive-io/bpmn/v2"
	"github.com/olive-io/bpmn/v2/pkg/data"
	"github.com/olive-io/bpmn/v2/pkg/tracing"
	"github.com/olive-io/bpmn/v2/verifrt"

	"verif/harness/c08"
	"verif/harness/drv"
	"verif/harness/h"
)

// cancelBody: a running instance (parallel branches, a sub-process, a listening catch event) is
// cancelled from its own goroutine while tasks are answered, an event is delivered, variables
// are read and two callers wait. Oracle: the race detector, no panic, every call returns.
func cancelBody() func() {
	g := drv.NewGraph("c17_cancel")
	s, f, j, e := g.Add(drv.Start, "start"), g.Add(drv.AND, "F"), g.Add(drv.AND, "J"), g.Add(drv.End, "end")
	t1, t2 := g.Add(drv.Task, "t1"), g.Add(drv.Task, "t2")
	sp := g.AddSub("sp")
	is, it, ie := sp.Inner.Add(drv.Start, "sp_start"), sp.Inner.Add(drv.Task, "t3"), sp.Inner.Add(drv.End, "sp_end")
	sp.Inner.Link(is, it, nil)
	sp.Inner.Link(it, ie, nil)
	c := g.Add(drv.Catch, "cA")
	c.Defs = []drv.EventDef{{Kind: "signal", Ref: "A"}}
	g.Link(s, f, nil)
	g.Link(f, t1, nil)
	g.Link(f, sp, nil)
	g.Link(f, c, nil)
	g.Link(t1, j, nil)
	g.Link(sp, j, nil)
	g.Link(c, t2, nil)
	g.Link(t2, j, nil)
	g.Link(j, e, nil)
	defs := g.Parse()
	return func() {
		sig := "C17/cancel"
		// the cancellation is issued after k traces have been received (E)
		k := []int{3, 9, 15, 24}[verifrt.Choose(4)]
		r := drv.Open(g, defs, drv.OpenOpts{SubCap: 1})
		issued, returned := 0, 0
		cancelled := false
		r.OnTrace = func(seq int, raw tracing.ITrace) {
			if tt, ok := tracing.Unwrap(raw).(bpmn.TaskTrace); ok {
				issued++
				go func() { tt.Do(); returned++ }()
			}
			if seq+1 == k && !cancelled {
				cancelled = true
				go r.Cancel()
			}
		}
		var w1, w2 *drv.Wait
		r.AfterStart = func() {
			w1 = r.WaitComplete(nil)
			w2 = r.WaitComplete(r.Ctx)
		}
		r.StartAll()
		back := 0
		go func() { r.Signal("A"); back++ }()
		go func() {
			for i := 0; i < 2; i++ {
				_ = r.P.Locator().CloneVariables()
			}
		}()
		verifrt.WaitIdle()
		if !cancelled {
			r.Cancel()
			verifrt.WaitIdle()
		}
		if back != 1 {
			h.Fail(sig+"/consume-returns", "ConsumeEvent has not returned; live %v", verifrt.LiveRepoGoroutines())
			return
		}
		if returned != issued {
			h.Fail(sig+"/do-returns", "%d of %d Do calls returned", returned, issued)
			return
		}
		if !r.StartReturned || w1 == nil || !w2.Returned {
			h.Fail(sig+"/calls-return", "StartAll returned %v, waiter with the instance's context returned %v", r.StartReturned, w2 != nil && w2.Returned)
		}
	}
}

// timerBody: a timer catch event; the clock is moved from two goroutines while the instance
// starts (the timer goroutine hands its event to the fan-out and from there to the instance).
func timerBody() func() {
	g := drv.NewGraph("c17_timer")
	s, c, t, e := g.Add(drv.Start, "start"), g.Add(drv.Catch, "cT"), g.Add(drv.Task, "t"), g.Add(drv.End, "end")
	c.Defs = []drv.EventDef{{Kind: "timer", Sub: "timeCycle", Ref: "R3/PT1H"}}
	g.Link(s, c, nil)
	g.Link(c, t, nil)
	g.Link(t, e, nil)
	defs := g.Parse()
	return func() {
		sig := "C17/timer"
		r := drv.Open(g, defs, drv.OpenOpts{SubCap: 1, Timer: true})
		issued, returned := 0, 0
		r.OnTrace = func(seq int, raw tracing.ITrace) {
			if tt, ok := tracing.Unwrap(raw).(bpmn.TaskTrace); ok {
				issued++
				go func() { tt.Do(); returned++ }()
			}
		}
		var w *drv.Wait
		r.AfterStart = func() { w = r.WaitComplete(nil) }
		r.StartAll()
		moved := 0
		for i := 0; i < 2; i++ {
			go func() { r.Clock.Add(time.Hour); moved++ }()
		}
		verifrt.WaitIdle()
		// the catch event listens by now: one more firing lets the token continue if none did
		r.Clock.Add(time.Hour)
		verifrt.WaitIdle()
		if moved != 2 || returned != issued {
			h.Fail(sig+"/calls-return", "%d of 2 clock moves returned, %d of %d Do calls returned", moved, returned, issued)
			return
		}
		if issued != 1 {
			h.Fail(sig+"/outcome-allowed", "the task behind the timer catch event was requested %d times after three firings, want 1", issued)
			return
		}
		if w == nil || !w.Returned || !w.Result {
			h.Fail(sig+"/outcome-allowed", "the instance did not complete")
		}
	}
}

// dataBody: the producing task's answer stores data outputs while another goroutine reads the
// instance's data objects and variables.
func dataBody() func() {
	defs, err := schema.Parse([]byte(c08.DataOutDoc))
	if err != nil {
		panic(err)
	}
	return func() {
		sig := "C17/data"
		r := drv.Open(nil, defs, drv.OpenOpts{SubCap: 1})
		issued, returned := 0, 0
		r.OnTrace = func(seq int, raw tracing.ITrace) {
			if tt, ok := tracing.Unwrap(raw).(bpmn.TaskTrace); ok {
				issued++
				go func() {
					_ = tt.GetDataObjects()
					tt.Do(bpmn.DoWithObjects(map[string]any{"out": map[string]any{"a": "cc"}, "extra": map[string]any{"k": "v"}}))
					returned++
				}()
			}
		}
		var w *drv.Wait
		r.AfterStart = func() { w = r.WaitComplete(nil) }
		r.StartAll()
		go func() {
			for i := 0; i < 3; i++ {
				for _, it := range r.P.Locator().CloneItems(data.LocatorObject) {
					if it != nil {
						_ = it.Value()
					}
				}
				_ = r.P.Locator().CloneVariables()
			}
		}()
		verifrt.WaitIdle()
		if returned != issued || issued != 2 {
			h.Fail(sig+"/outcome-allowed", "%d task requests, %d answers returned, want 2 and 2", issued, returned)
			return
		}
		if w == nil || !w.Returned || !w.Result {
			h.Fail(sig+"/outcome-allowed", "the instance did not complete")
			return
		}
		if len(r.Completed) != 1 || r.Completed[0] != "endSeen" {
			h.Fail(sig+"/outcome-allowed", "end events %v, want [endSeen] (the condition reads the stored data object)", r.Completed)
		}
	}
}

// setBody: a process set of two executable processes and one instantiated by a throw event;
// answers from their own goroutines, two concurrent waits, a second subscriber.
func setBody() func() {
	s := &drv.Set{ID: "c17set", Waiting: map[string]bool{"w1": true}}
	mk := func(id string, nodes ...[2]string) *drv.Graph {
		g := drv.NewGraph(id)
		var prev *drv.Node
		for _, kv := range nodes {
			var n *drv.Node
			switch kv[0] {
			case "s":
				n = g.Add(drv.Start, kv[1])
			case "e":
				n = g.Add(drv.End, kv[1])
			case "t":
				n = g.Add(drv.Task, kv[1])
			case "th":
				n = g.Add(drv.Throw, kv[1])
				n.Defs = []drv.EventDef{{Kind: "message", Ref: "m"}}
			case "ms":
				n = g.Add(drv.Start, kv[1])
				n.Defs = []drv.EventDef{{Kind: "message", Ref: "m"}}
			}
			if prev != nil {
				g.Link(prev, n, nil)
			}
			prev = n
		}
		return g
	}
	s.Procs = []*drv.Graph{
		mk("p1", [2]string{"s", "s1"}, [2]string{"t", "t1"}, [2]string{"th", "th1"}, [2]string{"e", "e1"}),
		mk("p2", [2]string{"s", "s2"}, [2]string{"t", "t2"}, [2]string{"e", "e2"}),
		mk("w1", [2]string{"ms", "ws"}, [2]string{"t", "tw"}, [2]string{"e", "ew"}),
	}
	s.MessageFlows = [][2]string{{"th1", "ws"}}
	defs := s.Parse()
	return func() {
		sig := "C17/process-set"
		ctx, cancel := context.WithCancel(context.Background())
		defer cancel()
		ps, err := bpmn.NewEngine(bpmn.WithEngineContext(ctx)).NewProcessSet(defs, bpmn.WithContext(ctx), bpmn.WithIdGenerator(drv.NewCounterGen("i")))
		if err != nil {
			panic(err)
		}
		sub := ps.Tracer().SubscribeChannel(make(chan tracing.ITrace, 1))
		issued, returned, cease := 0, 0, 0
		go func() {
			for raw := range sub {
				switch t := tracing.Unwrap(raw).(type) {
				case bpmn.TaskTrace:
					issued++
					go func() { t.Do(); returned++ }()
				case bpmn.CeaseProcessSetTrace:
					cease++
				}
			}
		}()
		go func() {
			ch := ps.Tracer().SubscribeChannel(make(chan tracing.ITrace, 2))
			for i := 0; i < 3; i++ {
				if _, ok := <-ch; !ok {
					return
				}
			}
			ps.Tracer().Unsubscribe(ch)
		}()
		waits := 0
		started := false
		go func() {
			if err := ps.StartAll(ctx); err != nil {
				h.Fail(sig+"/start-error", "StartAll: %v", err)
			}
			started = true
			for i := 0; i < 2; i++ {
				go func() {
					if ps.WaitUntilComplete(ctx) {
						waits++
					}
				}()
			}
		}()
		verifrt.WaitIdle()
		if !started || returned != issued {
			h.Fail(sig+"/calls-return", "StartAll returned %v, %d of %d Do calls returned; live %v", started, returned, issued, verifrt.LiveRepoGoroutines())
			return
		}
		if issued != 3 || waits != 2 || cease != 1 {
			h.Fail(sig+"/outcome-allowed", fmt.Sprintf("%d task requests (want 3), %d of 2 waits returned true, %d cease-process-set traces (want 1)", issued, waits, cease))
		}
	}
}
