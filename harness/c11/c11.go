// Package c11: events reach every listening catch event exactly once and delivery never blocks.
package c11

import (
	"fmt"

	"github.com/olive-io/bpmn/v2/verifrt"

	"verif/harness/drv"
	"verif/harness/h"
)

func sig(ref string) drv.EventDef { return drv.EventDef{Kind: "signal", Ref: ref} }
func msg(ref string) drv.EventDef { return drv.EventDef{Kind: "message", Ref: ref} }

func catch(g *drv.Graph, id string, d drv.EventDef) *drv.Node {
	n := g.Add(drv.Catch, id)
	n.Defs = []drv.EventDef{d}
	return n
}

type shape struct {
	name   string
	build  func(ev func(string) drv.EventDef) *drv.Graph
	events []string // alphabet refs (the last one matches nothing)
}

func shapes() []shape {
	return []shape{
		{"one", func(ev func(string) drv.EventDef) *drv.Graph {
			g := drv.NewGraph("c11one")
			s, c, t, e := g.Add(drv.Start, "start"), catch(g, "ca", ev("A")), g.Add(drv.Task, "ta"), g.Add(drv.End, "end")
			g.Link(s, c, nil)
			g.Link(c, t, nil)
			g.Link(t, e, nil)
			return g
		}, []string{"A", "X"}},
		{"seq", func(ev func(string) drv.EventDef) *drv.Graph {
			g := drv.NewGraph("c11seq")
			s, ca, ta, cb, tb, e := g.Add(drv.Start, "start"), catch(g, "ca", ev("A")), g.Add(drv.Task, "ta"), catch(g, "cb", ev("B")), g.Add(drv.Task, "tb"), g.Add(drv.End, "end")
			g.Link(s, ca, nil)
			g.Link(ca, ta, nil)
			g.Link(ta, cb, nil)
			g.Link(cb, tb, nil)
			g.Link(tb, e, nil)
			return g
		}, []string{"A", "B", "X"}},
		{"par", func(ev func(string) drv.EventDef) *drv.Graph {
			g := drv.NewGraph("c11par")
			s, f, j, e := g.Add(drv.Start, "start"), g.Add(drv.AND, "F"), g.Add(drv.AND, "J"), g.Add(drv.End, "end")
			ca, ta, cb, tb := catch(g, "ca", ev("A")), g.Add(drv.Task, "ta"), catch(g, "cb", ev("B")), g.Add(drv.Task, "tb")
			g.Link(s, f, nil)
			g.Link(f, ca, nil)
			g.Link(ca, ta, nil)
			g.Link(ta, j, nil)
			g.Link(f, cb, nil)
			g.Link(cb, tb, nil)
			g.Link(tb, j, nil)
			g.Link(j, e, nil)
			return g
		}, []string{"A", "B", "X"}},
		{"same", func(ev func(string) drv.EventDef) *drv.Graph {
			// two catch events listening for the same event in parallel
			g := drv.NewGraph("c11same")
			s, f, e1, e2 := g.Add(drv.Start, "start"), g.Add(drv.AND, "F"), g.Add(drv.End, "end1"), g.Add(drv.End, "end2")
			c1, t1, c2, t2 := catch(g, "c1", ev("A")), g.Add(drv.Task, "t1"), catch(g, "c2", ev("A")), g.Add(drv.Task, "t2")
			g.Link(s, f, nil)
			g.Link(f, c1, nil)
			g.Link(c1, t1, nil)
			g.Link(t1, e1, nil)
			g.Link(f, c2, nil)
			g.Link(c2, t2, nil)
			g.Link(t2, e2, nil)
			return g
		}, []string{"A", "X"}},
		{"untaken", func(ev func(string) drv.EventDef) *drv.Graph {
			// a catch event on a branch that is never taken
			g := drv.NewGraph("c11untaken")
			s, x, t0, e := g.Add(drv.Start, "start"), g.Add(drv.XOR, "X"), g.Add(drv.Task, "t0"), g.Add(drv.End, "end")
			cc, tc, ec := catch(g, "cc", ev("C")), g.Add(drv.Task, "tc"), g.Add(drv.End, "endc")
			g.Link(s, x, nil)
			g.Link(x, cc, drv.Const(false))
			g.LinkDefault(x, t0)
			g.Link(cc, tc, nil)
			g.Link(tc, ec, nil)
			g.Link(t0, e, nil)
			return g
		}, []string{"C", "X"}},
		{"throw-unreached", func(ev func(string) drv.EventDef) *drv.Graph {
			// an intermediate throw event (with an event definition) behind a task: it is registered
			// as an event consumer although its loop only starts when a token reaches it
			g := drv.NewGraph("c11throw")
			s, t0, th, t1, e := g.Add(drv.Start, "start"), g.Add(drv.Task, "t0"), g.Add(drv.Throw, "th"), g.Add(drv.Task, "t1"), g.Add(drv.End, "end")
			th.Defs = []drv.EventDef{ev("T")}
			g.Link(s, t0, nil)
			g.Link(t0, th, nil)
			g.Link(th, t1, nil)
			g.Link(t1, e, nil)
			return g
		}, []string{"A", "X"}},
		{"sub-unentered", func(ev func(string) drv.EventDef) *drv.Graph {
			// a catch event inside a sub-process that is entered late
			g := drv.NewGraph("c11sub")
			s, t0, e := g.Add(drv.Start, "start"), g.Add(drv.Task, "t0"), g.Add(drv.End, "end")
			sp := g.AddSub("sp")
			is, ic, it, ie := sp.Inner.Add(drv.Start, "sp_start"), catch(sp.Inner, "ca", ev("A")), sp.Inner.Add(drv.Task, "ta"), sp.Inner.Add(drv.End, "sp_end")
			sp.Inner.Link(is, ic, nil)
			sp.Inner.Link(ic, it, nil)
			sp.Inner.Link(it, ie, nil)
			g.Link(s, t0, nil)
			g.Link(t0, sp, nil)
			g.Link(sp, e, nil)
			return g
		}, []string{"A", "X"}},
		{"operation", func(ev func(string) drv.EventDef) *drv.Graph {
			// two catch events on the same message, one bound to an operation, one not: a
			// message matches a definition when both name the same operation or neither names one
			// (for signals the suffix is just part of the name)
			g := drv.NewGraph("c11op")
			s, f, e1, e2 := g.Add(drv.Start, "start"), g.Add(drv.AND, "F"), g.Add(drv.End, "end1"), g.Add(drv.End, "end2")
			c1, t1, c2, t2 := catch(g, "cop", ev("m#op")), g.Add(drv.Task, "top"), catch(g, "cplain", ev("m")), g.Add(drv.Task, "tplain")
			g.Link(s, f, nil)
			g.Link(f, c1, nil)
			g.Link(c1, t1, nil)
			g.Link(t1, e1, nil)
			g.Link(f, c2, nil)
			g.Link(c2, t2, nil)
			g.Link(t2, e2, nil)
			return g
		}, []string{"m", "m#op", "m#other"}},
		{"behind", func(ev func(string) drv.EventDef) *drv.Graph {
			// a catch event behind a task that is answered late
			g := drv.NewGraph("c11behind")
			s, t0, ca, ta, e := g.Add(drv.Start, "start"), g.Add(drv.Task, "t0"), catch(g, "ca", ev("A")), g.Add(drv.Task, "ta"), g.Add(drv.End, "end")
			g.Link(s, t0, nil)
			g.Link(t0, ca, nil)
			g.Link(ca, ta, nil)
			g.Link(ta, e, nil)
			return g
		}, []string{"A", "X"}},
	}
}

// burst: while the catch event is listening, n non-matching events followed by the matching one
// are delivered without waiting in between, from one goroutine (back-to-back) or each from its
// own goroutine. Every delivery must return and the listener must continue exactly once.
func burstBody(kind string, maxNoise int, perGoroutine bool) func() {
	ev := sig
	if kind == "message" {
		ev = msg
	}
	sh := shapes()[0]
	g := sh.build(ev)
	defs := g.Parse()
	return func() {
		n := verifrt.Choose(maxNoise + 1)
		r := drv.Open(g, defs, drv.OpenOpts{})
		var w *drv.Wait
		r.AfterStart = func() { w = r.WaitComplete(nil) }
		r.StartAll()
		verifrt.WaitIdle()
		if r.Listening["ca"] != 1 {
			h.Fail("C11/burst/listening", "the catch event is not listening after start")
			return
		}
		returned := 0
		send := func(ref string) {
			if kind == "message" {
				r.Message(ref)
			} else {
				r.Signal(ref)
			}
			returned++
		}
		if perGoroutine {
			for i := 0; i < n; i++ {
				go send("X")
			}
			go send("A")
		} else {
			go func() {
				for i := 0; i < n; i++ {
					send("X")
				}
				send("A")
			}()
		}
		verifrt.WaitIdle()
		if returned != n+1 {
			h.Fail("C11/burst/consume-returns", "%d of %d ConsumeEvent calls returned (burst of %d non-matching events then the matching one); live: %v", returned, n+1, n, verifrt.LiveRepoGoroutines())
			return
		}
		if got := r.Requests("ta"); got != 1 {
			clause := "does-not-continue"
			if got > 1 {
				clause = "continues-too-often"
			}
			h.Fail("C11/burst/"+clause, "after %d non-matching events and the matching one delivered in a burst, the task after the catch event was requested %d times (events observed by the node: %d)", n, got, r.Observed["ca"])
			return
		}
		r.Answer(r.Pending("ta"))
		verifrt.WaitIdle()
		if w == nil || !w.Returned || !w.Result {
			h.Fail("C11/burst/completes", "the instance does not complete after the burst")
		}
	}
}

// arrival: the token's arrival at the catch event races the deliveries. In the "behind" shape
// the answer to t0 and n deliveries of the matching event are issued from separate goroutines
// (or back-to-back) without waiting for quiescence. Whether a delivery finds the catch event
// listening depends on the interleaving, so only the clauses that hold for every interleaving
// are checked: every call returns, the catch event continues at most once (one token), and if
// it has not continued a further delivery at quiescence makes it continue exactly once.
func arrivalBody(kind string, maxEvents int, mode string) func() {
	ev := sig
	if kind == "message" {
		ev = msg
	}
	var sh shape
	for _, x := range shapes() {
		if x.name == "behind" {
			sh = x
		}
	}
	g := sh.build(ev)
	defs := g.Parse()
	return func() {
		n := 1 + verifrt.Choose(maxEvents)
		r := drv.Open(g, defs, drv.OpenOpts{})
		var w *drv.Wait
		r.AfterStart = func() { w = r.WaitComplete(nil) }
		r.StartAll()
		verifrt.WaitIdle()
		p := r.Pending("t0")
		if p == nil {
			h.Fail("C11/arrival/first-task", "t0 is not pending after the start")
			return
		}
		returned, answered := 0, false
		send := func(ref string) {
			if kind == "message" {
				r.Message(ref)
			} else {
				r.Signal(ref)
			}
			returned++
		}
		switch mode {
		case "concurrent":
			go func() { r.Answer(p); answered = true }()
			for i := 0; i < n; i++ {
				go send("A")
			}
		case "answer-first":
			go func() {
				r.Answer(p)
				answered = true
				for i := 0; i < n; i++ {
					send("A")
				}
			}()
		case "deliver-first":
			// every delivery has returned before t0 is even answered: nothing listened while any
			// of them was being delivered (seed c11-5: deliveries queued inside the instance)
			go func() {
				for i := 0; i < n; i++ {
					send("A")
				}
				r.Answer(p)
				answered = true
			}()
		}
		verifrt.WaitIdle()
		if mode == "deliver-first" && returned == n && r.Requests("ta") != 0 {
			h.Fail("C11/arrival/early-delivery-taken", "%d matching events were delivered, each call returning before the task in front of the catch event was answered; the catch event nevertheless continued (the task behind it was requested %d times)", n, r.Requests("ta"))
			return
		}
		if returned != n || !answered {
			h.Fail("C11/arrival/consume-returns", "%d of %d ConsumeEvent calls returned, Do returned %v (%s); live: %v", returned, n, answered, mode, verifrt.LiveRepoGoroutines())
			return
		}
		got := r.Requests("ta")
		if got > 1 {
			h.Fail("C11/arrival/continues-too-often", "one token reached the catch event while %d matching events were delivered (%s): the task behind it was requested %d times", n, mode, got)
			return
		}
		if r.Listening["ca"] < 1 {
			h.Fail("C11/arrival/listening", "the catch event never reported listening after t0 was answered")
			return
		}
		if got == 0 {
			// every delivery came too early: the listener must still be armed
			go send("A")
			verifrt.WaitIdle()
			if returned != n+1 {
				h.Fail("C11/arrival/consume-returns", "a delivery at quiescence after the race has not returned; live: %v", verifrt.LiveRepoGoroutines())
				return
			}
			if got = r.Requests("ta"); got != 1 {
				h.Fail("C11/arrival/does-not-continue", "no delivery of the race (%d events, %s) was taken, and a further delivery while the catch event listens leaves the task behind it requested %d times", n, mode, got)
				return
			}
		}
		// the token is past the catch event: further deliveries have no effect
		go send("A")
		verifrt.WaitIdle()
		if r.Requests("ta") != 1 {
			h.Fail("C11/arrival/continues-too-often", "a delivery after the catch event had continued produced another request")
			return
		}
		r.Answer(r.Pending("ta"))
		verifrt.WaitIdle()
		if w == nil || !w.Returned || !w.Result {
			h.Fail("C11/arrival/completes", "the instance does not complete after the race (%d events, %s)", n, mode)
		}
		if len(r.Grammar) > 0 {
			h.Fail("C09/engine/causal-order", "%s", r.Grammar[0])
		}
	}
}

// cancelRace: deliveries overlap the cancellation of the instance. A listening catch event;
// the context is cancelled from one goroutine while another hands over n events back-to-back
// (more than a start event's inbox holds). Every delivery returns, whatever the node loops have
// or have not done about the cancellation yet.
func cancelRaceBody(kind string, n int) func() {
	ev := sig
	if kind == "message" {
		ev = msg
	}
	g := shapes()[0].build(ev)
	defs := g.Parse()
	return func() {
		order := verifrt.Choose(2)
		r := drv.Open(g, defs, drv.OpenOpts{})
		r.StartAll()
		verifrt.WaitIdle()
		if r.Listening["ca"] != 1 {
			h.Fail("C11/cancel-race/listening", "the catch event is not listening after start")
			return
		}
		returned := 0
		deliver := func() {
			for i := 0; i < n; i++ {
				if kind == "message" {
					r.Message("X")
				} else {
					r.Signal("X")
				}
				returned++
			}
		}
		if order == 0 {
			go r.Cancel()
			go deliver()
		} else {
			go deliver()
			go r.Cancel()
		}
		verifrt.WaitIdle()
		if returned != n {
			h.Fail("C11/cancel-race/consume-returns", "%d of %d ConsumeEvent calls returned while the instance was being cancelled; callers blocked: %v", returned, n, verifrt.LiveEnvGoroutines())
		}
	}
}

// staggered: two tokens use the same catch event, one after the other. Token A listens; the
// matching event and the arrival of token B (the answer to the task in front of it) are issued
// at once. Whether B is in time for that delivery depends on the interleaving; either way each
// token continues exactly once: after the race one or two requests of the task behind the catch
// event, and if one, a further delivery while B listens brings the second.
func StaggeredBody(kind string, deliver func(r *drv.Run), def drv.EventDef, timer bool) func() {
	g := drv.NewGraph("c11stag_" + kind)
	s, f, c, t0, ta, e := g.Add(drv.Start, "start"), g.Add(drv.AND, "F"), g.Add(drv.Catch, "ca"), g.Add(drv.Task, "t0"), g.Add(drv.Task, "ta"), g.Add(drv.End, "end")
	c.Defs = []drv.EventDef{def}
	g.Link(s, f, nil)
	g.Link(f, c, nil)
	g.Link(f, t0, nil)
	g.Link(t0, c, nil)
	g.Link(c, ta, nil)
	g.Link(ta, e, nil)
	defs := g.Parse()
	return func() {
		sig := "C11/staggered"
		if timer {
			sig = "C13/staggered"
		}
		r := drv.Open(g, defs, drv.OpenOpts{Timer: timer})
		var w *drv.Wait
		r.AfterStart = func() { w = r.WaitComplete(nil) }
		r.StartAll()
		verifrt.WaitIdle()
		p := r.Pending("t0")
		if p == nil || r.Listening["ca"] < 1 {
			h.Fail(sig+"/listening", "after the start: t0 pending %v, catch event listening %d times", p != nil, r.Listening["ca"])
			return
		}
		returned := 0
		order := verifrt.Choose(2)
		fire := func() { deliver(r); returned++ }
		answer := func() { r.Answer(p); returned++ }
		if order == 0 {
			go fire()
			go answer()
		} else {
			go answer()
			go fire()
		}
		verifrt.WaitIdle()
		if returned != 2 {
			h.Fail(sig+"/calls-return", "%d of 2 calls (delivery, answer) returned; blocked: %v", returned, verifrt.LiveEnvGoroutines())
			return
		}
		n := r.Requests("ta")
		if n < 1 || n > 2 {
			h.Fail(sig+"/continues", "token A was listening when the event was delivered and token B arrived at the same time: the task behind the catch event was requested %d times, want 1 or 2", n)
			return
		}
		for extra := 0; n < 2 && extra < 2; extra++ {
			// B is listening now: the next delivery is for it
			go fire()
			returned--
			verifrt.WaitIdle()
			if returned != 2 {
				h.Fail(sig+"/calls-return", "a delivery at quiescence has not returned; blocked: %v", verifrt.LiveEnvGoroutines())
				return
			}
			n = r.Requests("ta")
			if n > 2 {
				h.Fail(sig+"/continues-too-often", "two tokens, the task behind the catch event was requested %d times", n)
				return
			}
			if !timer {
				break
			}
		}
		if n != 2 {
			h.Fail(sig+"/does-not-continue", "token B reached the catch event while a delivery for token A was in progress; it was announced as listening (%d announcements) but a later delivery does not let it continue: the task behind the catch event was requested %d times, want 2", r.Listening["ca"], n)
			return
		}
		for i := 0; i < 2; i++ {
			if q := r.Pending("ta"); q != nil {
				r.Answer(q)
				verifrt.WaitIdle()
			}
		}
		if w == nil || !w.Returned || !w.Result {
			h.Fail(sig+"/completes", "both tokens are through but the instance has not completed")
		}
	}
}

func init() {
	h.Register("C11", func(tier string) ([]*h.Scn, []*h.Plain) {
		var out []*h.Scn
		thorough := tier == "thorough"
		maxEv := 5
		if thorough {
			maxEv = 8
		}
		for _, sh := range shapes() {
			for _, kind := range []string{"signal", "message"} {
				ev := sig
				if kind == "message" {
					ev = msg
				}
				g := sh.build(ev)
				defs := g.Parse()
				var alphabet []drv.EventDef
				for _, r := range sh.events {
					alphabet = append(alphabet, ev(r))
				}
				for _, d := range []int{0, 1} {
					if d == 1 && !thorough && kind == "message" && sh.name != "operation" {
						continue // messages take the same path as signals up to the matching rule
					}
					n := maxEv
					if d == 1 {
						n = 3
						if thorough {
							n = 4
						}
					}
					if len(alphabet) == 3 && n > 5 {
						n = 6
					}
					if sh.name == "operation" && !thorough {
						n = 4 - 2*d
					}
					el := &drv.EventLock{Sig: "C11/" + sh.name, G: g, Defs: defs, Events: alphabet, MaxEvents: n}
					sc := &h.Scn{Name: fmt.Sprintf("C11/%s/%s/events<=%d/d%d", sh.name, kind, n, d), Body: el.Body(), Opts: verifrt.Options{Bound: d, UseCache: true}}
					sc.Weight = n * n * (1 + 100*d)
					if d == 1 {
						sc.Split = 8
					}
					out = append(out, sc)
				}
			}
		}
		for _, kind := range []string{"signal", "message"} {
			for _, per := range []bool{false, true} {
				mode := "back-to-back"
				if per {
					mode = "concurrent"
				}
				for _, d := range []int{0, 1} {
					if d == 1 && kind == "message" && !thorough {
						continue
					}
					sc := &h.Scn{Name: fmt.Sprintf("C11/burst/%s/%s/noise<=7/d%d", kind, mode, d), Body: burstBody(kind, 7, per), Opts: verifrt.Options{Bound: d, UseCache: true}}
					sc.Weight = 8 * (1 + 100*d)
					if d == 1 {
						sc.Split = 4
					}
					out = append(out, sc)
				}
			}
		}
		for _, kind := range []string{"signal", "message"} {
			for _, mode := range []string{"concurrent", "answer-first", "deliver-first"} {
				bounds := []int{0, 1}
				if thorough {
					bounds = append(bounds, 2)
				}
				for _, d := range bounds {
					if d >= 1 && kind == "message" && !thorough {
						continue
					}
					sc := &h.Scn{Name: fmt.Sprintf("C11/arrival/%s/%s/events<=3/d%d", kind, mode, d), Body: arrivalBody(kind, 3, mode), Opts: verifrt.Options{Bound: d, UseCache: true}}
					sc.Weight = 3 * (1 + 100*d*d)
					if d >= 1 {
						sc.Split = 4 * d
					}
					out = append(out, sc)
				}
			}
		}
		for _, kind := range []string{"signal", "message"} {
			kind := kind
			deliver := func(r *drv.Run) {
				if kind == "message" {
					r.Message("A")
				} else {
					r.Signal("A")
				}
			}
			ev := sig
			if kind == "message" {
				ev = msg
			}
			bounds := []int{0, 1}
			if thorough {
				bounds = append(bounds, 2)
			}
			for _, d := range bounds {
				if d >= 1 && kind == "message" && !thorough {
					continue
				}
				sc := &h.Scn{Name: fmt.Sprintf("C11/staggered/%s/d%d", kind, d), Body: StaggeredBody(kind, deliver, ev("A"), false), Opts: verifrt.Options{Bound: d, UseCache: true}}
				sc.Weight = 4 * (1 + 300*d*d)
				if d >= 1 {
					sc.Split = 4 * d
				}
				out = append(out, sc)
			}
		}
		for _, kind := range []string{"signal", "message"} {
			bounds := []int{0, 1}
			if thorough {
				bounds = append(bounds, 2)
			}
			for _, d := range bounds {
				if d >= 1 && kind == "message" && !thorough {
					continue
				}
				sc := &h.Scn{Name: fmt.Sprintf("C11/cancel-race/%s/events6/d%d", kind, d), Body: cancelRaceBody(kind, 6), Opts: verifrt.Options{Bound: d, UseCache: true}}
				sc.Weight = 6 * (1 + 100*d*d)
				if d >= 1 {
					sc.Split = 4 * d
				}
				out = append(out, sc)
			}
		}
		return out, nil
	})
}
