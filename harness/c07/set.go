package c07

import (
	"context"
	"fmt"
	"strings"

	bpmn "github.com/olive-io/bpmn/v2"
	"github.com/olive-io/bpmn/v2/pkg/tracing"
	"github.com/olive-io/bpmn/v2/verifrt"

	"verif/harness/drv"
	"verif/harness/h"
)

// process sets: two executable processes (p1: start -> a1 -> throw -> n1 -> end, p2: start -> a2
// -> n2 -> end) and a waiting process instantiated by p1's throw event (ws -> a3 -> n3 -> end).
// Tasks "a…" are answered as soon as seen, "n…" never. The context handed to the engine and to
// the set is cancelled after k traces, before StartAll, or concurrently with it.
func setGraph() *drv.Set {
	s := &drv.Set{ID: "c07set", Waiting: map[string]bool{"w1": true}}
	mk := func(id string, nodes ...string) *drv.Graph {
		g := drv.NewGraph(id)
		var prev *drv.Node
		for _, kv := range nodes {
			p := strings.SplitN(kv, ":", 2)
			var n *drv.Node
			switch p[0] {
			case "s":
				n = g.Add(drv.Start, p[1])
			case "e":
				n = g.Add(drv.End, p[1])
			case "t":
				n = g.Add(drv.Task, p[1])
			case "th":
				n = g.Add(drv.Throw, p[1])
				n.Defs = []drv.EventDef{{Kind: "message", Ref: "m"}}
			case "ms":
				n = g.Add(drv.Start, p[1])
				n.Defs = []drv.EventDef{{Kind: "message", Ref: "m"}}
			}
			if prev != nil {
				g.Link(prev, n, nil)
			}
			prev = n
		}
		return g
	}
	s.Procs = []*drv.Graph{
		mk("p1", "s:s1", "t:a1", "th:th1", "t:n1", "e:e1"),
		mk("p2", "s:s2", "t:a2", "t:n2", "e:e2"),
		mk("w1", "ms:ws", "t:a3", "t:n3", "e:ew"),
	}
	s.MessageFlows = [][2]string{{"th1", "ws"}}
	return s
}

func setBody(maxK int) func() {
	defs := setGraph().Parse()
	return func() {
		sig := "C07/process-set"
		k := verifrt.Choose(maxK + 3)
		pre, conc := k == maxK+1, k == maxK+2
		ctx, cancel := context.WithCancel(context.Background())
		ps, err := bpmn.NewEngine(bpmn.WithEngineContext(ctx)).NewProcessSet(defs, bpmn.WithContext(ctx), bpmn.WithIdGenerator(drv.NewCounterGen("i")))
		if err != nil {
			panic(err)
		}
		sub := ps.Tracer().SubscribeChannel(make(chan tracing.ITrace, 1))
		cancelled, readerDone := false, false
		ntraces, issued, returned := 0, 0, 0
		cancelSeq := -1
		lateLive := ""
		go func() {
			for raw := range sub {
				seq := ntraces
				ntraces++
				if tt, ok := tracing.Unwrap(raw).(bpmn.TaskTrace); ok {
					id := ""
					if pid, ok := tt.GetActivity().Element().Id(); ok {
						id = *pid
					}
					if cancelled && cancelSeq >= 0 && seq > cancelSeq && tt.Context().Err() == nil {
						lateLive = id
					}
					if strings.HasPrefix(id, "a") && !cancelled {
						issued++
						go func() { tt.Do(); returned++ }()
					}
				}
				if seq+1 == k && !cancelled {
					cancelled, cancelSeq = true, seq
					cancel()
				}
			}
			readerDone = true
		}()
		started := false
		waited, waitReturned := false, false
		if pre {
			cancelled = true
			cancel()
		}
		go func() {
			_ = ps.StartAll(ctx)
			started = true
			if k == 0 && !cancelled {
				cancelled = true
				cancel()
			}
			waited = true
			ps.WaitUntilComplete(ctx)
			waitReturned = true
		}()
		if conc {
			cancelled = true
			go cancel()
		}
		verifrt.WaitIdle()
		if !cancelled {
			cancelled, cancelSeq = true, ntraces-1
			cancel()
			verifrt.WaitIdle()
		}
		where := fmt.Sprintf("cancel after %d traces (of %d received)", k, ntraces)
		if pre {
			where = "cancel before StartAll"
		}
		if conc {
			where = "cancel concurrently with StartAll"
		}
		if !started {
			h.Fail(sig+"/startall-returns", "%s: StartAll has not returned; callers: %v; live: %v", where, verifrt.LiveEnvGoroutines(), verifrt.LiveRepoGoroutines())
			return
		}
		if waited && !waitReturned {
			h.Fail(sig+"/wait-returns", "%s: ProcessSet.WaitUntilComplete has not returned; live: %v", where, verifrt.LiveRepoGoroutines())
			return
		}
		if returned != issued {
			h.Fail(sig+"/do-returns", "%s: %d of %d Do calls returned; callers: %v", where, returned, issued, verifrt.LiveEnvGoroutines())
			return
		}
		done := false
		select {
		case <-ps.Tracer().Done():
			done = true
		default:
		}
		if !done {
			h.Fail(sig+"/tracer-terminates", "%s: the set's tracer is not done; live: %v", where, verifrt.LiveRepoGoroutines())
			return
		}
		if !readerDone {
			h.Fail(sig+"/subscribers-closed", "%s: the subscriber channel was not closed", where)
			return
		}
		if lateLive != "" {
			h.Fail(sig+"/late-task-cancelled-context", "%s: TaskTrace(%s) after the cancel carries a live context", where, lateLive)
			return
		}
		if sp := verifrt.LiveSpinners(); len(sp) > 0 {
			h.Fail(sig+"/no-spinning", "%s: goroutines spinning on a closed channel: %v; live: %v", where, sp, verifrt.LiveRepoGoroutines())
			return
		}
		if live := verifrt.LiveRepoGoroutines(); len(live) > 0 {
			site := live[0]
			if i := strings.Index(site, "["); i >= 0 {
				site = site[i+1:]
			}
			if i := strings.Index(site, ":"); i >= 0 {
				site = site[:i]
			}
			h.Fail(sig+"/no-goroutine-leak@"+site, "%s: %d goroutines started by the set are still alive: %v", where, len(live), live)
		}
	}
}
