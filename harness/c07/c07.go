// Package c07: cancelling the context at any point stops the instance and leaks nothing.
package c07

import (
	"fmt"
	"os"
	"strings"
	"time"

	bpmn "github.com/olive-io/bpmn/v2"
	"github.com/olive-io/bpmn/v2/pkg/tracing"
	"github.com/olive-io/bpmn/v2/verifrt"

	"verif/harness/drv"
	"verif/harness/h"
)

type prog struct {
	name  string
	g     *drv.Graph
	vars  map[string]any
	timer bool
	// deliver: node id -> signal delivered (from its own goroutine) as soon as that catch event
	// reports that it listens, or that activity reports that its boundary events are active
	deliver map[string]string
	// retry: tasks answered with an error and a retry-mode handler on their first request
	retry map[string]bool
	// flood: a signal handed to the instance six times (more than the inbox of a node with two
	// incoming flows holds) from one goroutine started right after the cancel is issued
	flood string
	// throwAll: the instance is started with StartAll followed by ThrowAll
	throwAll bool
}

func catch(g *drv.Graph, id string, d drv.EventDef) *drv.Node {
	n := g.Add(drv.Catch, id)
	n.Defs = []drv.EventDef{d}
	return n
}

// Tasks whose id starts with "a" are answered as soon as they are seen; tasks starting with "n"
// are never answered (the token waits there when the cancellation comes).
func corpus() []prog {
	var ps []prog
	add := func(name string, build func(g *drv.Graph), vars map[string]any, timer bool) {
		g := drv.NewGraph("c07_" + name)
		build(g)
		ps = append(ps, prog{name: name, g: g, vars: vars, timer: timer})
	}
	withEvents := func(deliver map[string]string) { ps[len(ps)-1].deliver = deliver }
	withRetry := func(ids ...string) {
		ps[len(ps)-1].retry = map[string]bool{}
		for _, id := range ids {
			ps[len(ps)-1].retry[id] = true
		}
	}
	add("task-pending", func(g *drv.Graph) {
		s, a, n, e := g.Add(drv.Start, "start"), g.Add(drv.Task, "a1"), g.Add(drv.Task, "n1"), g.Add(drv.End, "end")
		g.Link(s, a, nil)
		g.Link(a, n, nil)
		g.Link(n, e, nil)
	}, nil, false)
	add("and-join-half", func(g *drv.Graph) {
		s, f, j, e := g.Add(drv.Start, "start"), g.Add(drv.AND, "F"), g.Add(drv.AND, "J"), g.Add(drv.End, "end")
		a, n := g.Add(drv.Task, "a1"), g.Add(drv.Task, "n1")
		g.Link(s, f, nil)
		g.Link(f, a, nil)
		g.Link(f, n, nil)
		g.Link(a, j, nil)
		g.Link(n, j, nil)
		g.Link(j, e, nil)
	}, nil, false)
	add("and-join-arriving", func(g *drv.Graph) {
		// both branches are answered: the cancellation points fall before, between and after the
		// two arrivals at the join
		s, f, j, n, e := g.Add(drv.Start, "start"), g.Add(drv.AND, "F"), g.Add(drv.AND, "J"), g.Add(drv.Task, "n1"), g.Add(drv.End, "end")
		a1, a2 := g.Add(drv.Task, "a1"), g.Add(drv.Task, "a2")
		g.Link(s, f, nil)
		g.Link(f, a1, nil)
		g.Link(f, a2, nil)
		g.Link(a1, j, nil)
		g.Link(a2, j, nil)
		g.Link(j, n, nil)
		g.Link(n, e, nil)
	}, nil, false)
	add("or-join-arriving", func(g *drv.Graph) {
		s, f, j, n, e := g.Add(drv.Start, "start"), g.Add(drv.OR, "OF"), g.Add(drv.OR, "OJ"), g.Add(drv.Task, "n1"), g.Add(drv.End, "end")
		a1, a2 := g.Add(drv.Task, "a1"), g.Add(drv.Task, "a2")
		g.Link(s, f, nil)
		g.Link(f, a1, drv.Var("c1"))
		g.Link(f, a2, drv.Var("c2"))
		g.Link(a1, j, nil)
		g.Link(a2, j, nil)
		g.Link(j, n, nil)
		g.Link(n, e, nil)
	}, map[string]any{"c1": true, "c2": true}, false)
	add("or-join-waiting", func(g *drv.Graph) {
		s, f, j, e := g.Add(drv.Start, "start"), g.Add(drv.OR, "OF"), g.Add(drv.OR, "OJ"), g.Add(drv.End, "end")
		a, n := g.Add(drv.Task, "a1"), g.Add(drv.Task, "n1")
		g.Link(s, f, nil)
		g.Link(f, a, drv.Var("c1"))
		g.Link(f, n, drv.Var("c2"))
		g.Link(a, j, nil)
		g.Link(n, j, nil)
		g.Link(j, e, nil)
	}, map[string]any{"c1": true, "c2": true}, false)
	add("xor-then-pending", func(g *drv.Graph) {
		s, x, n, a, e := g.Add(drv.Start, "start"), g.Add(drv.XOR, "X"), g.Add(drv.Task, "n1"), g.Add(drv.Task, "a1"), g.Add(drv.End, "end")
		g.Link(s, x, nil)
		g.Link(x, n, drv.Var("c1"))
		g.LinkDefault(x, a)
		g.Link(n, e, nil)
		g.Link(a, e, nil)
	}, map[string]any{"c1": true}, false)
	add("catch-listening", func(g *drv.Graph) {
		s, a, c, e := g.Add(drv.Start, "start"), g.Add(drv.Task, "a1"), catch(g, "cA", drv.EventDef{Kind: "signal", Ref: "A"}), g.Add(drv.End, "end")
		g.Link(s, a, nil)
		g.Link(a, c, nil)
		g.Link(c, e, nil)
	}, nil, false)
	add("timer-catch", func(g *drv.Graph) {
		s, c, e := g.Add(drv.Start, "start"), catch(g, "cT", drv.EventDef{Kind: "timer", Sub: "timeDuration", Ref: "PT1H"}), g.Add(drv.End, "end")
		g.Link(s, c, nil)
		g.Link(c, e, nil)
	}, nil, true)
	add("timer-date-firing", func(g *drv.Graph) {
		// a one-shot timer that fires (the clock is moved when the catch event listens)
		s, c, n, e := g.Add(drv.Start, "start"), catch(g, "cT", drv.EventDef{Kind: "timer", Sub: "timeDate", Ref: "2024-01-01T01:00:00Z"}), g.Add(drv.Task, "n1"), g.Add(drv.End, "end")
		g.Link(s, c, nil)
		g.Link(c, n, nil)
		g.Link(n, e, nil)
	}, nil, true)
	withEvents(map[string]string{"cT": "+1h"})
	add("timer-duration-firing", func(g *drv.Graph) {
		s, c, n, e := g.Add(drv.Start, "start"), catch(g, "cT", drv.EventDef{Kind: "timer", Sub: "timeDuration", Ref: "PT1H"}), g.Add(drv.Task, "n1"), g.Add(drv.End, "end")
		g.Link(s, c, nil)
		g.Link(c, n, nil)
		g.Link(n, e, nil)
	}, nil, true)
	withEvents(map[string]string{"cT": "+1h"})
	add("event-gateway-armed", func(g *drv.Graph) {
		s, gw := g.Add(drv.Start, "start"), g.Add(drv.EBG, "G")
		g.Link(s, gw, nil)
		for _, x := range []string{"A", "B"} {
			c, t, e := catch(g, "c"+x, drv.EventDef{Kind: "signal", Ref: x}), g.Add(drv.Task, "a"+x), g.Add(drv.End, "end"+x)
			g.Link(gw, c, nil)
			g.Link(c, t, nil)
			g.Link(t, e, nil)
		}
	}, nil, false)
	add("subprocess-running", func(g *drv.Graph) {
		s, sp, e := g.Add(drv.Start, "start"), g.AddSub("sp"), g.Add(drv.End, "end")
		is, ia, in, ie := sp.Inner.Add(drv.Start, "sp_start"), sp.Inner.Add(drv.Task, "a1"), sp.Inner.Add(drv.Task, "n1"), sp.Inner.Add(drv.End, "sp_end")
		sp.Inner.Link(is, ia, nil)
		sp.Inner.Link(ia, in, nil)
		sp.Inner.Link(in, ie, nil)
		g.Link(s, sp, nil)
		g.Link(sp, e, nil)
	}, nil, false)
	add("boundary-armed", func(g *drv.Graph) {
		s, n, e := g.Add(drv.Start, "start"), g.Add(drv.Task, "n1"), g.Add(drv.End, "end")
		b := g.AddBoundary(n, "b1", true, drv.EventDef{Kind: "signal", Ref: "E1"})
		a, ex := g.Add(drv.Task, "a1"), g.Add(drv.End, "endx")
		g.Link(s, n, nil)
		g.Link(n, e, nil)
		g.Link(b, a, nil)
		g.Link(a, ex, nil)
	}, nil, false)
	add("throw-then-pending", func(g *drv.Graph) {
		s, a, th, n, e := g.Add(drv.Start, "start"), g.Add(drv.Task, "a1"), g.Add(drv.Throw, "th"), g.Add(drv.Task, "n1"), g.Add(drv.End, "end")
		th.Defs = []drv.EventDef{{Kind: "signal", Ref: "T"}}
		g.Link(s, a, nil)
		g.Link(a, th, nil)
		g.Link(th, n, nil)
		g.Link(n, e, nil)
	}, nil, false)
	add("two-starts", func(g *drv.Graph) {
		for i := 1; i <= 2; i++ {
			s, a, n, e := g.Add(drv.Start, fmt.Sprintf("start%d", i)), g.Add(drv.Task, fmt.Sprintf("a%d", i)), g.Add(drv.Task, fmt.Sprintf("n%d", i)), g.Add(drv.End, fmt.Sprintf("end%d", i))
			g.Link(s, a, nil)
			g.Link(a, n, nil)
			g.Link(n, e, nil)
		}
	}, nil, false)
	add("inclusive-unreached", func(g *drv.Graph) {
		// an inclusive gateway behind a task that is never answered: the gateway's flow tracker
		// is started at construction, the gateway itself never runs
		s, n, f, a, e := g.Add(drv.Start, "start"), g.Add(drv.Task, "n1"), g.Add(drv.OR, "OF"), g.Add(drv.Task, "a1"), g.Add(drv.End, "end")
		g.Link(s, n, nil)
		g.Link(n, f, nil)
		g.Link(f, a, drv.Var("c1"))
		g.LinkDefault(f, e)
		g.Link(a, e, nil)
	}, map[string]any{"c1": true}, false)
	add("completes", func(g *drv.Graph) {
		// everything is answered: cancellation may come after normal completion too
		s, a, e := g.Add(drv.Start, "start"), g.Add(drv.Task, "a1"), g.Add(drv.End, "end")
		g.Link(s, a, nil)
		g.Link(a, e, nil)
	}, nil, false)
	add("nested-subprocess", func(g *drv.Graph) {
		s, sp, e := g.Add(drv.Start, "start"), g.AddSub("sp"), g.Add(drv.End, "end")
		is, isp, ie := sp.Inner.Add(drv.Start, "sp_start"), sp.Inner.AddSub("sp2"), sp.Inner.Add(drv.End, "sp_end")
		js, ja, jn, je := isp.Inner.Add(drv.Start, "sp2_start"), isp.Inner.Add(drv.Task, "a1"), isp.Inner.Add(drv.Task, "n1"), isp.Inner.Add(drv.End, "sp2_end")
		isp.Inner.Link(js, ja, nil)
		isp.Inner.Link(ja, jn, nil)
		isp.Inner.Link(jn, je, nil)
		sp.Inner.Link(is, isp, nil)
		sp.Inner.Link(isp, ie, nil)
		g.Link(s, sp, nil)
		g.Link(sp, e, nil)
	}, nil, false)
	add("loop-running", func(g *drv.Graph) {
		// start -> M -> a1 (counts) -> X -(again)-> M | n1 -> end: the loop body is answered until the
		// counter says stop, then the token waits at n1
		s, m, a, x, n, e := g.Add(drv.Start, "start"), g.Add(drv.XOR, "M"), g.Add(drv.Task, "a1"), g.Add(drv.XOR, "X"), g.Add(drv.Task, "n1"), g.Add(drv.End, "end")
		a.Results, a.RTypes = []string{"again"}, []string{"boolean"}
		g.Link(s, m, nil)
		g.Link(m, a, nil)
		g.Link(a, x, nil)
		g.Link(x, m, drv.Var("again"))
		g.LinkDefault(x, n)
		g.Link(n, e, nil)
	}, map[string]any{"again": false}, false)
	add("event-gateway-determined", func(g *drv.Graph) {
		s, gw := g.Add(drv.Start, "start"), g.Add(drv.EBG, "G")
		g.Link(s, gw, nil)
		for _, x := range []string{"A", "B"} {
			c, t, e := catch(g, "c"+x, drv.EventDef{Kind: "signal", Ref: x}), g.Add(drv.Task, "n"+x), g.Add(drv.End, "end"+x)
			g.Link(gw, c, nil)
			g.Link(c, t, nil)
			g.Link(t, e, nil)
		}
	}, nil, false)
	withEvents(map[string]string{"cA": "A", "cB": "B"})
	add("boundary-fired", func(g *drv.Graph) {
		// a non-interrupting boundary event fires while the host waits: host and exception task pending
		s, n, e := g.Add(drv.Start, "start"), g.Add(drv.Task, "n1"), g.Add(drv.End, "end")
		b := g.AddBoundary(n, "b1", false, drv.EventDef{Kind: "signal", Ref: "E1"})
		nx, ex := g.Add(drv.Task, "n2"), g.Add(drv.End, "endx")
		g.Link(s, n, nil)
		g.Link(n, e, nil)
		g.Link(b, nx, nil)
		g.Link(nx, ex, nil)
	}, nil, false)
	withEvents(map[string]string{"b1": "E1"})
	add("subprocess-interrupted", func(g *drv.Graph) {
		// an interrupting boundary event on a running sub-process
		s, sp, e := g.Add(drv.Start, "start"), g.AddSub("sp"), g.Add(drv.End, "end")
		is, in, ie := sp.Inner.Add(drv.Start, "sp_start"), sp.Inner.Add(drv.Task, "n1"), sp.Inner.Add(drv.End, "sp_end")
		sp.Inner.Link(is, in, nil)
		sp.Inner.Link(in, ie, nil)
		b := g.AddBoundary(sp, "b1", true, drv.EventDef{Kind: "signal", Ref: "E1"})
		nx, ex := g.Add(drv.Task, "n2"), g.Add(drv.End, "endx")
		g.Link(s, sp, nil)
		g.Link(sp, e, nil)
		g.Link(b, nx, nil)
		g.Link(nx, ex, nil)
	}, nil, false)
	withEvents(map[string]string{"b1": "E1"})
	add("catch-in-subprocess", func(g *drv.Graph) {
		s, sp, e := g.Add(drv.Start, "start"), g.AddSub("sp"), g.Add(drv.End, "end")
		is, ic, in, ie := sp.Inner.Add(drv.Start, "sp_start"), catch(sp.Inner, "cA", drv.EventDef{Kind: "signal", Ref: "A"}), sp.Inner.Add(drv.Task, "n1"), sp.Inner.Add(drv.End, "sp_end")
		sp.Inner.Link(is, ic, nil)
		sp.Inner.Link(ic, in, nil)
		sp.Inner.Link(in, ie, nil)
		g.Link(s, sp, nil)
		g.Link(sp, e, nil)
	}, nil, false)
	withEvents(map[string]string{"cA": "A"})
	add("parallel-multiple-half", func(g *drv.Graph) {
		s, c, n, e := g.Add(drv.Start, "start"), g.Add(drv.Catch, "cAB"), g.Add(drv.Task, "n1"), g.Add(drv.End, "end")
		c.Defs = []drv.EventDef{{Kind: "signal", Ref: "A"}, {Kind: "signal", Ref: "B"}}
		c.ParallelMult = true
		g.Link(s, c, nil)
		g.Link(c, n, nil)
		g.Link(n, e, nil)
	}, nil, false)
	withEvents(map[string]string{"cAB": "A"})
	add("retry-pending", func(g *drv.Graph) {
		s, a, n, e := g.Add(drv.Start, "start"), g.Add(drv.Task, "a1"), g.Add(drv.Task, "n1"), g.Add(drv.End, "end")
		g.Link(s, a, nil)
		g.Link(a, n, nil)
		g.Link(n, e, nil)
	}, nil, false)
	withRetry("a1")
	add("xor-stuck", func(g *drv.Graph) {
		// no condition holds and there is no default: an error trace, the token stays at the gateway
		s, a, x, n, e := g.Add(drv.Start, "start"), g.Add(drv.Task, "a1"), g.Add(drv.XOR, "X"), g.Add(drv.Task, "n1"), g.Add(drv.End, "end")
		g.Link(s, a, nil)
		g.Link(a, x, nil)
		g.Link(x, n, drv.Var("c1"))
		g.Link(n, e, nil)
	}, map[string]any{"c1": false}, false)
	add("or-fork-default", func(g *drv.Graph) {
		s, f, j, e := g.Add(drv.Start, "start"), g.Add(drv.OR, "OF"), g.Add(drv.OR, "OJ"), g.Add(drv.End, "end")
		a, n := g.Add(drv.Task, "a1"), g.Add(drv.Task, "n1")
		g.Link(s, f, nil)
		g.Link(f, a, drv.Var("c1"))
		g.LinkDefault(f, n)
		g.Link(a, j, nil)
		g.Link(n, j, nil)
		g.Link(j, e, nil)
	}, map[string]any{"c1": false}, false)
	add("timer-cycle-looping", func(g *drv.Graph) {
		// a cycle timer catch event in a loop; the clock is moved when the catch event listens
		s, m, c, a, x, e := g.Add(drv.Start, "start"), g.Add(drv.XOR, "M"), catch(g, "cT", drv.EventDef{Kind: "timer", Sub: "timeCycle", Ref: "R3/PT1H"}), g.Add(drv.Task, "a1"), g.Add(drv.XOR, "X"), g.Add(drv.End, "end")
		g.Link(s, m, nil)
		g.Link(m, c, nil)
		g.Link(c, a, nil)
		g.Link(a, x, nil)
		g.Link(x, m, drv.Var("again"))
		g.LinkDefault(x, e)
	}, map[string]any{"again": true}, true)
	withEvents(map[string]string{"cT": "+1h"})
	add("late-token-at-catch", func(g *drv.Graph) {
		// one token listens at the catch event; the other one is on its way to the same catch
		// event (its task is answered when seen) while the cancel and a burst of events arrive
		s, f, a, c, e := g.Add(drv.Start, "start"), g.Add(drv.AND, "F"), g.Add(drv.Task, "a1"), catch(g, "cA", drv.EventDef{Kind: "signal", Ref: "A"}), g.Add(drv.End, "end")
		g.Link(s, f, nil)
		g.Link(f, c, nil)
		g.Link(f, a, nil)
		g.Link(a, c, nil)
		g.Link(c, e, nil)
	}, nil, false)
	ps[len(ps)-1].flood = "Z"
	add("late-token-at-throw", func(g *drv.Graph) {
		s, a, t, n, e := g.Add(drv.Start, "start"), g.Add(drv.Task, "a1"), g.Add(drv.Throw, "thr"), g.Add(drv.Task, "n1"), g.Add(drv.End, "end")
		t.Defs = []drv.EventDef{{Kind: "signal", Ref: "T"}}
		g.Link(s, a, nil)
		g.Link(a, t, nil)
		g.Link(t, n, nil)
		g.Link(n, e, nil)
	}, nil, false)
	ps[len(ps)-1].flood = "Z"
	add("throw-all", func(g *drv.Graph) {
		// an intermediate throw event without incoming flow, triggered by ThrowAll
		s, n, e := g.Add(drv.Start, "start"), g.Add(drv.Task, "n1"), g.Add(drv.End, "end")
		t, n2, e2 := g.Add(drv.Throw, "thr"), g.Add(drv.Task, "n2"), g.Add(drv.End, "end2")
		t.Defs = []drv.EventDef{{Kind: "signal", Ref: "T"}}
		g.Link(s, n, nil)
		g.Link(n, e, nil)
		g.Link(t, n2, nil)
		g.Link(n2, e2, nil)
	}, nil, false)
	ps[len(ps)-1].throwAll = true
	for _, target := range []drv.Kind{drv.Task, drv.End, drv.XOR, drv.AND, drv.OR, drv.EBG, drv.Sub, drv.Catch, drv.Throw} {
		target := target
		add("four-late-tokens-"+string(target), func(g *drv.Graph) {
			// four tokens reach one node over a single sequence flow (its inbox holds three
			// messages) while the cancel arrives
			s, f, m, e := g.Add(drv.Start, "start"), g.Add(drv.AND, "F"), g.Add(drv.XOR, "M"), g.Add(drv.End, "end")
			g.Link(s, f, nil)
			for i := 1; i <= 4; i++ {
				a := g.Add(drv.Task, fmt.Sprintf("a%d", i))
				g.Link(f, a, nil)
				g.Link(a, m, nil)
			}
			switch target {
			case drv.End:
				g.Link(m, e, nil)
			case drv.Task:
				n := g.Add(drv.Task, "n1")
				g.Link(m, n, nil)
				g.Link(n, e, nil)
			case drv.EBG:
				x := g.Add(drv.EBG, "X")
				g.Link(m, x, nil)
				for _, r := range []string{"A", "B"} {
					c, ex := catch(g, "c"+r, drv.EventDef{Kind: "signal", Ref: r}), g.Add(drv.End, "end"+r)
					g.Link(x, c, nil)
					g.Link(c, ex, nil)
				}
			case drv.Sub:
				sp := g.AddSub("sp")
				is, in, ie := sp.Inner.Add(drv.Start, "sp_start"), sp.Inner.Add(drv.Task, "n1"), sp.Inner.Add(drv.End, "sp_end")
				sp.Inner.Link(is, in, nil)
				sp.Inner.Link(in, ie, nil)
				g.Link(m, sp, nil)
				g.Link(sp, e, nil)
			case drv.Catch:
				c := catch(g, "cA", drv.EventDef{Kind: "signal", Ref: "A"})
				g.Link(m, c, nil)
				g.Link(c, e, nil)
			case drv.Throw:
				t, n := g.Add(drv.Throw, "thr"), g.Add(drv.Task, "n1")
				t.Defs = []drv.EventDef{{Kind: "signal", Ref: "T"}}
				g.Link(m, t, nil)
				g.Link(t, n, nil)
				g.Link(n, e, nil)
			default:
				x, n := g.Add(target, "X"), g.Add(drv.Task, "n1")
				g.Link(m, x, nil)
				g.Link(x, n, nil)
				g.Link(n, e, nil)
			}
		}, nil, false)
	}
	for _, interrupting := range []bool{true, false} {
		interrupting := interrupting
		add(fmt.Sprintf("four-late-tokens-boundary-%v", interrupting), func(g *drv.Graph) {
			// as above, the node is a task with a boundary event; events arrive with the cancel
			s, f, m, n, e := g.Add(drv.Start, "start"), g.Add(drv.AND, "F"), g.Add(drv.XOR, "M"), g.Add(drv.Task, "n1"), g.Add(drv.End, "end")
			g.Link(s, f, nil)
			for i := 1; i <= 4; i++ {
				a := g.Add(drv.Task, fmt.Sprintf("a%d", i))
				g.Link(f, a, nil)
				g.Link(a, m, nil)
			}
			b := g.AddBoundary(n, "b1", interrupting, drv.EventDef{Kind: "signal", Ref: "E1"})
			ex := g.Add(drv.End, "endx")
			g.Link(m, n, nil)
			g.Link(n, e, nil)
			g.Link(b, ex, nil)
		}, nil, false)
		ps[len(ps)-1].flood = "E1"
		withEvents(map[string]string{"n1": "E1"})
	}
	// the programs with a node that takes events, once more with six signals (of the references
	// the corpus uses) handed to the instance right after the cancel is issued
	for _, q := range ps {
		switch q.name {
		case "catch-listening", "event-gateway-armed", "event-gateway-determined", "boundary-armed", "boundary-fired", "subprocess-interrupted",
			"catch-in-subprocess", "parallel-multiple-half", "two-starts", "throw-then-pending", "throw-all":
			q.name += "+events"
			q.flood = "*"
			ps = append(ps, q)
		}
	}
	return ps
}

func body(p prog, maxK int) func() { return bodyK(p, maxK, false) }

// startRaceBody: only the cancellation points around StartAll with events delivered at the same time.
func startRaceBody(p prog) func() { return bodyK(p, 0, true) }

func bodyK(p prog, maxK int, startRace bool) func() {
	defs := p.g.Parse()
	return func() {
		// cancellation points: k = 0..maxK traces received; maxK+1: before StartAll is called;
		// maxK+2: from another goroutine, concurrently with StartAll
		// maxK+3, maxK+4: as the last two, with events being delivered to the instance at the same time
		k := 0
		if startRace {
			k = maxK + 3 + verifrt.Choose(2)
		} else {
			k = verifrt.Choose(maxK + 5)
		}
		pre, conc := k == maxK+1 || k == maxK+3, k == maxK+2 || k == maxK+4
		early := k >= maxK+3
		r := drv.Open(p.g, defs, drv.OpenOpts{Vars: p.vars, Timer: p.timer, SubCap: 1})
		r.ThrowAllToo = p.throwAll
		cancelled := false
		cancelSeq := -1
		returnedDo, issuedDo := 0, 0
		returnedEv, issuedEv := 0, 0
		seen := map[string]int{}
		flood := func() {
			if p.flood == "" {
				return
			}
			issuedEv++
			go func() {
				refs := []string{p.flood}
				if p.flood == "*" {
					refs = []string{"A", "B", "E1", "T"}
				}
				for i := 0; i < 6; i++ {
					r.Signal(refs[i%len(refs)])
				}
				returnedEv++
			}()
		}
		r.OnTrace = func(seq int, raw tracing.ITrace) {
			if tt, ok := tracing.Unwrap(raw).(bpmn.TaskTrace); ok && !cancelled {
				id := ""
				if pid, ok := tt.GetActivity().Element().Id(); ok {
					id = *pid
				}
				if strings.HasPrefix(id, "a") {
					issuedDo++
					seen[id]++
					nth := seen[id]
					var opts []bpmn.DoOption
					if n := p.g.Find(id); n != nil && len(n.Results) > 0 {
						opts = append(opts, bpmn.DoWithResults(map[string]any{n.Results[0]: nth < 3}))
					}
					if p.retry[id] && nth == 1 {
						hch := make(chan bpmn.ErrHandler, 1)
						hch <- bpmn.ErrHandler{Mode: bpmn.RetryMode, Retries: 1}
						opts = []bpmn.DoOption{bpmn.DoWithErrHandle(fmt.Errorf("try again"), hch)}
					}
					go func() {
						tt.Do(opts...)
						returnedDo++
					}()
				}
			}
			if !cancelled && p.deliver != nil {
				node := ""
				switch x := tracing.Unwrap(raw).(type) {
				case bpmn.ActiveListeningTrace:
					if pid, ok := x.Node.Id(); ok {
						node = *pid
					}
				case bpmn.ActiveBoundaryTrace:
					if pid, ok := x.Node.Id(); ok && x.Start {
						node = *pid
					}
				}
				if ref, ok := p.deliver[node]; ok && node != "" {
					issuedEv++
					go func() {
						if ref == "+1h" {
							r.Clock.Add(time.Hour)
						} else {
							r.Signal(ref)
						}
						returnedEv++
					}()
				}
			}
			if seq+1 == k && !cancelled {
				cancelled = true
				cancelSeq = seq
				r.Cancel()
				flood()
			}
		}
		var w *drv.Wait
		r.AfterStart = func() {
			if k == 0 && !cancelled {
				// cancellation point 0: right after StartAll has returned
				cancelled = true
				r.Cancel()
				flood()
			}
			w = r.WaitComplete(r.Ctx)
		}
		if pre {
			cancelled = true
			r.Cancel()
		}
		r.StartAll()
		if early {
			issuedEv++
			go func() {
				for _, ref := range []string{"A", "B", "E1", "T"} {
					r.Signal(ref)
				}
				returnedEv++
			}()
		}
		if conc {
			cancelled = true
			go r.Cancel()
			flood()
		}
		verifrt.WaitIdle()
		if !cancelled {
			cancelled = true
			cancelSeq = r.NTraces - 1
			r.Cancel()
			flood()
			verifrt.WaitIdle()
		}
		sig := "C07/" + p.name
		if os.Getenv("VERIF_DEBUG") != "" {
			for _, t := range r.Stream {
				verifrt.Log("trace %s", t)
			}
		}
		where := fmt.Sprintf("cancel after %d traces (of %d received)", k, r.NTraces)
		if pre {
			where = fmt.Sprintf("cancel before StartAll (%d traces received)", r.NTraces)
		}
		if conc {
			where = fmt.Sprintf("cancel concurrently with StartAll (%d traces received)", r.NTraces)
		}
		if early {
			where += ", events delivered at the same time"
		}
		if !r.StartReturned {
			h.Fail(sig+"/startall-returns", "%s: StartAll has not returned; callers blocked: %v; live: %v", where, verifrt.LiveEnvGoroutines(), verifrt.LiveRepoGoroutines())
			return
		}
		if w != nil && !w.Returned {
			h.Fail(sig+"/wait-returns", "%s: WaitUntilComplete has not returned; live: %v", where, verifrt.LiveRepoGoroutines())
			return
		}
		if returnedDo != issuedDo {
			h.Fail(sig+"/do-returns", "%s: %d of %d Do calls returned; callers blocked: %v", where, returnedDo, issuedDo, verifrt.LiveEnvGoroutines())
			return
		}
		if returnedEv != issuedEv {
			h.Fail(sig+"/consume-returns", "%s: %d of %d event deliveries returned; callers blocked: %v; live: %v", where, returnedEv, issuedEv, verifrt.LiveEnvGoroutines(), verifrt.LiveRepoGoroutines())
			return
		}
		done := false
		select {
		case <-r.P.Tracer().Done():
			done = true
		default:
		}
		if !done {
			h.Fail(sig+"/tracer-terminates", "%s: the instance's tracer is not done; live: %v; channels: %v", where, verifrt.LiveRepoGoroutines(), verifrt.DebugChannels())
			return
		}
		if !r.ReaderDone {
			h.Fail(sig+"/subscribers-closed", "%s: the subscriber channel was not closed", where)
			return
		}
		for _, t := range r.Tasks {
			if t.Seq > cancelSeq && (cancelSeq >= 0 || pre) && t.CtxErr == nil {
				h.Fail(sig+"/late-task-cancelled-context", "%s: TaskTrace(%s) at stream position %d after the cancel carries a live context", where, t.ID, t.Seq)
				return
			}
		}
		if sp := verifrt.LiveSpinners(); len(sp) > 0 {
			h.Fail(sig+"/no-spinning", "%s: goroutines spinning on a closed channel: %v; live: %v", where, sp, verifrt.LiveRepoGoroutines())
			return
		}
		if live := verifrt.LiveRepoGoroutines(); len(live) > 0 {
			// the signature names the file that started the first leaked goroutine
			site := live[0]
			if i := strings.Index(site, "["); i >= 0 {
				site = site[i+1:]
			}
			if i := strings.Index(site, ":"); i >= 0 {
				site = site[:i]
			}
			h.Fail(sig+"/no-goroutine-leak@"+site, "%s: %d goroutines started by the instance are still alive: %v", where, len(live), live)
			return
		}
		// events handed to the stopped instance are dropped: the caller is not kept either
		// (more deliveries than any node's inbox holds)
		post := 0
		go func() {
			for i := 0; i < 6; i++ {
				for _, ref := range []string{"A", "B", "E1", "T"} {
					r.Signal(ref)
				}
			}
			post = 1
		}()
		verifrt.WaitIdle()
		if post != 1 {
			h.Fail(sig+"/consume-returns-after-stop", "%s: an event delivered after the instance has stopped blocks its caller: %v", where, verifrt.LiveEnvGoroutines())
			return
		}
	}
}

func init() {
	h.Register("C07", func(tier string) ([]*h.Scn, []*h.Plain) {
		var out []*h.Scn
		thorough := tier == "thorough"
		// one deviation also in the quick tier for the programs whose repaired defects needed it
		// (a timer firing while the context is cancelled, an interruption racing the cancel)
		quickD1 := map[string]bool{"timer-date-firing": true, "timer-duration-firing": true}
		for _, p := range corpus() {
			bounds := []int{0}
			if thorough || quickD1[p.name] {
				bounds = []int{0, 1}
			}
			for _, d := range bounds {
				sc := &h.Scn{Name: fmt.Sprintf("C07/%s/cancel@0..60/d%d", p.name, d), Body: body(p, 60), Opts: verifrt.Options{Bound: d, UseCache: true}}
				sc.Weight = 60 * (1 + 500*d)
				if d >= 1 {
					sc.Split = 16
				}
				out = append(out, sc)
			}
		}
		// StartAll racing the cancellation and event deliveries, at two deviations
		for _, p := range corpus() {
			if thorough || p.name == "task-pending" || p.name == "two-starts" || p.name == "throw-all" {
				out = append(out, &h.Scn{Name: fmt.Sprintf("C07/%s/start-race/d2", p.name), Body: startRaceBody(p), Opts: verifrt.Options{Bound: 2, UseCache: true}, Weight: 2000, Split: 4})
			}
		}
		{
			bounds := []int{0}
			if thorough {
				bounds = []int{0, 1}
			}
			for _, d := range bounds {
				sc := &h.Scn{Name: fmt.Sprintf("C07/process-set/cancel@0..90/d%d", d), Body: setBody(90), Opts: verifrt.Options{Bound: d, UseCache: true}}
				sc.Weight = 90 * (1 + 500*d)
				if d >= 1 {
					sc.Split = 16
				}
				out = append(out, sc)
			}
		}
		return out, nil
	})
}
