// Package props links every property harness into the worker.
package props

import (
	_ "verif/harness/c01"
	_ "verif/harness/c03"
	_ "verif/harness/c09"
)
