// Package props links every property harness into the worker.
package props

import (
	"verif/harness/h"
	"verif/seq/c14"
	"verif/seq/c15"
	"verif/seq/c16"
	"verif/seq/c19"

	_ "verif/harness/c01"
	_ "verif/harness/c02"
	_ "verif/harness/c03"
	_ "verif/harness/c04"
	_ "verif/harness/c05"
	_ "verif/harness/c06"
	_ "verif/harness/c07"
	_ "verif/harness/c08"
	_ "verif/harness/c09"
	_ "verif/harness/c10"
	_ "verif/harness/c11"
	_ "verif/harness/c12"
	_ "verif/harness/c13"
	c14h "verif/harness/c14"
	c15h "verif/harness/c15"
	_ "verif/harness/c17"
	_ "verif/harness/c18"
	c19h "verif/harness/c19"
	_ "verif/harness/c20"
	_ "verif/harness/litmus"
)

func init() {
	h.Register("C14", func(tier string) ([]*h.Scn, []*h.Plain) { return c14h.Scns(tier), c14.Plains(tier) })
	h.Register("C15", func(tier string) ([]*h.Scn, []*h.Plain) { return c15h.Scns(tier), c15.Plains(tier) })
	h.Register("C19", func(tier string) ([]*h.Scn, []*h.Plain) { return c19h.Scns(tier), c19.Plains(tier) })
	h.Register("C16", func(tier string) ([]*h.Scn, []*h.Plain) { return nil, c16.Plains(tier) })
}
