// Package c08: every task request is answered effectively at most once; declared results are
// stored; error answers follow their handler mode.
package c08

import (
	"errors"
	"fmt"
	"os"
	"time"

	bpmn "github.com/olive-io/bpmn/v2"
	"github.com/olive-io/bpmn/v2/verifrt"

	"verif/harness/drv"
	"verif/harness/h"
)

// graph: start -> T (declared result r) -> X: r==true -> A -> endA ; default -> B -> endB
func build(defRetries string) *drv.Graph {
	g := drv.NewGraph("c08" + defRetries)
	s, t, x := g.Add(drv.Start, "start"), g.Add(drv.Task, "T"), g.Add(drv.XOR, "X")
	t.Tag = "serviceTask"
	t.Results = []string{"r"}
	t.RTypes = []string{"boolean"}
	t.Retries = defRetries // retries configured on the task definition; the handler's count overrides it
	a, ea, b, eb := g.Add(drv.Task, "A"), g.Add(drv.End, "endA"), g.Add(drv.Task, "B"), g.Add(drv.End, "endB")
	g.Link(s, t, nil)
	g.Link(t, x, nil)
	g.Link(x, a, drv.Var("r"))
	g.LinkDefault(x, b)
	g.Link(a, ea, nil)
	g.Link(b, eb, nil)
	return g
}

// one Do call
type do struct {
	Kind    string // "ok" "err" "skip" "exit" "retry"
	R       bool   // result value for "ok"
	Retries int32
}

func (d do) String() string {
	switch d.Kind {
	case "ok":
		return fmt.Sprintf("ok(r=%v)", d.R)
	case "retry":
		return fmt.Sprintf("err+retry(%d)", d.Retries)
	case "err":
		return "err"
	}
	return "err+" + d.Kind
}

func (d do) options() []bpmn.DoOption {
	e := errors.New("boom")
	switch d.Kind {
	case "ok":
		return []bpmn.DoOption{bpmn.DoWithResults(map[string]any{"r": d.R, "u": 5})}
	case "err":
		return []bpmn.DoOption{bpmn.DoWithErr(e)}
	}
	ch := make(chan bpmn.ErrHandler, 1)
	switch d.Kind {
	case "skip":
		ch <- bpmn.ErrHandler{Mode: bpmn.SkipMode}
	case "exit":
		ch <- bpmn.ErrHandler{Mode: bpmn.ExitMode}
	case "retry":
		ch <- bpmn.ErrHandler{Mode: bpmn.RetryMode, Retries: d.Retries}
	}
	return []bpmn.DoOption{bpmn.DoWithErrHandle(e, ch)}
}

// history: the decisive answer of each successive request of T, plus extra Do calls made on the
// first request.
type history struct {
	Firsts []do   // decisive answer per request of T (request i is made only if request i-1 retried)
	Extra  []do   // further Do calls on request 0
	Mode   string // "seq-quiescent" | "seq" | "concurrent"
}

func (hs history) String() string {
	return fmt.Sprintf("%v+%v/%s", hs.Firsts, hs.Extra, hs.Mode)
}

func histories(maxRetries int) []history {
	var base [][]do
	for _, r := range []bool{true, false} {
		base = append(base, []do{{Kind: "ok", R: r}})
	}
	base = append(base, []do{{Kind: "err"}}, []do{{Kind: "skip"}}, []do{{Kind: "exit"}})
	for r := 0; r <= maxRetries; r++ {
		// success on attempt j (1-based; attempts 1..j-1 fail with retry), or never
		for j := 2; j <= r+2; j++ {
			var seq []do
			for k := 1; k < j; k++ {
				seq = append(seq, do{Kind: "retry", Retries: int32(r)})
			}
			if j <= r+1 {
				seq = append(seq, do{Kind: "ok", R: true})
			}
			// j == r+2: r+1 failing attempts; the last one may not retry any more
			base = append(base, seq)
		}
	}
	extras := [][]do{nil, {{Kind: "ok", R: false}}, {{Kind: "exit"}}, {{Kind: "ok", R: false}, {Kind: "exit"}}, {{Kind: "exit"}, {Kind: "ok", R: false}}}
	var out []history
	// k failing attempts answered with retry(r), then a final answer of another error mode (or
	// a false result): also when the k-th retry has used the budget up (k == r), the handler of
	// the last attempt still decides (added after seed c08-3)
	for r := 1; r <= maxRetries; r++ {
		for k := 1; k <= r; k++ {
			for _, final := range []do{{Kind: "skip"}, {Kind: "exit"}, {Kind: "err"}, {Kind: "ok", R: false}} {
				var seq []do
				for i := 0; i < k; i++ {
					seq = append(seq, do{Kind: "retry", Retries: int32(r)})
				}
				out = append(out, history{Firsts: append(seq, final), Mode: "seq"})
			}
		}
	}
	for _, b := range base {
		for _, e := range extras {
			if len(e) == 0 {
				out = append(out, history{Firsts: b, Mode: "seq"})
				continue
			}
			ex := e
			if b[0].Kind == "ok" && !b[0].R {
				// make the extra answers differ from the decisive one
				ex = nil
				for _, d := range e {
					if d.Kind == "ok" {
						d.R = true
					}
					ex = append(ex, d)
				}
			}
			for _, m := range []string{"seq-quiescent", "seq", "concurrent"} {
				out = append(out, history{Firsts: b, Extra: ex, Mode: m})
			}
		}
	}
	return out
}

func body(hists []history, defRetries string) func() {
	g := build(defRetries)
	defs := g.Parse()
	return func() {
		hs := hists[verifrt.Choose(len(hists))]
		fail := func(clause, format string, a ...any) {
			h.Fail("C08/answers/"+clause, "history %s: %s", hs, fmt.Sprintf(format, a...))
		}
		r := drv.Open(g, defs, drv.OpenOpts{})
		var w *drv.Wait
		r.AfterStart = func() { w = r.WaitComplete(nil) }
		r.StartAll()
		returned, issued := 0, 0
		call := func(p *drv.PTask, d do) {
			issued++
			p.Answered = true
			p.T.Do(d.options()...)
			returned++
		}
		wantErrors := 0
		var decisive do
		continued := true // the token goes on past T
		for i, first := range hs.Firsts {
			verifrt.WaitIdle()
			if r.Requests("T") != i+1 {
				fail("retry-requests", "after %d decisive answers T has been requested %d times, want %d", i, r.Requests("T"), i+1)
				return
			}
			p := r.Pending("T")
			if p == nil {
				fail("retry-requests", "request %d of T is not outstanding", i+1)
				return
			}
			decisive = first
			if first.Kind != "ok" {
				wantErrors++
			}
			if i > 0 || len(hs.Extra) == 0 {
				call(p, first)
				continue
			}
			all := append([]do{first}, hs.Extra...)
			switch hs.Mode {
			case "seq-quiescent":
				for _, d := range all {
					d := d
					go call(p, d)
					verifrt.WaitIdle()
				}
			case "seq":
				go func() {
					for _, d := range all {
						call(p, d)
					}
				}()
			case "concurrent":
				// the decisive answer is issued first, the others race with its processing
				go call(p, first)
				verifrt.WaitIdle()
				for _, d := range hs.Extra {
					d := d
					go call(p, d)
				}
			}
		}
		verifrt.WaitIdle()
		if returned != issued {
			fail("do-returns", "%d of %d Do calls have returned in a quiescent state; blocked: %v", returned, issued, verifrt.LiveRepoGoroutines())
			return
		}
		// what the last decisive answer means
		last := hs.Firsts[len(hs.Firsts)-1]
		switch last.Kind {
		case "exit":
			continued = false
		case "retry":
			continued = false // retries exhausted
		}
		if n := r.Requests("T"); n != len(hs.Firsts) {
			fail("retry-requests", "T requested %d times, want %d", n, len(hs.Firsts))
			return
		}
		nerr := 0
		for _, e := range r.Errors {
			if _, ok := e.(interface{ Error() string }); ok {
				nerr++
			}
		}
		if nerr != wantErrors {
			fail("error-traces", "%d error traces, want %d (one per error answer): %v", nerr, wantErrors, r.Errors)
			return
		}
		vars := r.Vars()
		if _, ok := vars["u"]; ok {
			fail("declared-only", "undeclared result u was stored: %v", vars)
			return
		}
		want := ""
		if continued {
			want = "B"
			if decisive.Kind == "ok" {
				if v, ok := vars["r"]; !ok || v != decisive.R {
					fail("first-answer-stored", "variable r = %v (present %v), want %v", v, ok, decisive.R)
					return
				}
				if decisive.R {
					want = "A"
				}
			} else if _, ok := vars["r"]; ok {
				fail("first-answer-stored", "variable r = %v stored although the decisive answer was %s", vars["r"], decisive)
				return
			}
		}
		got := r.PendingIDs()
		if want == "" {
			if len(got) != 0 {
				fail("token-stops", "after %s the token should be gone but %v is requested", decisive, got)
				return
			}
		} else {
			if len(got) != 1 || got[0] != want {
				fail("downstream", "after %s the downstream request is %v, want [%s] (vars %v)", decisive, got, want, vars)
				return
			}
			call(r.Pending(want), do{Kind: "ok"})
			verifrt.WaitIdle()
		}
		if len(r.PendingIDs()) != 0 {
			fail("downstream", "unexpected further requests %v", r.PendingIDs())
			return
		}
		if w == nil || !w.Returned || !w.Result {
			fail("completes", "no token remains but WaitUntilComplete has not returned true")
		}
		if len(r.Grammar) > 0 {
			h.Fail("C09/engine/causal-order", "%s", r.Grammar[0])
		}
	}
}

// racing first answers: two or three different answers to one request are issued from separate
// goroutines at once (which of them is first is the scheduler's choice), optionally racing the
// request's time-out (task definition timeout="1h", virtual clock advanced from its own
// goroutine). Exactly one of them must take effect, completely: the observable outcome equals
// the outcome of one candidate alone.
func raceBody(sets [][]do, withTimeout bool) func() {
	g := build("")
	if withTimeout {
		g.ID = "c08timeout"
		g.Find("T").Timeout = "1h"
	}
	defs := g.Parse()
	return func() {
		cands := sets[verifrt.Choose(len(sets))]
		fail := func(clause, format string, a ...any) {
			h.Fail("C08/race/"+clause, "answers %v racing (timeout %v): %s", cands, withTimeout, fmt.Sprintf(format, a...))
		}
		r := drv.Open(g, defs, drv.OpenOpts{})
		var w *drv.Wait
		r.AfterStart = func() { w = r.WaitComplete(nil) }
		r.StartAll()
		verifrt.WaitIdle()
		p := r.Pending("T")
		if p == nil {
			fail("requested", "T was not requested")
			return
		}
		returned := 0
		p.Answered = true
		// which call is issued first is an environment choice (the default schedule favours the
		// goroutine started first)
		clockFirst := withTimeout && verifrt.Choose(2) == 1
		if clockFirst {
			go verifrt.Advance(time.Hour)
		}
		for _, d := range cands {
			d := d
			go func() { p.T.Do(d.options()...); returned++ }()
		}
		if withTimeout && !clockFirst {
			go verifrt.Advance(time.Hour)
		}
		verifrt.WaitIdle()
		if returned != len(cands) {
			fail("do-returns", "%d of %d Do calls returned; blocked: %v", returned, len(cands), verifrt.LiveEnvGoroutines())
			return
		}
		// what each candidate alone would give: (r stored?, r value, error traces, downstream)
		type outcome struct {
			stored, val bool
			errs        int
			next        string
		}
		expect := func(d do) outcome {
			switch d.Kind {
			case "ok":
				if d.R {
					return outcome{true, true, 0, "A"}
				}
				return outcome{true, false, 0, "B"}
			case "exit":
				return outcome{false, false, 1, ""}
			}
			return outcome{false, false, 1, "B"} // err, skip, time-out: error trace, the token goes on
		}
		vars := r.Vars()
		got := outcome{errs: len(r.Errors)}
		if v, ok := vars["r"]; ok {
			got.stored = true
			got.val, _ = v.(bool)
		}
		pend := r.PendingIDs()
		if len(pend) > 1 {
			fail("one-effective-answer", "more than one downstream request: %v", pend)
			return
		}
		if len(pend) == 1 {
			got.next = pend[0]
		}
		all := append([]do{}, cands...)
		if withTimeout {
			all = append(all, do{Kind: "timeout"})
		}
		match := false
		for _, d := range all {
			if expect(d) == got {
				match = true
			}
		}
		if !match {
			fail("one-effective-answer", "observed r stored=%v value=%v, %d error traces %v, downstream %q: not the outcome of any single candidate", got.stored, got.val, got.errs, r.Errors, got.next)
			return
		}
		if os.Getenv("VERIF_DEBUG") != "" {
			verifrt.Log("outcome %+v", got)
		}
		if r.Requests("T") != 1 {
			fail("retry-requests", "T requested %d times", r.Requests("T"))
			return
		}
		if got.next != "" {
			r.Answer(r.Pending(got.next))
			verifrt.WaitIdle()
		}
		if withTimeout {
			// a time-out after the decision has no effect
			verifrt.Advance(2 * time.Hour)
			verifrt.WaitIdle()
			if len(r.Errors) != got.errs || len(r.PendingIDs()) != 0 {
				fail("one-effective-answer", "the time-out fired after the request had been decided: errors %v pending %v", r.Errors, r.PendingIDs())
				return
			}
		}
		if w == nil || !w.Returned || !w.Result {
			fail("completes", "no token remains but WaitUntilComplete has not returned true")
		}
	}
}

// two tokens wait in the same task at once (a parallel fork whose two branches both lead into
// it): each request is decided by its own answer. "together": the two requests are answered
// with different declared results (x / y) back-to-back or concurrently - both are stored and
// both tokens go on. "deferred": request 1 is answered with an error whose handler decides
// later; meanwhile request 2 is answered with x="fromB" and a later task writes x="later"; then
// the handler says skip: the skipped answer stores nothing, x stays "later".
func twoTokens(variant string) func() {
	g := drv.NewGraph("c08two_" + variant)
	s, f, w, a, e := g.Add(drv.Start, "start"), g.Add(drv.AND, "F"), g.Add(drv.Task, "work"), g.Add(drv.Task, "after"), g.Add(drv.End, "end")
	w.Tag, a.Tag = "serviceTask", "serviceTask"
	w.Results, w.RTypes = []string{"x", "y"}, []string{"string", "string"}
	a.Results, a.RTypes = []string{"x"}, []string{"string"}
	g.Link(s, f, nil)
	g.Link(f, w, nil)
	g.Link(f, w, nil)
	g.Link(w, a, nil)
	g.Link(a, e, nil)
	defs := g.Parse()
	return func() {
		fail := func(clause, format string, a ...any) {
			h.Fail("C08/two-tokens/"+clause, "%s: %s", variant, fmt.Sprintf(format, a...))
		}
		r := drv.Open(g, defs, drv.OpenOpts{})
		var w8 *drv.Wait
		r.AfterStart = func() { w8 = r.WaitComplete(nil) }
		r.StartAll()
		verifrt.WaitIdle()
		var reqs []*drv.PTask
		for _, t := range r.Tasks {
			if t.ID == "work" {
				reqs = append(reqs, t)
			}
		}
		if len(reqs) != 2 {
			fail("requested", "the task reached by two tokens was requested %d times, want 2", len(reqs))
			return
		}
		returned := 0
		answerAfter := func() bool {
			for n := 0; n < 4; n++ {
				p := r.Pending("after")
				if p == nil {
					return true
				}
				r.Answer(p, bpmn.DoWithResults(map[string]any{"x": "later"}))
				verifrt.WaitIdle()
			}
			return r.Pending("after") == nil
		}
		switch variant {
		case "together-seq", "together-concurrent":
			reqs[0].Answered, reqs[1].Answered = true, true
			if variant == "together-seq" {
				go func() {
					reqs[0].T.Do(bpmn.DoWithResults(map[string]any{"x": "one"}))
					returned++
					reqs[1].T.Do(bpmn.DoWithResults(map[string]any{"y": "two"}))
					returned++
				}()
			} else {
				go func() { reqs[0].T.Do(bpmn.DoWithResults(map[string]any{"x": "one"})); returned++ }()
				go func() { reqs[1].T.Do(bpmn.DoWithResults(map[string]any{"y": "two"})); returned++ }()
			}
			verifrt.WaitIdle()
			if returned != 2 {
				fail("do-returns", "%d of 2 Do calls returned", returned)
				return
			}
			vars := r.Vars()
			if vars["x"] != "one" || vars["y"] != "two" {
				fail("each-answer-stored", "request 1 answered x=one, request 2 answered y=two: variables are x=%v y=%v", vars["x"], vars["y"])
				return
			}
			if n := r.Requests("after"); n != 2 {
				fail("both-continue", "both tokens were answered: the next task was requested %d times, want 2", n)
				return
			}
		case "deferred":
			hch := make(chan bpmn.ErrHandler, 1)
			reqs[0].Answered, reqs[1].Answered = true, true
			go func() {
				reqs[0].T.Do(bpmn.DoWithErrHandle(errors.New("boom"), hch))
				returned++
			}()
			verifrt.WaitIdle()
			go func() { reqs[1].T.Do(bpmn.DoWithResults(map[string]any{"x": "fromB"})); returned++ }()
			verifrt.WaitIdle()
			if r.Vars()["x"] != "fromB" {
				fail("each-answer-stored", "request 2 answered x=fromB: x=%v", r.Vars()["x"])
				return
			}
			// token 2 is at the next task: its answer writes x="later"
			p := r.Pending("after")
			if p == nil {
				fail("both-continue", "token 2 was answered but the next task is not requested")
				return
			}
			r.Answer(p, bpmn.DoWithResults(map[string]any{"x": "later"}))
			verifrt.WaitIdle()
			hch <- bpmn.ErrHandler{Mode: bpmn.SkipMode}
			verifrt.WaitIdle()
			if returned != 2 {
				fail("do-returns", "%d of 2 Do calls returned", returned)
				return
			}
			if got := r.Vars()["x"]; got != "later" {
				fail("skipped-answer-stores-nothing", "request 1 was answered with an error and skipped after x had been written twice: x=%v, want later", got)
				return
			}
			if n := r.Requests("after"); n != 2 {
				fail("both-continue", "after the skip the next task was requested %d times in total, want 2", n)
				return
			}
		}
		if !answerAfter() {
			fail("both-continue", "requests of the next task keep coming")
			return
		}
		if w8 == nil || !w8.Returned || !w8.Result {
			fail("completes", "both tokens are through but the instance has not completed")
		}
	}
}

func init() {
	h.Register("C08", func(tier string) ([]*h.Scn, []*h.Plain) {
		var out []*h.Scn
		thorough := tier == "thorough"
		all := histories(3)
		var conc, small []history
		for _, x := range all {
			if x.Mode == "concurrent" && len(x.Firsts) == 1 {
				conc = append(conc, x)
			}
			if len(x.Extra) <= 1 && len(x.Firsts) <= 2 {
				small = append(small, x)
			}
		}
		add := func(name string, hs []history, d, split int) {
			for _, def := range []string{"", "2"} {
				if def != "" && d > 0 && name != "small" {
					continue
				}
				n := name
				if def != "" {
					n += "/task-definition-retries=" + def
				}
				sc := &h.Scn{Name: fmt.Sprintf("C08/answers/%s/d%d", n, d), Body: body(hs, def), Opts: verifrt.Options{Bound: d, UseCache: true}}
				sc.Weight = len(hs) * (1 + 1000*d*d)
				sc.Split = split
				out = append(out, sc)
			}
		}
		_ = func(name string, hs []history, d, split int) {
			sc := &h.Scn{Name: fmt.Sprintf("C08/answers/%s/d%d", name, d), Body: body(hs, ""), Opts: verifrt.Options{Bound: d, UseCache: true}}
			sc.Weight = len(hs) * (1 + 1000*d*d)
			sc.Split = split
			out = append(out, sc)
		}
		for _, d := range []int{0, 1} {
			sc := &h.Scn{Name: fmt.Sprintf("C08/dataout/d%d", d), Body: dataOutBody(), Opts: verifrt.Options{Bound: d, UseCache: true}}
			sc.Weight = 6 * (1 + 1000*d*d)
			if d > 0 {
				sc.Split = 4
			}
			out = append(out, sc)
		}
		add("all", all, 0, 1)
		add("small", small, 1, 16)
		add("concurrent", conc, 1, 16)
		if thorough {
			add("all", all, 1, 16)
			add("concurrent", conc, 2, 16)
		}
		for _, v := range []string{"together-seq", "together-concurrent", "deferred"} {
			bounds := []int{0, 1}
			if thorough {
				bounds = append(bounds, 2)
			}
			for _, d := range bounds {
				sc := &h.Scn{Name: fmt.Sprintf("C08/two-tokens/%s/d%d", v, d), Body: twoTokens(v), Opts: verifrt.Options{Bound: d, UseCache: true}}
				sc.Weight = 5 * (1 + 1000*d*d)
				if d >= 1 {
					sc.Split = 4 * d
				}
				out = append(out, sc)
			}
		}
		sets := [][]do{
			{{Kind: "ok", R: true}, {Kind: "ok", R: false}},
			{{Kind: "ok", R: true}, {Kind: "exit"}},
			{{Kind: "ok", R: false}, {Kind: "skip"}},
			{{Kind: "err"}, {Kind: "ok", R: true}},
			{{Kind: "ok", R: true}, {Kind: "ok", R: false}, {Kind: "exit"}},
		}
		for _, to := range []bool{false, true} {
			bounds := []int{0, 1}
			if thorough {
				bounds = append(bounds, 2)
			}
			for _, d := range bounds {
				ss := sets
				if to {
					ss = append([][]do{{{Kind: "ok", R: true}}, {{Kind: "exit"}}}, sets[:2]...)
				}
				sc := &h.Scn{Name: fmt.Sprintf("C08/race/timeout=%v/d%d", to, d), Body: raceBody(ss, to), Opts: verifrt.Options{Bound: d, UseCache: true}}
				sc.Weight = len(ss) * (1 + 1000*d*d)
				if d >= 1 {
					sc.Split = 4 * d
				}
				out = append(out, sc)
			}
		}
		return out, nil
	})
}
