package c08

import (
	"fmt"
	"reflect"
	"sort"

	"github.com/olive-io/bpmn/schema"
	bpmn "github.com/olive-io/bpmn/v2"
	"github.com/olive-io/bpmn/v2/pkg/data"
	"github.com/olive-io/bpmn/v2/pkg/tracing"
	"github.com/olive-io/bpmn/v2/verifrt"

	"verif/harness/drv"
	"verif/harness/h"
)

// Data outputs: "a successful answer stores exactly the declared ... data outputs, visible to
// every later condition and task". The producing task declares two data outputs: "out", which is
// the name of a declared data object reference (id ref_out -> data object do_out with an initial
// body), and "extra", a name declared nowhere else. The consuming task reads both as data inputs
// and its conditional outgoing flows read the data object.
const DataOutDoc = `<?xml version="1.0" encoding="UTF-8"?>
<bpmn:definitions xmlns:bpmn="http://www.omg.org/spec/BPMN/20100524/MODEL"
                  xmlns:xsi="http://www.w3.org/2001/XMLSchema-instance"
                  xmlns:olive="http://olive.io/spec/BPMN/MODEL"
                  id="Definitions_c08_dataout" targetNamespace="http://bpmn.io/schema/bpmn"
                  expressionLanguage="https://github.com/expr-lang/expr">
  <bpmn:process id="c08_dataout" isExecutable="true">
    <bpmn:startEvent id="start"><bpmn:outgoing>f1</bpmn:outgoing></bpmn:startEvent>
    <bpmn:sequenceFlow id="f1" sourceRef="start" targetRef="produce"/>
    <bpmn:serviceTask id="produce">
      <bpmn:extensionElements>
        <olive:taskDefinition type="service"/>
        <olive:dataOutput name="out" targetRef="ref_out"/>
        <olive:dataOutput name="extra" targetRef="extra"/>
      </bpmn:extensionElements>
      <bpmn:incoming>f1</bpmn:incoming>
      <bpmn:outgoing>f2</bpmn:outgoing>
    </bpmn:serviceTask>
    <bpmn:sequenceFlow id="f2" sourceRef="produce" targetRef="consume"/>
    <bpmn:serviceTask id="consume">
      <bpmn:extensionElements>
        <olive:taskDefinition type="service"/>
        <olive:dataInput name="in" targetRef="ref_out"/>
        <olive:dataInput name="extraIn" targetRef="extra"/>
      </bpmn:extensionElements>
      <bpmn:incoming>f2</bpmn:incoming>
      <bpmn:outgoing>fSeen</bpmn:outgoing>
      <bpmn:outgoing>fOther</bpmn:outgoing>
    </bpmn:serviceTask>
    <bpmn:sequenceFlow id="fSeen" sourceRef="consume" targetRef="endSeen">
      <bpmn:conditionExpression xsi:type="bpmn:tFormalExpression">getDataObject('out').a == 'cc'</bpmn:conditionExpression>
    </bpmn:sequenceFlow>
    <bpmn:sequenceFlow id="fOther" sourceRef="consume" targetRef="endOther">
      <bpmn:conditionExpression xsi:type="bpmn:tFormalExpression">getDataObject('out').a != 'cc'</bpmn:conditionExpression>
    </bpmn:sequenceFlow>
    <bpmn:endEvent id="endSeen"><bpmn:incoming>fSeen</bpmn:incoming></bpmn:endEvent>
    <bpmn:endEvent id="endOther"><bpmn:incoming>fOther</bpmn:incoming></bpmn:endEvent>
    <bpmn:dataObjectReference id="ref_out" name="out" dataObjectRef="do_out"/>
    <bpmn:dataObject id="do_out">
      <bpmn:extensionElements>
        <olive:dataObjectBody><![CDATA[{"a": "aa"}]]></olive:dataObjectBody>
      </bpmn:extensionElements>
    </bpmn:dataObject>
  </bpmn:process>
</bpmn:definitions>`

func dataOutBody() func() {
	defs, err := schema.Parse([]byte(DataOutDoc))
	if err != nil {
		panic(err)
	}
	return func() {
		sig := "C08/dataout"
		// E: the value written to the declared data object; whether a second answer follows
		val := []string{"cc", "aa", "zz"}[verifrt.Choose(3)]
		second := verifrt.Choose(2) == 1
		r := drv.Open(nil, defs, drv.OpenOpts{SubCap: 1})
		var w *drv.Wait
		r.AfterStart = func() { w = r.WaitComplete(nil) }
		var consumeIn, consumeExtra any
		r.OnTrace = func(seq int, raw tracing.ITrace) {
			if tt, ok := tracing.Unwrap(raw).(bpmn.TaskTrace); ok {
				if pid, ok := tt.GetActivity().Element().Id(); ok && *pid == "consume" {
					if it, ok := tt.GetDataObjects()["in"]; ok && it != nil {
						consumeIn = it.Value()
					}
					if it, ok := tt.GetDataObjects()["extraIn"]; ok && it != nil {
						consumeExtra = it.Value()
					}
				}
			}
		}
		r.StartAll()
		verifrt.WaitIdle()
		p := r.Pending("produce")
		if p == nil {
			h.Fail(sig+"/requested", "the producing task was not requested; pending %v", r.PendingIDs())
			return
		}
		want := map[string]any{"a": val}
		wantExtra := map[string]any{"k": "v"}
		p.T.Do(bpmn.DoWithObjects(map[string]any{"out": map[string]any{"a": val}, "extra": map[string]any{"k": "v"}, "undeclared": map[string]any{"x": "y"}}))
		p.Answered = true
		if second {
			// a further answer has no effect
			p.T.Do(bpmn.DoWithObjects(map[string]any{"out": map[string]any{"a": "second"}, "extra": map[string]any{"k": "second"}}))
		}
		verifrt.WaitIdle()
		items := r.P.Locator().CloneItems(data.LocatorObject)
		got := map[string]any{}
		var keys []string
		for k, it := range items {
			if it != nil {
				got[k] = it.Value()
			}
			keys = append(keys, k)
		}
		sort.Strings(keys)
		if !reflect.DeepEqual(got["do_out"], any(want)) {
			h.Fail(sig+"/declared-output-stored", "the answer gave data output out=%v (declared: the data object named out, id do_out); the data object now holds %v; stored items %v", want, got["do_out"], got)
			return
		}
		if _, ok := got["undeclared"]; ok {
			h.Fail(sig+"/undeclared-output-not-stored", "the undeclared data output was stored: items %v", got)
			return
		}
		c := r.Pending("consume")
		if c == nil {
			h.Fail(sig+"/downstream-requested", "the consuming task was not requested after the answer; pending %v errors %v", r.PendingIDs(), r.ErrorKinds())
			return
		}
		if !reflect.DeepEqual(consumeIn, any(want)) {
			h.Fail(sig+"/visible-to-later-task", "the consuming task's data input from the declared data object is %v, the answer stored %v", consumeIn, want)
			return
		}
		if !reflect.DeepEqual(consumeExtra, any(wantExtra)) {
			h.Fail(sig+"/visible-to-later-task", "the consuming task's data input 'extraIn' is %v, the answer stored %v", consumeExtra, wantExtra)
			return
		}
		r.Answer(c)
		verifrt.WaitIdle()
		wantEnd := "endOther"
		if val == "cc" {
			wantEnd = "endSeen"
		}
		if fmt.Sprint(r.Completed) != fmt.Sprint([]string{wantEnd}) {
			h.Fail(sig+"/visible-to-later-condition", "stored out.a=%q: end events reached %v, want [%s]; errors %v", val, r.Completed, wantEnd, r.ErrorKinds())
			return
		}
		if w == nil || !w.Returned || !w.Result {
			h.Fail(sig+"/completes", "the instance did not complete")
		}
	}
}
