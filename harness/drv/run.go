package drv

import (
	"context"
	"fmt"
	"sort"
	"strconv"
	"strings"
	"sync/atomic"
	"time"

	"github.com/olive-io/bpmn/schema"
	bpmn "github.com/olive-io/bpmn/v2"
	"github.com/olive-io/bpmn/v2/pkg/clock"
	"github.com/olive-io/bpmn/v2/pkg/errors"
	"github.com/olive-io/bpmn/v2/pkg/event"
	"github.com/olive-io/bpmn/v2/pkg/id"
	"github.com/olive-io/bpmn/v2/pkg/timer"
	"github.com/olive-io/bpmn/v2/pkg/tracing"
	"github.com/olive-io/bpmn/v2/verifrt"
)

// CounterGen is a deterministic id generator (ids 1,2,3,... in the order they are drawn).
type CounterGen struct {
	n      int64
	prefix string
}

type cid struct{ s string }

func (c cid) String() string { return c.s }
func (c cid) Bytes() []byte  { return []byte(c.s) }

func NewCounterGen(prefix string) *CounterGen { return &CounterGen{prefix: prefix} }
func (g *CounterGen) New() id.Id {
	return cid{g.prefix + strconv.FormatInt(atomic.AddInt64(&g.n, 1), 10)}
}
func (g *CounterGen) Snapshot() ([]byte, error) {
	return []byte(strconv.FormatInt(atomic.LoadInt64(&g.n), 10)), nil
}

// PTask is a task request observed by the driver.
type PTask struct {
	ID       string
	T        bpmn.TaskTrace
	Answered bool
	Visit    int
	CtxErr   error // Context().Err() at the time the request was received
	Seq      int   // position in the trace stream
}

// Run is one instance of a process driven by the harness.
type Run struct {
	G      *Graph
	Defs   *schema.Definitions
	Ctx    context.Context
	Cancel context.CancelFunc
	P      *bpmn.Process
	Sub    chan tracing.ITrace
	Clock  *clock.Mock

	NTraces    int
	Stream     []string // compact rendering of every trace received, in order
	Tasks      []*PTask
	Errors     []error
	Completed  []string // CompletionTrace node ids in stream order
	Ceased     int
	CeasedAt   int // stream position of the first CeaseFlowTrace
	LastFlowAt int // stream position of the last flow-level trace (anything but cease)
	Listening  map[string]int
	Observed   map[string]int // EventObservedTrace per node
	Visits     map[string]int
	Leaves     map[string]int
	Landmarks  map[string]int
	Determined int
	ReaderDone bool
	Grammar    []string // violations of the causality grammar (C09)
	FlowIDs    map[string]bool
	InstIDs    []string

	StartReturned bool
	// ThrowAllToo: StartAll is followed by ThrowAll (the intermediate throw events are triggered too)
	ThrowAllToo bool
	OnTrace     func(seq int, t tracing.ITrace) // called by the reader after recording each trace
	AfterStart  func()                          // called by the starter goroutine once StartAll has returned
	StartErr    error
	Waits       []*Wait

	announced  map[string]bool
	born       map[string]bool
	terminated map[string]bool
}

// Wait is one WaitUntilComplete call made by the harness.
type Wait struct {
	Returned bool
	Result   bool
	Cancel   context.CancelFunc
}

type OpenOpts struct {
	Vars       map[string]any
	SubCap     int
	Gen        id.IGenerator
	Extra      []bpmn.Option
	UseEngine  bool
	ParentCtx  context.Context
	DefaultGen bool // use the engine's default (sno) generator
	Timer      bool // wire pkg/timer's event definition builder with a mock clock (Run.Clock)
}

// Open creates the instance inside the current execution and subscribes the driver.
func Open(g *Graph, defs *schema.Definitions, o OpenOpts) *Run {
	r := &Run{G: g, Defs: defs, Listening: map[string]int{}, Observed: map[string]int{}, Visits: map[string]int{}, Leaves: map[string]int{},
		Landmarks: map[string]int{}, announced: map[string]bool{}, born: map[string]bool{}, terminated: map[string]bool{}, FlowIDs: map[string]bool{}, CeasedAt: -1}
	parent := o.ParentCtx
	if parent == nil {
		parent = context.Background()
	}
	r.Ctx, r.Cancel = context.WithCancel(parent)
	if o.Timer {
		r.Clock = clock.NewMockAt(time.Date(2024, 1, 1, 0, 0, 0, 0, time.UTC))
		r.Ctx = clock.ToContext(r.Ctx, r.Clock)
		fan := event.NewFanOut()
		tr := tracing.NewTracer(r.Ctx)
		b := event.DefinitionInstanceBuildingChain(timer.EventDefinitionInstanceBuilder(r.Ctx, fan, tr), event.WrappingDefinitionInstanceBuilder)
		o.Extra = append(o.Extra, bpmn.WithTracer(tr), bpmn.WithProcessEventDefinitionInstanceBuilder(b), bpmn.WithEventEgress(fan), bpmn.WithEventIngress(fan))
	}
	opts := []bpmn.Option{bpmn.WithContext(r.Ctx)}
	if !o.DefaultGen {
		gen := o.Gen
		if gen == nil {
			gen = NewCounterGen("i")
		}
		opts = append(opts, bpmn.WithIdGenerator(gen))
	}
	if o.Vars != nil {
		vars := map[string]any{}
		for k, v := range o.Vars {
			vars[k] = v
		}
		opts = append(opts, bpmn.WithVariables(vars))
	}
	opts = append(opts, o.Extra...)
	var err error
	if o.UseEngine {
		r.P, err = bpmn.NewEngine(bpmn.WithEngineContext(r.Ctx)).NewProcess(defs, opts...)
	} else {
		r.P, err = bpmn.NewProcess(&(*defs.Processes())[0], defs, opts...)
	}
	if err != nil {
		panic(fmt.Sprintf("NewProcess: %v", err))
	}
	r.Sub = r.P.Tracer().SubscribeChannel(make(chan tracing.ITrace, o.SubCap))
	go r.reader()
	return r
}

func (r *Run) reader() {
	for t := range r.Sub {
		r.onTrace(t)
	}
	r.ReaderDone = true
}

func nodeID(n schema.FlowNodeInterface) string {
	if n == nil {
		return "?"
	}
	if p, ok := n.Id(); ok {
		return *p
	}
	return "?"
}

func (r *Run) onTrace(raw tracing.ITrace) {
	seq := r.NTraces
	r.NTraces++
	if r.OnTrace != nil {
		defer r.OnTrace(seq, raw)
	}
	if it, ok := raw.(bpmn.InstanceTrace); ok {
		_ = it
	}
	t := tracing.Unwrap(raw)
	r.Stream = append(r.Stream, brief(t))
	isCease := false
	switch x := t.(type) {
	case bpmn.TaskTrace:
		id := nodeID(x.GetActivity().Element())
		visit := 0
		for _, p := range r.Tasks {
			if p.ID == id {
				visit++
			}
		}
		r.Tasks = append(r.Tasks, &PTask{ID: id, T: x, Visit: visit, CtxErr: x.Context().Err(), Seq: seq})
	case bpmn.ErrorTrace:
		r.Errors = append(r.Errors, x.Error)
	case bpmn.CompletionTrace:
		// surplus tokens consumed at gateways also produce a CompletionTrace; only end events count
		if _, isEnd := x.Node.(*schema.EndEvent); isEnd {
			r.Completed = append(r.Completed, nodeID(x.Node))
		}
	case bpmn.CeaseFlowTrace:
		isCease = true
		r.Ceased++
		if r.CeasedAt < 0 {
			r.CeasedAt = seq
		}
	case bpmn.ActiveListeningTrace:
		if p, ok := x.Node.Id(); ok {
			r.Listening[*p]++
		}
	case bpmn.EventObservedTrace:
		if p, ok := x.Node.Id(); ok {
			r.Observed[*p]++
		}
	case bpmn.ProcessLandMarkTrace:
		r.Landmarks[nodeID(x.Node)]++
	case bpmn.DeterminationMadeTrace:
		r.Determined++
	case bpmn.InstantiationTrace:
		r.InstIDs = append(r.InstIDs, x.InstanceId.String())
	case bpmn.VisitTrace:
		r.Visits[nodeID(x.Node)]++
	case bpmn.LeaveTrace:
		id := nodeID(x.Node)
		r.Leaves[id]++
		if r.Leaves[id] > r.Visits[id] {
			r.Grammar = append(r.Grammar, fmt.Sprintf("LeaveTrace(%s) #%d precedes the matching VisitTrace", id, r.Leaves[id]))
		}
	case bpmn.NewFlowTrace:
		f := x.FlowId.String()
		if r.born[f] {
			r.Grammar = append(r.Grammar, fmt.Sprintf("flow id %s issued twice (NewFlowTrace repeated)", f))
		}
		r.born[f] = true
		r.FlowIDs[f] = true
		if r.terminated[f] {
			r.Grammar = append(r.Grammar, fmt.Sprintf("NewFlowTrace(%s) after the flow's TerminationTrace", f))
		}
	case bpmn.FlowTrace:
		old := 0
		for _, s := range x.Flows {
			f := s.Id().String()
			if r.terminated[f] {
				r.Grammar = append(r.Grammar, fmt.Sprintf("FlowTrace from %s lists flow %s after its TerminationTrace", nodeID(x.Source), f))
			}
			if r.born[f] {
				old++
			}
			r.announced[f] = true
		}
		if old > 1 {
			r.Grammar = append(r.Grammar, fmt.Sprintf("FlowTrace from %s announces flows of which %d had already emitted their NewFlowTrace (additional flows must start after the FlowTrace)", nodeID(x.Source), old))
		}
	case bpmn.TerminationTrace:
		f := x.FlowId.String()
		if r.terminated[f] {
			r.Grammar = append(r.Grammar, fmt.Sprintf("TerminationTrace(%s) twice", f))
		}
		r.terminated[f] = true
	case bpmn.CancellationFlowTrace:
		f := x.FlowId.String()
		if r.terminated[f] {
			r.Grammar = append(r.Grammar, fmt.Sprintf("CancellationFlowTrace(%s) after TerminationTrace", f))
		}
	}
	if !isCease {
		switch t.(type) {
		case bpmn.NewFlowTrace, bpmn.FlowTrace, bpmn.VisitTrace, bpmn.LeaveTrace, bpmn.TerminationTrace, bpmn.CompletionTrace:
			r.LastFlowAt = seq
		}
	}
}

// StartAll calls Process.StartAll from a helper goroutine (it may block: that is for the
// oracle to judge, not for the driver to hang on).
func (r *Run) StartAll() {
	go func() {
		r.StartErr = r.P.StartAll(r.Ctx)
		if r.ThrowAllToo && r.StartErr == nil {
			r.StartErr = r.P.ThrowAll(r.Ctx)
		}
		r.StartReturned = true
		if r.AfterStart != nil {
			r.AfterStart()
		}
	}()
}

// WaitComplete issues a WaitUntilComplete from a helper goroutine with its own cancellable
// context derived from parent (nil: Background).
func (r *Run) WaitComplete(parent context.Context) *Wait {
	if parent == nil {
		parent = context.Background()
	}
	ctx, cancel := context.WithCancel(parent)
	w := &Wait{Cancel: cancel}
	r.Waits = append(r.Waits, w)
	go func() {
		w.Result = r.P.WaitUntilComplete(ctx)
		w.Returned = true
	}()
	return w
}

// PendingIDs returns the ids of unanswered task requests, sorted (a multiset).
func (r *Run) PendingIDs() []string {
	var out []string
	for _, p := range r.Tasks {
		if !p.Answered {
			out = append(out, p.ID)
		}
	}
	sort.Strings(out)
	return out
}

// Pending returns the first unanswered request for an activity id.
func (r *Run) Pending(id string) *PTask {
	for _, p := range r.Tasks {
		if !p.Answered && p.ID == id {
			return p
		}
	}
	return nil
}

// Requests counts the requests seen for an activity id.
func (r *Run) Requests(id string) int {
	n := 0
	for _, p := range r.Tasks {
		if p.ID == id {
			n++
		}
	}
	return n
}

// Answer answers a pending request.
func (r *Run) Answer(p *PTask, opts ...bpmn.DoOption) {
	p.Answered = true
	p.T.Do(opts...)
}

// Signal / Message deliver an event to the instance from the calling goroutine.
func (r *Run) Signal(ref string) {
	r.P.ConsumeEvent(event.NewSignalEvent(ref))
}
func (r *Run) Message(ref string) {
	// "m#op": message m carrying operation reference op
	if j := strings.Index(ref, "#"); j >= 0 {
		op := ref[j+1:]
		r.P.ConsumeEvent(event.NewMessageEvent(ref[:j], &op))
		return
	}
	r.P.ConsumeEvent(event.NewMessageEvent(ref, nil))
}

// Vars returns the instance's variables as plain values.
func (r *Run) Vars() map[string]any {
	out := map[string]any{}
	for k, v := range r.P.Locator().CloneVariables() {
		out[k] = v.Value()
	}
	return out
}

// ErrorKinds summarises error traces: "xor:<gateway id>", "or:<gateway id>", else the message.
func (r *Run) ErrorKinds() []string {
	var out []string
	for _, e := range r.Errors {
		switch x := e.(type) {
		case bpmn.ExclusiveNoEffectiveSequenceFlows:
			p, _ := x.ExclusiveGateway.Id()
			out = append(out, "xor:"+*p)
		case bpmn.InclusiveNoEffectiveSequenceFlows:
			p, _ := x.InclusiveGateway.Id()
			out = append(out, "or:"+*p)
		case errors.TaskExecError:
			out = append(out, "task:"+x.Id)
		default:
			out = append(out, fmt.Sprintf("%T:%v", e, e))
		}
	}
	sort.Strings(out)
	return out
}

func sortedCopy(s []string) []string {
	c := append([]string{}, s...)
	sort.Strings(c)
	return c
}

func eqStrings(a, b []string) bool {
	if len(a) != len(b) {
		return false
	}
	for i := range a {
		if a[i] != b[i] {
			return false
		}
	}
	return true
}

// Idle waits for quiescence.
func Idle() { verifrt.WaitIdle() }

func brief(t tracing.ITrace) string {
	switch x := t.(type) {
	case bpmn.TaskTrace:
		return "Task(" + nodeID(x.GetActivity().Element()) + ")"
	case bpmn.ErrorTrace:
		return fmt.Sprintf("Error(%v)", x.Error)
	case bpmn.CompletionTrace:
		return "Completion(" + nodeID(x.Node) + ")"
	case bpmn.CeaseFlowTrace:
		return "CeaseFlow"
	case bpmn.VisitTrace:
		return "Visit(" + nodeID(x.Node) + ")"
	case bpmn.LeaveTrace:
		return "Leave(" + nodeID(x.Node) + ")"
	case bpmn.NewFlowTrace:
		return "NewFlow(" + x.FlowId.String() + ")"
	case bpmn.FlowTrace:
		s := "Flow(" + nodeID(x.Source) + "->"
		for i, f := range x.Flows {
			if i > 0 {
				s += ","
			}
			tgt := "?"
			if sf := f.SequenceFlow(); sf != nil {
				tgt = *sf.TargetRef()
			}
			s += f.Id().String() + ":" + tgt
		}
		return s + ")"
	case bpmn.TerminationTrace:
		return "Termination(" + x.FlowId.String() + "@" + nodeID(x.Source) + ")"
	case bpmn.CancellationFlowTrace:
		return "CancelFlow(" + x.FlowId.String() + "@" + nodeID(x.Node) + ")"
	case bpmn.CancellationFlowNodeTrace:
		return "CancelNode(" + nodeID(x.Node) + ")"
	case bpmn.ActiveBoundaryTrace:
		return fmt.Sprintf("ActiveBoundary(%s,%v)", nodeID(x.Node), x.Start)
	case bpmn.ActiveListeningTrace:
		p, _ := x.Node.Id()
		return "Listening(" + *p + ")"
	case bpmn.EventObservedTrace:
		p, _ := x.Node.Id()
		return "Observed(" + *p + ")"
	case bpmn.ProcessLandMarkTrace:
		return "LandMark(" + nodeID(x.Node) + ")"
	case bpmn.DeterminationMadeTrace:
		return "Determination(" + nodeID(x.Node) + ")"
	case bpmn.InstantiationTrace:
		return "Instantiation"
	case bpmn.IncomingFlowProcessedTrace:
		p, _ := x.Node.Id()
		return "IncomingProcessed(" + *p + ")"
	}
	return fmt.Sprintf("%T", t)
}

// Tail returns the last n entries of the trace stream.
func (r *Run) Tail(n int) []string {
	if len(r.Stream) > n {
		return r.Stream[len(r.Stream)-n:]
	}
	return r.Stream
}
