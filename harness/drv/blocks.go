package drv

import (
	"fmt"
	"sort"
	"strings"
)

// Block-structured programs (the grammar of C01/C12):
//
//	B ::= task | dec (task writing a boolean result that its own two conditional out-flows read) | seq(B,B) | xor(B|ε ...; default) | par(B...) | incl(B...; default) | loop(B) | sub(B) | side(task; cond -> task -> end)
//
// rendered to a flat Graph. Names are assigned from per-kind counters in depth-first order and
// do not depend on sub-process wrappers, so that a program and its wrapped variants (C12) use the
// same task ids.
type Block struct {
	Kind string // "task" "seq" "xor" "par" "incl" "loop" "sub" "side" "empty"
	Kids []*Block
	// xor/incl: Default = index of the branch that is the default flow, -1 = none.
	// xor with Default == -2: two complementary conditions (c, !c), no default.
	Default int
}

func T() *Block                 { return &Block{Kind: "task", Default: -1} }
func E() *Block                 { return &Block{Kind: "empty", Default: -1} }
func Seq(a, b *Block) *Block    { return &Block{Kind: "seq", Kids: []*Block{a, b}, Default: -1} }
func Par(kids ...*Block) *Block { return &Block{Kind: "par", Kids: kids, Default: -1} }
func LoopB(b *Block) *Block     { return &Block{Kind: "loop", Kids: []*Block{b}, Default: -1} }
func SubB(b *Block) *Block      { return &Block{Kind: "sub", Kids: []*Block{b}, Default: -1} }
func Side() *Block              { return &Block{Kind: "side", Default: -1} }
func Dec() *Block               { return &Block{Kind: "dec", Default: -1} }

// Drop is a task whose only outgoing flow is conditional: with the condition false the token ends
// at the task, silently (a termination trace and no flow trace).
func Drop() *Block                        { return &Block{Kind: "drop", Default: -1} }
func Xor(def int, kids ...*Block) *Block  { return &Block{Kind: "xor", Kids: kids, Default: def} }
func Incl(def int, kids ...*Block) *Block { return &Block{Kind: "incl", Kids: kids, Default: def} }

func (b *Block) String() string {
	switch b.Kind {
	case "task":
		return "t"
	case "empty":
		return "ε"
	case "side":
		return "side"
	case "dec":
		return "dec"
	case "drop":
		return "drop"
	}
	var ks []string
	for _, k := range b.Kids {
		ks = append(ks, k.String())
	}
	d := ""
	if b.Kind == "xor" || b.Kind == "incl" {
		switch {
		case b.Default >= 0:
			d = fmt.Sprintf(";d%d", b.Default)
		case b.Default == -2:
			d = ";compl"
		}
	}
	return fmt.Sprintf("%s(%s%s)", b.Kind, strings.Join(ks, ","), d)
}

// Size counts the blocks of a program.
func (b *Block) Size() int {
	n := 1
	if b.Kind == "empty" {
		n = 0
	}
	for _, k := range b.Kids {
		n += k.Size()
	}
	return n
}

func (b *Block) depth() int {
	d := 0
	for _, k := range b.Kids {
		if x := k.depth(); x > d {
			d = x
		}
	}
	if b.Kind == "task" || b.Kind == "empty" || b.Kind == "side" || b.Kind == "dec" || b.Kind == "drop" || b.Kind == "seq" {
		return d
	}
	return d + 1
}

// Program is a rendered block program.
type Program struct {
	// Ctx maps a node id to the kinds of the composite blocks enclosing it, innermost first
	// ("incl<loop"), "top" at the top level. Used to keep root causes apart in signatures.
	Ctx      map[string]string
	B        *Block
	G        *Graph
	Vars     []string // boolean variables steering the conditions
	Counters []string // loop counter variables, with the task that increments them
	CntTask  map[string]string
	FlipTask map[string]string // decision tasks: the boolean result each one negates
}

type renderer struct {
	nt, nx, np, no, nl, ns, nside, ndec, ndrop int
	nv                                         int
	p                                          *Program
	maxVars                                    int
	stack                                      []string
}

func (r *renderer) ctx() string {
	if len(r.stack) == 0 {
		return "top"
	}
	out := ""
	for i := len(r.stack) - 1; i >= 0; i-- {
		if out != "" {
			out += "<"
		}
		out += r.stack[i]
	}
	return out
}

// add creates a node and records its enclosing context.
func (r *renderer) add(g *Graph, k Kind, id string) *Node {
	r.p.Ctx[id] = r.ctx()
	return g.Add(k, id)
}

func (r *renderer) push(k string) { r.stack = append(r.stack, k) }
func (r *renderer) pop()          { r.stack = r.stack[:len(r.stack)-1] }

func (r *renderer) nextVar() string {
	v := fmt.Sprintf("c%d", r.nv%r.maxVars)
	r.nv++
	found := false
	for _, x := range r.p.Vars {
		if x == v {
			found = true
		}
	}
	if !found {
		r.p.Vars = append(r.p.Vars, v)
	}
	return v
}

// render adds the block to g and returns its entry and exit nodes; for "empty" both are nil.
func (r *renderer) render(g *Graph, b *Block) (entry, exit *Node) {
	switch b.Kind {
	case "task":
		r.nt++
		n := r.add(g, Task, fmt.Sprintf("t%d", r.nt))
		return n, n
	case "empty":
		return nil, nil
	case "side":
		// task with an unconditional continuation and a conditional side branch ending on its own
		r.nside++
		t := r.add(g, Task, fmt.Sprintf("st%d", r.nside))
		s := r.add(g, Task, fmt.Sprintf("ss%d", r.nside))
		e := r.add(g, End, fmt.Sprintf("se%d", r.nside))
		g.Link(t, s, Var(r.nextVar()))
		g.Link(s, e, nil)
		return t, t
	case "drop":
		// task dp<k> -[v]-> task dq<k>: with v false the token ends at dp<k>
		r.ndrop++
		t := r.add(g, Task, fmt.Sprintf("dp%d", r.ndrop))
		u := r.add(g, Task, fmt.Sprintf("dq%d", r.ndrop))
		g.Link(t, u, Var(r.nextVar()))
		return t, u
	case "dec":
		// decision task: its answer writes the boolean result r<k> (declared), and its own two
		// conditional outgoing flows read it: r<k> -> da<k>, !r<k> -> db<k>; both merge again.
		// The conditions must see the value written by this very answer.
		r.ndec++
		v := fmt.Sprintf("r%d", r.ndec)
		t := r.add(g, Task, fmt.Sprintf("dt%d", r.ndec))
		t.Results = []string{v}
		t.RTypes = []string{"boolean"}
		a := r.add(g, Task, fmt.Sprintf("da%d", r.ndec))
		bb := r.add(g, Task, fmt.Sprintf("db%d", r.ndec))
		m := r.add(g, XOR, fmt.Sprintf("dm%d", r.ndec))
		g.Link(t, a, Var(v))
		g.Link(t, bb, NotVar(v))
		g.Link(a, m, nil)
		g.Link(bb, m, nil)
		r.p.Vars = append(r.p.Vars, v)
		r.p.FlipTask[t.ID] = v
		return t, m
	case "seq":
		e1, x1 := r.render(g, b.Kids[0])
		e2, x2 := r.render(g, b.Kids[1])
		g.Link(x1, e2, nil)
		return e1, x2
	case "par":
		r.np++
		s := r.add(g, AND, fmt.Sprintf("p%ds", r.np))
		j := r.add(g, AND, fmt.Sprintf("p%dj", r.np))
		for _, k := range b.Kids {
			r.push("par")
			e, x := r.render(g, k)
			r.pop()
			if e == nil {
				g.Link(s, j, nil)
				continue
			}
			g.Link(s, e, nil)
			g.Link(x, j, nil)
		}
		return s, j
	case "xor", "incl":
		var s, j *Node
		if b.Kind == "xor" {
			r.nx++
			s = r.add(g, XOR, fmt.Sprintf("x%ds", r.nx))
			j = r.add(g, XOR, fmt.Sprintf("x%dm", r.nx))
		} else {
			r.no++
			s = r.add(g, OR, fmt.Sprintf("o%ds", r.no))
			j = r.add(g, OR, fmt.Sprintf("o%dj", r.no))
		}
		var first string
		for i, k := range b.Kids {
			var cond *Cond
			switch {
			case i == b.Default:
				cond = nil
			case b.Default == -2 && i == 0:
				first = r.nextVar()
				cond = Var(first)
			case b.Default == -2 && i == 1:
				cond = NotVar(first)
			default:
				cond = Var(r.nextVar())
			}
			r.push(b.Kind)
			e, x := r.render(g, k)
			r.pop()
			var f *Flow
			if e == nil {
				f = g.Link(s, j, cond)
			} else {
				f = g.Link(s, e, cond)
				g.Link(x, j, nil)
			}
			if i == b.Default {
				s.Default = f
			}
		}
		return s, j
	case "loop":
		r.nl++
		id := r.nl
		m := r.add(g, XOR, fmt.Sprintf("l%dm", id))
		r.push("loop")
		e, x := r.render(g, b.Kids[0])
		c := r.add(g, Task, fmt.Sprintf("l%dc", id))
		r.pop()
		v := fmt.Sprintf("n%d", id)
		c.Results = []string{v}
		c.RTypes = []string{"integer"}
		r.p.Counters = append(r.p.Counters, v)
		r.p.CntTask[c.ID] = v
		s := r.add(g, XOR, fmt.Sprintf("l%ds", id))
		out := r.add(g, XOR, fmt.Sprintf("l%dx", id)) // pass-through node giving the loop a single exit
		if e != nil {
			g.Link(m, e, nil)
			g.Link(x, c, nil)
		} else {
			g.Link(m, c, nil)
		}
		g.Link(c, s, nil)
		g.Link(s, m, IntLt(v, 2))
		g.LinkDefault(s, out)
		return m, out
	case "sub":
		r.ns++
		sp := g.AddSub(fmt.Sprintf("s%d", r.ns))
		r.p.Ctx[sp.ID] = r.ctx()
		r.push("sub")
		defer r.pop()
		st := r.add(sp.Inner, Start, sp.ID+"_start")
		en := r.add(sp.Inner, End, sp.ID+"_end")
		e, x := r.render(sp.Inner, b.Kids[0])
		if e == nil {
			sp.Inner.Link(st, en, nil)
		} else {
			sp.Inner.Link(st, e, nil)
			sp.Inner.Link(x, en, nil)
		}
		return sp, sp
	}
	panic("unknown block kind " + b.Kind)
}

// Render builds the program start -> B -> end.
func Render(id string, b *Block) *Program {
	p := &Program{B: b, G: NewGraph(id), CntTask: map[string]string{}, FlipTask: map[string]string{}, Ctx: map[string]string{}}
	r := &renderer{p: p, maxVars: 3}
	st := r.add(p.G, Start, "start")
	en := r.add(p.G, End, "end")
	e, x := r.render(p.G, b)
	if e == nil {
		p.G.Link(st, en, nil)
	} else {
		p.G.Link(st, e, nil)
		p.G.Link(x, en, nil)
	}
	return p
}

// Answer is the answer function of a program's lock-step run: loop counter tasks increment
// their counter, other tasks return nothing.
func (p *Program) Answer(id string, visit int, vars map[string]any) map[string]any {
	if v, ok := p.CntTask[id]; ok {
		return map[string]any{v: intOf(vars[v]) + 1}
	}
	if v, ok := p.FlipTask[id]; ok {
		return map[string]any{v: !boolOf(vars[v])}
	}
	return nil
}

// DecVariants returns the program with one plain task leaf replaced by a decision task, for
// every task leaf.
func DecVariants(b *Block) []*Block {
	var out []*Block
	var rec func(x *Block, rebuild func(*Block) *Block)
	rec = func(x *Block, rebuild func(*Block) *Block) {
		if x.Kind == "task" {
			out = append(out, rebuild(Dec()))
		}
		for i := range x.Kids {
			i := i
			rec(x.Kids[i], func(repl *Block) *Block {
				c := *x
				c.Kids = append([]*Block{}, x.Kids...)
				c.Kids[i] = repl
				return rebuild(&c)
			})
		}
	}
	rec(b, func(r *Block) *Block { return r })
	return out
}

// Assignments enumerates all truth assignments of the program's boolean variables, together
// with zeroed loop counters.
func (p *Program) Assignments() []map[string]any {
	n := len(p.Vars)
	var out []map[string]any
	for mask := 0; mask < 1<<n; mask++ {
		m := map[string]any{}
		for i, v := range p.Vars {
			m[v] = mask&(1<<i) != 0
		}
		for _, c := range p.Counters {
			m[c] = 0
		}
		out = append(out, m)
	}
	return out
}

// AssignmentName renders an assignment compactly.
func AssignmentName(vars []string, a map[string]any) string {
	s := ""
	for _, v := range vars {
		if boolOf(a[v]) {
			s += "1"
		} else {
			s += "0"
		}
	}
	if s == "" {
		s = "-"
	}
	return s
}

// Enumerate lists every program with at most maxSize blocks, gateway nesting at most maxDepth
// and fan-out at most maxFan, simplest first. leaves restricts the leaf kinds.
func Enumerate(maxSize, maxDepth, maxFan int, withSub, withSide bool) []*Block {
	memo := map[[2]int][]*Block{}
	var gen func(size, depth int) []*Block // programs of exactly this size
	gen = func(size, depth int) []*Block {
		key := [2]int{size, depth}
		if v, ok := memo[key]; ok {
			return v
		}
		var out []*Block
		if size == 1 {
			out = append(out, T())
			if withSide {
				out = append(out, Side())
			}
		}
		// seq: right-nested only (seq is associative), left part not itself a seq
		if size >= 3 {
			for ls := 1; ls <= size-2; ls++ {
				for _, a := range gen(ls, depth) {
					if a.Kind == "seq" {
						continue
					}
					for _, b := range gen(size-1-ls, depth) {
						out = append(out, Seq(a, b))
					}
				}
			}
		}
		if depth > 0 && size >= 2 {
			// unary wrappers
			for _, a := range gen(size-1, depth-1) {
				out = append(out, LoopB(a))
				if withSub {
					out = append(out, SubB(a))
				}
			}
			// n-ary gateways: branches are programs or ε (xor/incl only), sizes sum to size-1
			var parts func(remaining, n int, allowEmpty bool, cur []*Block, emit func([]*Block))
			parts = func(remaining, n int, allowEmpty bool, cur []*Block, emit func([]*Block)) {
				if n == 0 {
					if remaining == 0 {
						emit(append([]*Block{}, cur...))
					}
					return
				}
				if allowEmpty {
					parts(remaining, n-1, allowEmpty, append(cur, E()), emit)
				}
				for s := 1; s <= remaining; s++ {
					for _, a := range gen(s, depth-1) {
						parts(remaining-s, n-1, allowEmpty, append(cur, a), emit)
					}
				}
			}
			for fan := 2; fan <= maxFan; fan++ {
				parts(size-1, fan, false, nil, func(ks []*Block) { out = append(out, Par(ks...)) })
				parts(size-1, fan, true, nil, func(ks []*Block) {
					nonEmpty := 0
					for _, k := range ks {
						if k.Kind != "empty" {
							nonEmpty++
						}
					}
					if nonEmpty == 0 {
						return
					}
					// default at the last position, at the first position, or none
					out = append(out, Xor(fan-1, ks...), Xor(0, ks...))
					if fan == 2 {
						out = append(out, Xor(-2, ks...))
					}
					out = append(out, Incl(fan-1, ks...), Incl(-1, ks...))
				})
			}
		}
		memo[key] = out
		return out
	}
	var all []*Block
	for s := 1; s <= maxSize; s++ {
		all = append(all, gen(s, maxDepth)...)
	}
	return all
}

// WrapVariants returns the program with one block position wrapped in `levels` nested
// sub-processes, for every block position (C12).
func WrapVariants(b *Block, levels int) []*Block {
	var out []*Block
	wrap := func(x *Block) *Block {
		for i := 0; i < levels; i++ {
			x = SubB(x)
		}
		return x
	}
	var rec func(x *Block, rebuild func(*Block) *Block)
	rec = func(x *Block, rebuild func(*Block) *Block) {
		if x.Kind != "empty" {
			out = append(out, rebuild(wrap(x)))
		}
		for i := range x.Kids {
			i := i
			rec(x.Kids[i], func(repl *Block) *Block {
				c := *x
				c.Kids = append([]*Block{}, x.Kids...)
				c.Kids[i] = repl
				return rebuild(&c)
			})
		}
	}
	rec(b, func(r *Block) *Block { return r })
	return out
}

// Unwrap removes every sub-process wrapper.
func Unwrap(b *Block) *Block {
	if b.Kind == "sub" {
		return Unwrap(b.Kids[0])
	}
	c := *b
	c.Kids = nil
	for _, k := range b.Kids {
		c.Kids = append(c.Kids, Unwrap(k))
	}
	return &c
}

// Tags lists the nesting pairs "outer>inner" of composite blocks (and side tasks) of a program,
// sorted: the structural features that completion-clause signatures carry.
func Tags(b *Block) string {
	set := map[string]bool{}
	var rec func(x *Block, anc []string)
	rec = func(x *Block, anc []string) {
		k := x.Kind
		switch k {
		case "xor", "par", "incl", "loop", "sub", "side", "dec", "drop":
			set[k] = true
			for _, a := range anc {
				set[a+">"+k] = true
			}
			anc = append(append([]string{}, anc...), k)
		}
		for _, c := range x.Kids {
			rec(c, anc)
		}
	}
	rec(b, nil)
	var ks []string
	for k := range set {
		ks = append(ks, k)
	}
	sort.Strings(ks)
	if len(ks) == 0 {
		return "plain"
	}
	return strings.Join(ks, ",")
}
