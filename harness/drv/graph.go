// Package drv drives the real engine from harness code: process graphs rendered to BPMN XML,
// a token-game reference model over the same graph, and a lock-step driver.
package drv

import (
	"fmt"
	"sort"
	"strings"

	"github.com/olive-io/bpmn/schema"
)

// Kind of a flow node.
type Kind string

const (
	Start Kind = "startEvent"
	End   Kind = "endEvent"
	Task  Kind = "task"
	XOR   Kind = "exclusiveGateway"
	AND   Kind = "parallelGateway"
	OR    Kind = "inclusiveGateway"
	EBG   Kind = "eventBasedGateway"
	Catch Kind = "intermediateCatchEvent"
	Throw Kind = "intermediateThrowEvent"
	Sub   Kind = "subProcess"
)

// Cond is a condition on a sequence flow: Src is the expression text handed to the engine,
// Eval is the model's own evaluation on its own copy of the variables.
type Cond struct {
	Src  string
	Lang string // "" = definitions default (expr); "xpath" = XPath language attribute
	Eval func(vars map[string]any) bool
}

// EventDef is an event definition of a catch/throw/start/boundary event.
type EventDef struct {
	Kind string // "signal" | "message" | "timer"
	Ref  string // signal / message id; for timers the definition body, e.g. timeDuration PT1S
	Sub  string // timer: "timeDate" | "timeDuration" | "timeCycle"
}

type Node struct {
	ID   string
	Kind Kind
	Tag  string // element name override for tasks (serviceTask, userTask, ...)
	In   []*Flow
	Out  []*Flow
	// gateways
	Default *Flow
	// tasks
	Results  []string    // declared result field names (type guessed from ResultTypes or "string")
	RTypes   []string    // declared types parallel to Results ("" = no type attribute)
	Props    [][3]string // olive properties: name, value, type
	Headers  [][3]string
	Boundary []*Node // boundary events attached to this activity (Kind Catch, with Interrupting flag)
	Retries  string
	Timeout  string // olive:taskDefinition timeout (a Go duration)
	// events
	Defs         []EventDef
	ParallelMult bool
	Interrupting bool // boundary events
	Host         *Node
	// sub-process
	Inner  *Graph
	Parent *Graph
}

type Flow struct {
	ID   string
	Src  *Node
	Dst  *Node
	Cond *Cond
}

// DataObj is a declared data object with a reference of the given name and a JSON body.
type DataObj struct {
	ID, Name, Body string
}

type Graph struct {
	ID    string
	Nodes []*Node
	Flows []*Flow
	Data  []DataObj
	byID  map[string]*Node
	Sub   *Node // the sub-process node this graph is the content of (nil for the top level)
	nflow *int
}

func NewGraph(id string) *Graph {
	n := 0
	return &Graph{ID: id, byID: map[string]*Node{}, nflow: &n}
}

func (g *Graph) Node(id string) *Node { return g.byID[id] }

// Find looks a node up in this graph and all nested sub-process graphs.
func (g *Graph) Find(id string) *Node {
	if n := g.byID[id]; n != nil {
		return n
	}
	for _, n := range g.Nodes {
		if n.Inner != nil {
			if x := n.Inner.Find(id); x != nil {
				return x
			}
		}
		for _, b := range n.Boundary {
			if b.ID == id {
				return b
			}
		}
	}
	return nil
}

func (g *Graph) Add(kind Kind, id string) *Node {
	if g.byID[id] != nil {
		panic("duplicate node id " + id)
	}
	n := &Node{ID: id, Kind: kind, Parent: g}
	g.Nodes = append(g.Nodes, n)
	g.byID[id] = n
	return n
}

// AddSub adds an embedded sub-process node and returns it with its (empty) inner graph.
func (g *Graph) AddSub(id string) *Node {
	n := g.Add(Sub, id)
	n.Inner = &Graph{ID: id, byID: map[string]*Node{}, Sub: n, nflow: g.nflow}
	return n
}

// AddBoundary attaches a boundary catch event to an activity.
func (g *Graph) AddBoundary(host *Node, id string, interrupting bool, def EventDef) *Node {
	b := &Node{ID: id, Kind: Catch, Interrupting: interrupting, Host: host, Defs: []EventDef{def}, Parent: g}
	host.Boundary = append(host.Boundary, b)
	g.byID[id] = b
	return b
}

// Link adds a sequence flow.
func (g *Graph) Link(src, dst *Node, cond *Cond) *Flow {
	*g.nflow++
	f := &Flow{ID: fmt.Sprintf("f%d_%s_%s", *g.nflow, src.ID, dst.ID), Src: src, Dst: dst, Cond: cond}
	src.Out = append(src.Out, f)
	dst.In = append(dst.In, f)
	g.Flows = append(g.Flows, f)
	return f
}

// LinkDefault adds a sequence flow and makes it the default flow of its source gateway.
func (g *Graph) LinkDefault(src, dst *Node) *Flow {
	f := g.Link(src, dst, nil)
	src.Default = f
	return f
}

const ExprLang = "https://github.com/expr-lang/expr"
const XPathLang = "http://www.w3.org/1999/XPath"

func esc(s string) string {
	r := strings.NewReplacer("&", "&amp;", "<", "&lt;", ">", "&gt;", "\"", "&quot;")
	return r.Replace(s)
}

func (g *Graph) signals(sig, msg map[string]bool) {
	add := func(n *Node) {
		for _, d := range n.Defs {
			switch d.Kind {
			case "signal":
				sig[d.Ref] = true
			case "message":
				ref := d.Ref
				if j := strings.Index(ref, "#"); j >= 0 {
					ref = ref[:j]
				}
				msg[ref] = true
			}
		}
	}
	for _, n := range g.Nodes {
		add(n)
		for _, b := range n.Boundary {
			add(b)
		}
		if n.Inner != nil {
			n.Inner.signals(sig, msg)
		}
	}
}

func writeDefs(b *strings.Builder, ind string, n *Node) {
	for i, d := range n.Defs {
		switch d.Kind {
		case "signal":
			fmt.Fprintf(b, "%s<bpmn:signalEventDefinition id=\"%s_d%d\" signalRef=\"%s\"/>\n", ind, n.ID, i, esc(d.Ref))
		case "message":
			// "m#op": message m with operation reference op
			if j := strings.Index(d.Ref, "#"); j >= 0 {
				fmt.Fprintf(b, "%s<bpmn:messageEventDefinition id=\"%s_d%d\" messageRef=\"%s\"><bpmn:operationRef>%s</bpmn:operationRef></bpmn:messageEventDefinition>\n", ind, n.ID, i, esc(d.Ref[:j]), esc(d.Ref[j+1:]))
			} else {
				fmt.Fprintf(b, "%s<bpmn:messageEventDefinition id=\"%s_d%d\" messageRef=\"%s\"/>\n", ind, n.ID, i, esc(d.Ref))
			}
		case "timer":
			fmt.Fprintf(b, "%s<bpmn:timerEventDefinition id=\"%s_d%d\"><bpmn:%s xsi:type=\"bpmn:tFormalExpression\">%s</bpmn:%s></bpmn:timerEventDefinition>\n", ind, n.ID, i, d.Sub, esc(d.Ref), d.Sub)
		}
	}
}

func (g *Graph) writeBody(b *strings.Builder, ind string) {
	for _, n := range g.Nodes {
		tag := string(n.Kind)
		if n.Tag != "" {
			tag = n.Tag
		}
		attrs := fmt.Sprintf("id=\"%s\"", n.ID)
		if n.Default != nil {
			attrs += fmt.Sprintf(" default=\"%s\"", n.Default.ID)
		}
		if n.ParallelMult {
			attrs += " parallelMultiple=\"true\""
		}
		fmt.Fprintf(b, "%s<bpmn:%s %s>\n", ind, tag, attrs)
		if len(n.Results) > 0 || len(n.Props) > 0 || len(n.Headers) > 0 || n.Retries != "" || n.Timeout != "" {
			fmt.Fprintf(b, "%s  <bpmn:extensionElements>\n", ind)
			if n.Retries != "" || n.Timeout != "" {
				attrs := ""
				if n.Retries != "" {
					attrs += fmt.Sprintf(" retries=\"%s\"", n.Retries)
				}
				if n.Timeout != "" {
					attrs += fmt.Sprintf(" timeout=\"%s\"", n.Timeout)
				}
				fmt.Fprintf(b, "%s    <olive:taskDefinition type=\"service\"%s/>\n", ind, attrs)
			}
			if len(n.Headers) > 0 {
				fmt.Fprintf(b, "%s    <olive:taskHeaders>\n", ind)
				for _, p := range n.Headers {
					fmt.Fprintf(b, "%s      <olive:header name=\"%s\" value=\"%s\" type=\"%s\"/>\n", ind, esc(p[0]), esc(p[1]), p[2])
				}
				fmt.Fprintf(b, "%s    </olive:taskHeaders>\n", ind)
			}
			if len(n.Props) > 0 {
				fmt.Fprintf(b, "%s    <olive:properties>\n", ind)
				for _, p := range n.Props {
					fmt.Fprintf(b, "%s      <olive:property name=\"%s\" value=\"%s\" type=\"%s\"/>\n", ind, esc(p[0]), esc(p[1]), p[2])
				}
				fmt.Fprintf(b, "%s    </olive:properties>\n", ind)
			}
			if len(n.Results) > 0 {
				fmt.Fprintf(b, "%s    <olive:results>\n", ind)
				for i, r := range n.Results {
					t := ""
					if i < len(n.RTypes) && n.RTypes[i] != "" {
						t = fmt.Sprintf(" type=\"%s\"", n.RTypes[i])
					}
					fmt.Fprintf(b, "%s      <olive:field name=\"%s\"%s/>\n", ind, esc(r), t)
				}
				fmt.Fprintf(b, "%s    </olive:results>\n", ind)
			}
			fmt.Fprintf(b, "%s  </bpmn:extensionElements>\n", ind)
		}
		for _, f := range n.In {
			fmt.Fprintf(b, "%s  <bpmn:incoming>%s</bpmn:incoming>\n", ind, f.ID)
		}
		for _, f := range n.Out {
			fmt.Fprintf(b, "%s  <bpmn:outgoing>%s</bpmn:outgoing>\n", ind, f.ID)
		}
		writeDefs(b, ind+"  ", n)
		if n.Inner != nil {
			n.Inner.writeBody(b, ind+"  ")
		}
		fmt.Fprintf(b, "%s</bpmn:%s>\n", ind, tag)
		for _, be := range n.Boundary {
			fmt.Fprintf(b, "%s<bpmn:boundaryEvent id=\"%s\" cancelActivity=\"%v\" attachedToRef=\"%s\">\n", ind, be.ID, be.Interrupting, n.ID)
			for _, f := range be.Out {
				fmt.Fprintf(b, "%s  <bpmn:outgoing>%s</bpmn:outgoing>\n", ind, f.ID)
			}
			writeDefs(b, ind+"  ", be)
			fmt.Fprintf(b, "%s</bpmn:boundaryEvent>\n", ind)
		}
	}
	for _, d := range g.Data {
		fmt.Fprintf(b, "%s<bpmn:dataObjectReference id=\"ref_%s\" name=\"%s\" dataObjectRef=\"%s\"/>\n", ind, d.ID, esc(d.Name), d.ID)
		fmt.Fprintf(b, "%s<bpmn:dataObject id=\"%s\"><bpmn:extensionElements><olive:dataObjectBody><![CDATA[%s]]></olive:dataObjectBody></bpmn:extensionElements></bpmn:dataObject>\n", ind, d.ID, d.Body)
	}
	for _, f := range g.Flows {
		if f.Cond == nil {
			fmt.Fprintf(b, "%s<bpmn:sequenceFlow id=\"%s\" sourceRef=\"%s\" targetRef=\"%s\"/>\n", ind, f.ID, f.Src.ID, f.Dst.ID)
			continue
		}
		lang := ""
		if f.Cond.Lang == "xpath" {
			lang = fmt.Sprintf(" language=\"%s\"", XPathLang)
		}
		fmt.Fprintf(b, "%s<bpmn:sequenceFlow id=\"%s\" sourceRef=\"%s\" targetRef=\"%s\">\n%s  <bpmn:conditionExpression xsi:type=\"bpmn:tFormalExpression\"%s>%s</bpmn:conditionExpression>\n%s</bpmn:sequenceFlow>\n",
			ind, f.ID, f.Src.ID, f.Dst.ID, ind, lang, esc(f.Cond.Src), ind)
	}
}

// XML renders the graph as an executable BPMN definitions document.
func (g *Graph) XML() string {
	var b strings.Builder
	b.WriteString("<?xml version=\"1.0\" encoding=\"UTF-8\"?>\n")
	fmt.Fprintf(&b, "<bpmn:definitions xmlns:bpmn=\"http://www.omg.org/spec/BPMN/20100524/MODEL\" xmlns:xsi=\"http://www.w3.org/2001/XMLSchema-instance\" xmlns:olive=\"http://olive.io/spec/BPMN/MODEL\" id=\"defs_%s\" targetNamespace=\"http://bpmn.io/schema/bpmn\" expressionLanguage=\"%s\">\n", g.ID, ExprLang)
	fmt.Fprintf(&b, "  <bpmn:process id=\"%s\" isExecutable=\"true\">\n", g.ID)
	g.writeBody(&b, "    ")
	b.WriteString("  </bpmn:process>\n")
	sig, msg := map[string]bool{}, map[string]bool{}
	g.signals(sig, msg)
	var ks []string
	for k := range sig {
		ks = append(ks, k)
	}
	sort.Strings(ks)
	for _, k := range ks {
		fmt.Fprintf(&b, "  <bpmn:signal id=\"%s\" name=\"%s\"/>\n", esc(k), esc(k))
	}
	ks = nil
	for k := range msg {
		ks = append(ks, k)
	}
	sort.Strings(ks)
	for _, k := range ks {
		fmt.Fprintf(&b, "  <bpmn:message id=\"%s\" name=\"%s\"/>\n", esc(k), esc(k))
	}
	b.WriteString("</bpmn:definitions>\n")
	return b.String()
}

// Parse renders and parses the graph (done once per scenario, outside any execution).
func (g *Graph) Parse() *schema.Definitions {
	defs, err := schema.Parse([]byte(g.XML()))
	if err != nil {
		panic(fmt.Sprintf("generated XML does not parse: %v\n%s", err, g.XML()))
	}
	return defs
}

// ---- conditions ----

func boolOf(v any) bool {
	b, _ := v.(bool)
	return b
}

// Var is true iff the boolean variable is true.
func Var(name string) *Cond {
	return &Cond{Src: name + " == true", Eval: func(v map[string]any) bool { return boolOf(v[name]) }}
}

// NotVar is true iff the boolean variable is not true.
func NotVar(name string) *Cond {
	return &Cond{Src: name + " != true", Eval: func(v map[string]any) bool { return !boolOf(v[name]) }}
}

// Const is a constant condition.
func Const(b bool) *Cond {
	return &Cond{Src: fmt.Sprint(b), Eval: func(map[string]any) bool { return b }}
}

func intOf(v any) int64 {
	switch x := v.(type) {
	case int:
		return int64(x)
	case int64:
		return x
	case int32:
		return int64(x)
	case float64:
		return int64(x)
	}
	return 0
}

// IntLt is true iff the integer variable is less than k.
func IntLt(name string, k int64) *Cond {
	return &Cond{Src: fmt.Sprintf("%s < %d", name, k), Eval: func(v map[string]any) bool { return intOf(v[name]) < k }}
}

// IntGe is true iff the integer variable is at least k.
func IntGe(name string, k int64) *Cond {
	return &Cond{Src: fmt.Sprintf("%s >= %d", name, k), Eval: func(v map[string]any) bool { return intOf(v[name]) >= k }}
}

// DataObjConst reads a boolean field of a declared data object whose body makes it b.
func DataObjConst(object, field string, b bool) *Cond {
	return &Cond{Src: fmt.Sprintf("getDataObject('%s').%s == true", object, field), Eval: func(map[string]any) bool { return b }}
}

// NumConst is a constant comparison whose text is a valid boolean expression in both
// languages ("1 < 2" / "2 < 1"); lang selects the language attribute ("" = expr, "xpath").
func NumConst(b bool, lang string) *Cond {
	src := "2 < 1"
	if b {
		src = "1 < 2"
	}
	return &Cond{Src: src, Lang: lang, Eval: func(map[string]any) bool { return b }}
}

// XPathConst is a constant condition in the XPath language.
func XPathConst(b bool) *Cond {
	return &Cond{Src: fmt.Sprintf("%v()", b), Lang: "xpath", Eval: func(map[string]any) bool { return b }}
}

// Set is a definitions document with several processes (process sets, C18): executable
// processes, waiting (non-executable) ones, and message flows from throw events to start or
// catch events.
type Set struct {
	ID           string
	Procs        []*Graph
	Waiting      map[string]bool // graph id -> isExecutable="false"
	MessageFlows [][2]string     // source node id, target node id
}

// XML renders the set.
func (s *Set) XML() string {
	var b strings.Builder
	b.WriteString("<?xml version=\"1.0\" encoding=\"UTF-8\"?>\n")
	fmt.Fprintf(&b, "<bpmn:definitions xmlns:bpmn=\"http://www.omg.org/spec/BPMN/20100524/MODEL\" xmlns:xsi=\"http://www.w3.org/2001/XMLSchema-instance\" xmlns:olive=\"http://olive.io/spec/BPMN/MODEL\" id=\"defs_%s\" targetNamespace=\"http://bpmn.io/schema/bpmn\" expressionLanguage=\"%s\">\n", s.ID, ExprLang)
	if len(s.MessageFlows) > 0 {
		fmt.Fprintf(&b, "  <bpmn:collaboration id=\"collab_%s\">\n", s.ID)
		for i, g := range s.Procs {
			fmt.Fprintf(&b, "    <bpmn:participant id=\"part%d\" processRef=\"%s\"/>\n", i, g.ID)
		}
		for i, mf := range s.MessageFlows {
			fmt.Fprintf(&b, "    <bpmn:messageFlow id=\"mf%d\" sourceRef=\"%s\" targetRef=\"%s\"/>\n", i, mf[0], mf[1])
		}
		b.WriteString("  </bpmn:collaboration>\n")
	}
	sig, msg := map[string]bool{}, map[string]bool{}
	for _, g := range s.Procs {
		fmt.Fprintf(&b, "  <bpmn:process id=\"%s\" isExecutable=\"%v\">\n", g.ID, !s.Waiting[g.ID])
		g.writeBody(&b, "    ")
		b.WriteString("  </bpmn:process>\n")
		g.signals(sig, msg)
	}
	var ks []string
	for k := range sig {
		ks = append(ks, k)
	}
	sort.Strings(ks)
	for _, k := range ks {
		fmt.Fprintf(&b, "  <bpmn:signal id=\"%s\" name=\"%s\"/>\n", esc(k), esc(k))
	}
	ks = nil
	for k := range msg {
		ks = append(ks, k)
	}
	sort.Strings(ks)
	for _, k := range ks {
		fmt.Fprintf(&b, "  <bpmn:message id=\"%s\" name=\"%s\"/>\n", esc(k), esc(k))
	}
	b.WriteString("</bpmn:definitions>\n")
	return b.String()
}

// Parse renders and parses the set.
func (s *Set) Parse() *schema.Definitions {
	defs, err := schema.Parse([]byte(s.XML()))
	if err != nil {
		panic(fmt.Sprintf("generated XML does not parse: %v\n%s", err, s.XML()))
	}
	return defs
}
