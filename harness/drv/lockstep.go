package drv

import (
	"fmt"
	"sort"

	"github.com/olive-io/bpmn/schema"
	bpmn "github.com/olive-io/bpmn/v2"
	"github.com/olive-io/bpmn/v2/verifrt"

	"verif/harness/h"
)

// LockStep drives an instance and the token game in lock-step (discipline Q of DESIGN.md):
// at every quiescent state the unanswered requests of the implementation must equal the
// model's enabled tasks; then one pending task is chosen (all choices are explored) and
// answered in both.
type LockStep struct {
	Sig    string // signature prefix, e.g. "C03/pargw"
	G      *Graph
	Defs   *schema.Definitions
	Vars   map[string]any
	Answer func(id string, visit int, vars map[string]any) map[string]any
	// MaxAnswers bounds the number of answers (loops); 0 = 64.
	MaxAnswers int
	Open       OpenOpts
	// Model, if set, is the graph the reference model runs on (differential checks: C12 uses the
	// unwrapped program); default G.
	Model *Graph
	// AfterFinal is called with the run and the model after the final checks.
	AfterFinal func(r *Run, m *Model)
	// SkipVars disables the final variable comparison.
	SkipVars bool
}

func diffMultiset(impl, model []string) (extra, missing []string) {
	cnt := map[string]int{}
	for _, x := range impl {
		cnt[x]++
	}
	for _, x := range model {
		cnt[x]--
	}
	var keys []string
	for k := range cnt {
		keys = append(keys, k)
	}
	sort.Strings(keys)
	for _, k := range keys {
		for i := 0; i < cnt[k]; i++ {
			extra = append(extra, k)
		}
		for i := 0; i < -cnt[k]; i++ {
			missing = append(missing, k)
		}
	}
	return
}

func distinct(sorted []string) []string {
	var out []string
	for i, s := range sorted {
		if i == 0 || s != sorted[i-1] {
			out = append(out, s)
		}
	}
	return out
}

// Compare checks the simulation relation in a quiescent state. It returns false after having
// recorded a violation.
func (ls *LockStep) Compare(r *Run, m *Model, history []string) bool {
	if r.StartErr != nil {
		h.Fail(ls.Sig+"/start-error", "StartAll returned %v", r.StartErr)
		return false
	}
	if !r.StartReturned {
		h.Fail(ls.Sig+"/startall-returns", "StartAll has not returned in a quiescent state (history %v)", history)
		return false
	}
	extra, missing := diffMultiset(r.PendingIDs(), m.PendingIDs())
	if len(extra) > 0 {
		h.Fail(ls.Sig+"/requested-too-often", "after answers %v the engine has unanswered requests %v, token semantics gives %v (extra %v)", history, r.PendingIDs(), m.PendingIDs(), extra)
		return false
	}
	if len(missing) > 0 {
		h.Fail(ls.Sig+"/not-requested", "after answers %v the engine has unanswered requests %v, token semantics gives %v (missing %v)", history, r.PendingIDs(), m.PendingIDs(), missing)
		return false
	}
	ek := r.ErrorKinds()
	me := sortedCopy(m.Errs)
	if !eqStrings(ek, me) {
		h.Fail(ls.Sig+"/error-traces", "after answers %v error traces %v, expected %v", history, ek, me)
		return false
	}
	if len(r.Grammar) > 0 {
		h.Fail("C09/engine/causal-order", "%s (history %v)", r.Grammar[0], history)
		return false
	}
	return true
}

// Final checks completion, end events, variables.
func (ls *LockStep) Final(r *Run, m *Model, w *Wait, history []string) {
	if m.Complete() {
		if !w.Returned {
			h.Fail(ls.Sig+"/completes", "no token remains (answers %v, ended %v) but WaitUntilComplete has not returned", history, m.Ended)
			return
		}
		if !w.Result {
			h.Fail(ls.Sig+"/completes", "WaitUntilComplete returned false with a live context")
		}
		if r.Ceased != 1 {
			h.Fail(ls.Sig+"/cease-once", "%d CeaseFlowTrace after completion, want 1", r.Ceased)
		} else if r.CeasedAt < r.LastFlowAt {
			h.Fail(ls.Sig+"/cease-last", "CeaseFlowTrace at stream position %d precedes a flow trace at %d", r.CeasedAt, r.LastFlowAt)
		}
	} else {
		if w.Returned && w.Result {
			h.Fail(ls.Sig+"/completes-early", "WaitUntilComplete returned true although tokens remain: %s", m)
			return
		}
		if r.Ceased != 0 {
			h.Fail(ls.Sig+"/completes-early", "CeaseFlowTrace emitted although tokens remain: %s", m)
		}
	}
	got, want := sortedCopy(r.Completed), sortedCopy(m.Ended)
	if !eqStrings(got, want) {
		h.Fail(ls.Sig+"/end-events", "CompletionTrace nodes %v, token game reaches %v (answers %v)", got, want, history)
	}
	if !ls.SkipVars {
		iv := r.Vars()
		for k, v := range m.Vars {
			if fmt.Sprint(iv[k]) != fmt.Sprint(v) {
				h.Fail(ls.Sig+"/variables", "variable %s = %v (%T), expected %v (%T) after answers %v", k, iv[k], iv[k], v, v, history)
				break
			}
		}
		for k := range iv {
			if _, ok := m.Vars[k]; !ok {
				h.Fail(ls.Sig+"/variables", "unexpected variable %s = %v", k, iv[k])
				break
			}
		}
	}
	if ls.AfterFinal != nil {
		ls.AfterFinal(r, m)
	}
}

// Body returns the scenario body.
func (ls *LockStep) Body() func() {
	return func() {
		o := ls.Open
		o.Vars = ls.Vars
		r := Open(ls.G, ls.Defs, o)
		mg := ls.Model
		if mg == nil {
			mg = ls.G
		}
		m := NewModel(mg, ls.Vars)
		w := r.WaitComplete(nil)
		r.StartAll()
		m.StartAll()
		max := ls.MaxAnswers
		if max == 0 {
			max = 64
		}
		var history []string
		for step := 0; ; step++ {
			verifrt.WaitIdle()
			if !ls.Compare(r, m, history) {
				return
			}
			if len(m.Pending) == 0 {
				break
			}
			if step >= max {
				panic("lock-step: answer budget exceeded (loop in the scenario?)")
			}
			ids := distinct(m.PendingIDs())
			id := ids[verifrt.Choose(len(ids))]
			pt := r.Pending(id)
			idx := -1
			for i, t := range m.Pending {
				if t.At.ID == id {
					idx = i
					break
				}
			}
			var res map[string]any
			if ls.Answer != nil {
				res = ls.Answer(id, m.Pending[idx].Visit, m.Vars)
			}
			history = append(history, id)
			m.Answer(idx, res)
			if res != nil {
				r.Answer(pt, bpmn.DoWithResults(res))
			} else {
				r.Answer(pt)
			}
		}
		ls.Final(r, m, w, history)
	}
}
