package drv

import (
	"fmt"
	"sort"

	"github.com/olive-io/bpmn/schema"
	bpmn "github.com/olive-io/bpmn/v2"
	"github.com/olive-io/bpmn/v2/verifrt"

	"verif/harness/h"
)

// LockStep drives an instance and the token game in lock-step (discipline Q of DESIGN.md):
// at every quiescent state the unanswered requests of the implementation must equal the
// model's enabled tasks; then one pending task is chosen (all choices are explored) and
// answered in both.
type LockStep struct {
	Sig    string // signature prefix, e.g. "C03/pargw"
	G      *Graph
	Defs   *schema.Definitions
	Vars   map[string]any
	Answer func(id string, visit int, vars map[string]any) map[string]any
	// Exit tells which tasks are answered with an error and a handler in exit mode: the token
	// ends there (one task-error trace is expected).
	Exit func(id string) bool
	// MaxAnswers bounds the number of answers (loops); 0 = 64.
	MaxAnswers int
	Open       OpenOpts
	// Model, if set, is the graph the reference model runs on (differential checks: C12 uses the
	// unwrapped program); default G.
	Model *Graph
	// AfterFinal is called with the run and the model after the final checks.
	AfterFinal func(r *Run, m *Model)
	// SkipVars disables the final variable comparison.
	SkipVars bool
	trial    *[][2]string
	// CompletionShape is appended to the signatures of the completion clauses.
	CompletionShape string
	// Ctx, if set, gives the enclosing-block context of a node id; it is appended to the
	// signatures of the request clauses ("...@incl<loop").
	Ctx func(nodeID string) string
	// GrammarSig, if set, replaces the signature "C09/engine/causal-order" of a trace-grammar
	// failure (families whose input shape must be visible in the signature)
	GrammarSig string
}

func (ls *LockStep) grammarSig() string {
	if ls.GrammarSig != "" {
		return ls.GrammarSig
	}
	return "C09/engine/causal-order"
}

func diffMultiset(impl, model []string) (extra, missing []string) {
	cnt := map[string]int{}
	for _, x := range impl {
		cnt[x]++
	}
	for _, x := range model {
		cnt[x]--
	}
	var keys []string
	for k := range cnt {
		keys = append(keys, k)
	}
	sort.Strings(keys)
	for _, k := range keys {
		for i := 0; i < cnt[k]; i++ {
			extra = append(extra, k)
		}
		for i := 0; i < -cnt[k]; i++ {
			missing = append(missing, k)
		}
	}
	return
}

func distinct(sorted []string) []string {
	var out []string
	for i, s := range sorted {
		if i == 0 || s != sorted[i-1] {
			out = append(out, s)
		}
	}
	return out
}

// Compare checks the simulation relation in a quiescent state. It returns false after having
// recorded a violation.
func (ls *LockStep) Compare(r *Run, m *Model, history []string) bool {
	if r.StartErr != nil {
		ls.fail("/start-error", "StartAll returned %v", r.StartErr)
		return false
	}
	if !r.StartReturned {
		ls.fail("/startall-returns", "StartAll has not returned in a quiescent state (history %v)", history)
		return false
	}
	extra, missing := diffMultiset(r.PendingIDs(), m.PendingIDs())
	if len(extra) > 0 {
		ls.fail("/requested-too-often/"+ls.shape0(extra[0])+revisit(r.Requests(extra[0])-1)+ls.ctxOf(extra[0]), "after answers %v the engine has unanswered requests %v, token semantics gives %v (extra %v)", history, r.PendingIDs(), m.PendingIDs(), extra)
		return false
	}
	if len(missing) > 0 {
		ls.fail("/not-requested/"+ls.shape0(missing[0])+revisit(r.Requests(missing[0]))+ls.ctxOf(missing[0]), "after answers %v the engine has unanswered requests %v, token semantics gives %v (missing %v)", history, r.PendingIDs(), m.PendingIDs(), missing)
		return false
	}
	ek := r.ErrorKinds()
	me := sortedCopy(m.Errs)
	if !eqStrings(ek, me) {
		extraE, missingE := diffMultiset(ek, me)
		what := ""
		if len(missingE) > 0 {
			what = "missing-" + errKind(missingE[0]) + ls.ctxOf(errNode(missingE[0]))
		} else {
			what = "unexpected-" + errKind(extraE[0]) + ls.ctxOf(errNode(extraE[0]))
		}
		ls.fail("/error-traces/"+what, "after answers %v error traces %v, expected %v", history, ek, me)
		return false
	}
	if len(r.Grammar) > 0 {
		h.Fail(ls.grammarSig(), "%s (history %v)", r.Grammar[0], history)
		return false
	}
	return true
}

// shape names the kinds of the nodes immediately upstream of a task: the discriminator that
// keeps different root causes apart in violation signatures.
func errKind(e string) string {
	for i := 0; i < len(e); i++ {
		if e[i] == ':' {
			return e[:i]
		}
	}
	return "other"
}

func errNode(e string) string {
	for i := 0; i < len(e); i++ {
		if e[i] == ':' {
			return e[i+1:]
		}
	}
	return ""
}

// revisit distinguishes the first request of a task from later ones (loop re-entry).
func revisit(before int) string {
	if before > 0 {
		return "/revisit"
	}
	return ""
}

func (ls *LockStep) ctxOf(id string) string {
	if ls.Ctx == nil {
		return ""
	}
	return "@" + ls.Ctx(id)
}

func (ls *LockStep) cshape() string { return "" }

// fail records a violation; the signature is <Sig><clause>[#<structural tags of the input>].
func (ls *LockStep) fail(clause, format string, a ...any) {
	sig := ls.Sig + clause
	if ls.CompletionShape != "" {
		sig += "#" + ls.CompletionShape
	}
	if ls.trial != nil {
		*ls.trial = append(*ls.trial, [2]string{sig, fmt.Sprintf(format, a...)})
		return
	}
	h.Fail(sig, format, a...)
}

// try runs a check against one model without emitting its violations.
func (ls *LockStep) try(f func()) [][2]string {
	var got [][2]string
	ls.trial = &got
	f()
	ls.trial = nil
	return got
}

func emit(fs [][2]string) {
	for _, f := range fs {
		h.Fail(f[0], "%s", f[1])
	}
}

func hasOrJoin(g *Graph) bool {
	for _, n := range g.Nodes {
		if n.Kind == OR && (len(n.In) > 1 || len(n.Out) == 1) {
			return true
		}
		if n.Inner != nil && hasOrJoin(n.Inner) {
			return true
		}
	}
	return false
}

func (ls *LockStep) shape(taskID string) string {
	s := ls.shape0(taskID)
	if ls.Ctx != nil {
		s += "@" + ls.Ctx(taskID)
	}
	return s
}

func (ls *LockStep) shape0(taskID string) string {
	n := ls.G.Find(taskID)
	if n == nil {
		return "unknown"
	}
	seen := map[string]bool{}
	var kinds []string
	for _, f := range n.In {
		k := string(f.Src.Kind)
		if f.Src.Host != nil {
			k = "boundaryEvent"
		}
		if f.Src.Kind == Start && f.Src.Parent != nil && f.Src.Parent.Sub != nil {
			k = "startEvent-in-subProcess"
		}
		if !seen[k] {
			seen[k] = true
			kinds = append(kinds, k)
		}
	}
	sort.Strings(kinds)
	if len(kinds) == 0 {
		return "no-incoming"
	}
	s := "after-" + kinds[0]
	for _, k := range kinds[1:] {
		s += "+" + k
	}
	return s
}

// Final checks completion, end events, variables.
func (ls *LockStep) Final(r *Run, m *Model, w *Wait, history []string) {
	if m.Stuck > 0 {
		// a token without an effective flow at a gateway: the statement only requires the error
		// trace (compared above); what happens to the instance afterwards is left open
		return
	}
	if m.Complete() {
		if !w.Returned {
			ls.fail("/completes"+ls.cshape(), "no token remains (answers %v, ended %v) but WaitUntilComplete has not returned", history, m.Ended)
			return
		}
		if !w.Result {
			ls.fail("/completes", "WaitUntilComplete returned false with a live context")
		}
		if r.Ceased != 1 {
			ls.fail("/cease-once"+ls.cshape(), "%d CeaseFlowTrace after completion, want 1", r.Ceased)
		} else if r.CeasedAt < r.LastFlowAt {
			ls.fail("/cease-last", "CeaseFlowTrace at stream position %d precedes a flow trace at %d", r.CeasedAt, r.LastFlowAt)
		}
	} else {
		if w.Returned && w.Result {
			ls.fail("/completes-early"+ls.cshape(), "WaitUntilComplete returned true although tokens remain: %s", m)
			return
		}
		if r.Ceased != 0 {
			ls.fail("/completes-early", "CeaseFlowTrace emitted although tokens remain: %s", m)
		}
	}
	got, want := sortedCopy(r.Completed), sortedCopy(m.Ended)
	if !eqStrings(got, want) {
		ls.fail("/end-events"+ls.cshape(), "CompletionTrace nodes %v, token game reaches %v (answers %v)", got, want, history)
	}
	if !ls.SkipVars {
		iv := r.Vars()
		for k, v := range m.Vars {
			if fmt.Sprint(iv[k]) != fmt.Sprint(v) {
				ls.fail("/variables", "variable %s = %v (%T), expected %v (%T) after answers %v", k, iv[k], iv[k], v, v, history)
				break
			}
		}
		for k := range iv {
			if _, ok := m.Vars[k]; !ok {
				ls.fail("/variables", "unexpected variable %s = %v", k, iv[k])
				break
			}
		}
	}
	if ls.AfterFinal != nil {
		ls.AfterFinal(r, m)
	}
}

// Body returns the scenario body.
func (ls *LockStep) Body() func() {
	return func() {
		o := ls.Open
		o.Vars = ls.Vars
		r := Open(ls.G, ls.Defs, o)
		mg := ls.Model
		if mg == nil {
			mg = ls.G
		}
		// The property gives inclusive joins a window: no earlier than BPMN's rule, no later than
		// when every token of the fork activation has arrived or ended elsewhere. Two models bound
		// it; the implementation must agree with at least one of them at every quiescent state.
		models := []*Model{NewModel(mg, ls.Vars)}
		if hasOrJoin(mg) {
			late := NewModel(mg, ls.Vars)
			late.Late = true
			models = append(models, late)
		}
		// WaitUntilComplete is only meaningful once StartAll has been called (the completion
		// monitor takes the completion lock inside StartAll): the waiter is issued right after
		// StartAll returns, concurrently with everything the instance does from then on.
		var w *Wait
		r.AfterStart = func() { w = r.WaitComplete(nil) }
		r.StartAll()
		for _, m := range models {
			m.StartAll()
		}
		max := ls.MaxAnswers
		if max == 0 {
			max = 64
		}
		var history []string
		dump := func() {
			verifrt.Log("vars=%v", ls.Vars)
			for _, s := range r.Stream {
				verifrt.Log("trace %s", s)
			}
		}
		for step := 0; ; step++ {
			verifrt.WaitIdle()
			if len(r.Grammar) > 0 {
				h.Fail(ls.grammarSig(), "%s (history %v)", r.Grammar[0], history)
				dump()
				return
			}
			var alive []*Model
			var lastFail [][2]string
			for _, m := range models {
				fs := ls.try(func() { ls.Compare(r, m, history) })
				if len(fs) == 0 {
					alive = append(alive, m)
				} else {
					lastFail = fs
				}
			}
			if len(alive) == 0 {
				emit(lastFail)
				dump()
				return
			}
			models = alive
			m := models[0]
			if len(m.Pending) == 0 {
				break
			}
			if step >= max {
				panic("lock-step: answer budget exceeded (loop in the scenario?)")
			}
			ids := distinct(m.PendingIDs())
			id := ids[verifrt.Choose(len(ids))]
			pt := r.Pending(id)
			var res map[string]any
			for _, mm := range models {
				idx := -1
				for i, t := range mm.Pending {
					if t.At.ID == id {
						idx = i
						break
					}
				}
				if ls.Exit != nil && ls.Exit(id) {
					mm.Drop(idx)
					mm.Errs = append(mm.Errs, "task:"+id)
					continue
				}
				if ls.Answer != nil && res == nil {
					res = ls.Answer(id, mm.Pending[idx].Visit, mm.Vars)
				}
				mm.Answer(idx, res)
			}
			history = append(history, id)
			if ls.Exit != nil && ls.Exit(id) {
				hch := make(chan bpmn.ErrHandler, 1)
				hch <- bpmn.ErrHandler{Mode: bpmn.ExitMode}
				r.Answer(pt, bpmn.DoWithErrHandle(fmt.Errorf("exit"), hch))
			} else if res != nil {
				r.Answer(pt, bpmn.DoWithResults(res))
			} else {
				r.Answer(pt)
			}
		}
		var lastFail [][2]string
		ok := false
		for _, m := range models {
			fs := ls.try(func() { ls.Final(r, m, w, history) })
			if len(fs) == 0 {
				ok = true
				break
			}
			lastFail = fs
		}
		if !ok {
			emit(lastFail)
			dump()
		}
	}
}
