package drv

import (
	"fmt"
	"sort"
)

// The reference model: a plain token game over the graph (no goroutines). It is run in
// lock-step with the engine: every environment action (answering a task, delivering an event)
// is applied to both, the model is propagated to quiescence, and the observable state of the
// two is compared.

// Scope is one activation of a (sub-)process: tokens of an embedded sub-process live in their
// own scope; when it has no token left the parent's token continues.
type Scope struct {
	parent *Scope
	sub    *Node  // sub-process node (nil for the root)
	g      *Graph // graph the scope's tokens move in
	live   int
	via    *Flow // flow on which the parent token arrived
	coh    *Cohort
	dead   bool // interrupted by a boundary event
}

// Cohort is one activation of an inclusive fork: the tokens that descend from it. It is used by
// the "late" inclusive-join rule (fire when every token of the fork activation has either
// arrived at the join or ended elsewhere), the latest moment the property allows; the default
// "early" rule is BPMN's (fire as soon as no token can still reach an empty incoming flow).
type Cohort struct {
	parent *Cohort
	live   int
	joined bool
}

// Tok is a token waiting at a node.
type Tok struct {
	At    *Node
	Via   *Flow
	Scope *Scope
	Coh   *Cohort
	group *[]*Tok // event-based gateway alternatives
	// boundary bookkeeping for activities
	Interrupted bool
	Visit       int // how many times this task has been requested before (0-based)
}

type Model struct {
	G        *Graph
	Vars     map[string]any
	Pending  []*Tok // unanswered task requests, in the order they arose
	waiting  []*Tok // tokens at AND/OR joins and at catch events
	Ended    []string
	Errs     []string // expected error traces: "xor:<id>", "or:<id>"
	Stuck    int
	root     *Scope
	scopes   []*Scope // active sub-process activations
	Late     bool     // inclusive joins fire at the latest moment the property allows
	Requests map[string]int
	After    map[string]int // how many times a token continued past each node (sub-processes, catch events)
	Log      []string
	// parallel-multiple catch events: per node, how often each definition has been matched
	// while the node was listening, and how often the node has fired
	pmCount   map[string]map[string]int
	pmFired   map[string]int
	delivered map[string]int
}

// Delivered counts the deliveries of an event so far.
func (m *Model) Delivered(kind, ref string) int { return m.delivered[kind+":"+ref] }

func NewModel(g *Graph, vars map[string]any) *Model {
	m := &Model{G: g, Vars: map[string]any{}, Requests: map[string]int{}, After: map[string]int{}}
	for k, v := range vars {
		m.Vars[k] = v
	}
	m.root = &Scope{g: g}
	return m
}

// StartAll fires every start event of the top-level process.
func (m *Model) StartAll() {
	m.startScope(m.root)
	m.settle()
}

func (m *Model) startScope(s *Scope) {
	for _, n := range s.g.Nodes {
		if n.Kind == Start && len(n.Defs) == 0 {
			s.live++
			m.leave(n, s, n.Out, nil, nil)
		}
	}
}

// Complete reports whether no token remains anywhere.
func (m *Model) Complete() bool { return m.root.live == 0 }

// PendingIDs returns the multiset of task ids with an unanswered request, sorted.
func (m *Model) PendingIDs() []string {
	var out []string
	for _, t := range m.Pending {
		out = append(out, t.At.ID)
	}
	sort.Strings(out)
	return out
}

// Listening returns the ids of catch events (not boundary events) that hold a waiting token.
func (m *Model) Listening() []string {
	seen := map[string]bool{}
	var out []string
	for _, t := range m.waiting {
		if t.At.Kind == Catch && !seen[t.At.ID] {
			seen[t.At.ID] = true
			out = append(out, t.At.ID)
		}
	}
	sort.Strings(out)
	return out
}

func (m *Model) consume(s *Scope, coh *Cohort) {
	for c := coh; c != nil; c = c.parent {
		c.live--
		if c.live > 0 || c.joined {
			break
		}
		// every token of this fork activation ended without joining: the unit it formed in
		// the enclosing activation is gone too
	}
	s.live--
	if s.live < 0 {
		panic("model: negative token count")
	}
	if s.live == 0 && s.sub != nil && !s.dead {
		m.dropScope(s)
		// the sub-process activation is over: the parent's token continues
		m.After[s.sub.ID]++
		m.leave(s.sub, s.parent, m.trueFlows(s.sub.Out), nil, s.coh)
	}
}

// trueFlows: flows taken when leaving an activity or event (every flow whose condition holds).
func (m *Model) trueFlows(out []*Flow) []*Flow {
	var fs []*Flow
	for _, f := range out {
		if f.Cond == nil || f.Cond.Eval(m.Vars) {
			fs = append(fs, f)
		}
	}
	return fs
}

// leave moves one token of scope s out of node n along flows fs (0 flows: the token is
// consumed). grp, if set, makes the new tokens alternatives of an event-based gateway.
func (m *Model) leave(n *Node, s *Scope, fs []*Flow, grp *[]*Tok, coh *Cohort) {
	if len(fs) == 0 {
		m.consume(s, coh)
		return
	}
	s.live += len(fs) - 1
	if coh != nil {
		coh.live += len(fs) - 1
	}
	for _, f := range fs {
		m.arrive(f, s, grp, coh)
	}
}

func (m *Model) arrive(f *Flow, s *Scope, grp *[]*Tok, coh *Cohort) {
	n := f.Dst
	switch n.Kind {
	case Task:
		t := &Tok{At: n, Via: f, Scope: s, Coh: coh, Visit: m.Requests[n.ID]}
		m.Requests[n.ID]++
		m.Pending = append(m.Pending, t)
	case End:
		if s.parent == nil {
			// end events inside sub-processes are not observable from outside
			m.Ended = append(m.Ended, n.ID)
		}
		m.consume(s, coh)
	case XOR:
		var take *Flow
		for _, o := range n.Out {
			if o == n.Default {
				continue
			}
			if o.Cond == nil || o.Cond.Eval(m.Vars) {
				take = o
				break
			}
		}
		if take == nil {
			take = n.Default
		}
		if take == nil {
			m.Errs = append(m.Errs, "xor:"+n.ID)
			m.Stuck++ // the token stays at the gateway for ever
			return
		}
		m.leave(n, s, []*Flow{take}, nil, coh)
	case AND:
		m.waiting = append(m.waiting, &Tok{At: n, Via: f, Scope: s, Coh: coh})
	case OR:
		// a gateway with one incoming and one outgoing flow is a degenerate join: under the late
		// rule it too may wait for the other tokens of the fork activation to end
		if len(n.In) > 1 || (m.Late && coh != nil && len(n.Out) == 1) {
			m.waiting = append(m.waiting, &Tok{At: n, Via: f, Scope: s, Coh: coh})
		} else {
			m.orFork(n, s, coh)
		}
	case Sub:
		inner := &Scope{parent: s, sub: n, g: n.Inner, via: f, coh: coh}
		t := &Tok{At: n, Via: f, Scope: s}
		_ = t
		hasStart := false
		for _, x := range n.Inner.Nodes {
			if x.Kind == Start {
				hasStart = true
			}
		}
		m.scopes = append(m.scopes, inner)
		if hasStart {
			// keep the activation alive while its start events fire, so that an inner token that is
			// consumed at once does not complete the scope before all start events have fired
			inner.live++
			m.startScope(inner)
			m.consume(inner, nil)
		} else {
			// no start event: nothing runs inside (the engine reports an error); not generated
			m.Errs = append(m.Errs, "sub-nostart:"+n.ID)
			m.Stuck++
		}
	case Catch:
		t := &Tok{At: n, Via: f, Scope: s, group: grp, Coh: coh}
		if grp != nil {
			*grp = append(*grp, t)
		}
		m.waiting = append(m.waiting, t)
	case EBG:
		g := &[]*Tok{}
		m.leave(n, s, n.Out, g, coh)
	case Throw:
		m.After[n.ID]++
		m.leave(n, s, m.trueFlows(n.Out), nil, coh)
	case Start:
		// a start event reached by a flow behaves like a pass-through
		m.leave(n, s, n.Out, nil, coh)
	default:
		panic("model: unknown node kind " + string(n.Kind))
	}
}

func (m *Model) orFork(n *Node, s *Scope, coh *Cohort) {
	var fs []*Flow
	for _, o := range n.Out {
		if o == n.Default {
			continue
		}
		if o.Cond == nil || o.Cond.Eval(m.Vars) {
			fs = append(fs, o)
		}
	}
	if len(fs) == 0 && n.Default != nil {
		fs = []*Flow{n.Default}
	}
	if len(fs) == 0 {
		m.Errs = append(m.Errs, "or:"+n.ID)
		m.Stuck++
		return
	}
	if len(n.Out) == 1 && len(fs) == 1 {
		// a pure join: the token simply continues in the enclosing activation
		m.leave(n, s, fs, nil, coh)
		return
	}
	c := &Cohort{parent: coh, live: 1}
	m.leave(n, s, fs, nil, c)
}

func (m *Model) dropScope(s *Scope) {
	for i, x := range m.scopes {
		if x == s {
			m.scopes = append(m.scopes[:i], m.scopes[i+1:]...)
			return
		}
	}
}

// kill removes every token of a sub-process activation (interrupting boundary event).
func (m *Model) kill(s *Scope) {
	s.dead = true
	m.dropScope(s)
	for _, t := range m.Pending {
		for x := t.Scope; x != nil; x = x.parent {
			if x == s {
				t.Interrupted = true
			}
		}
	}
	var keep []*Tok
	for _, t := range m.waiting {
		inside := false
		for x := t.Scope; x != nil; x = x.parent {
			if x == s {
				inside = true
			}
		}
		if !inside {
			keep = append(keep, t)
		}
	}
	m.waiting = keep
	for _, x := range append([]*Scope{}, m.scopes...) {
		for p := x.parent; p != nil; p = p.parent {
			if p == s {
				x.dead = true
				m.dropScope(x)
			}
		}
	}
}

func (m *Model) removeWaiting(t *Tok) {
	for i, x := range m.waiting {
		if x == t {
			m.waiting = append(m.waiting[:i], m.waiting[i+1:]...)
			return
		}
	}
}

// settle fires joins until nothing changes.
func (m *Model) settle() {
	for changed := true; changed; {
		changed = false
		// AND joins
		for _, t := range m.waiting {
			if t.At.Kind != AND {
				continue
			}
			n, s := t.At, t.Scope
			per := map[*Flow]*Tok{}
			for _, x := range m.waiting {
				if x.At == n && x.Scope == s && per[x.Via] == nil {
					per[x.Via] = x
				}
			}
			if len(per) == len(n.In) {
				for _, x := range per {
					m.removeWaiting(x)
				}
				s.live -= len(per) - 1
				var coh *Cohort
				for _, x := range per {
					coh = x.Coh
				}
				if coh != nil {
					coh.live -= len(per) - 1
				}
				m.leave(n, s, n.Out, nil, coh)
				changed = true
				break
			}
		}
		if changed {
			continue
		}
		// OR joins
		for _, t := range m.waiting {
			if t.At.Kind != OR {
				continue
			}
			n, s := t.At, t.Scope
			per := map[*Flow]*Tok{}
			for _, x := range m.waiting {
				if x.At == n && x.Scope == s && per[x.Via] == nil {
					per[x.Via] = x
				}
			}
			if m.orJoinEnabled(n, s, per) {
				for _, x := range per {
					m.removeWaiting(x)
				}
				s.live -= len(per) - 1
				var coh *Cohort
				for _, x := range per {
					coh = x.Coh
				}
				var outer *Cohort
				if coh != nil {
					coh.live -= len(per)
					coh.joined = true
					outer = coh.parent
				}
				m.After[n.ID]++
				m.orFork(n, s, outer)
				changed = true
				break
			}
		}
	}
}

// positions returns the nodes at which tokens of scope s currently sit (excluding join n's own
// waiting tokens).
func (m *Model) positions(s *Scope, except *Node) []*Node {
	var ps []*Node
	for _, t := range m.Pending {
		if t.Scope == s && !t.Interrupted {
			ps = append(ps, t.At)
		}
	}
	for _, t := range m.waiting {
		if t.Scope == s && t.At != except {
			ps = append(ps, t.At)
		}
	}
	// active sub-process activations count as a token at the sub-process node
	var scopes func(x *Scope)
	seen := map[*Scope]bool{}
	scopes = func(x *Scope) {
		for x != nil && x.parent != nil {
			if x.parent == s && !seen[x] && x.live > 0 {
				seen[x] = true
				ps = append(ps, x.sub)
			}
			x = x.parent
		}
	}
	for _, t := range m.Pending {
		scopes(t.Scope)
	}
	for _, t := range m.waiting {
		scopes(t.Scope)
	}
	return ps
}

func (m *Model) orJoinEnabled(n *Node, s *Scope, have map[*Flow]*Tok) bool {
	if len(have) == 0 {
		return false
	}
	if m.Late {
		var coh *Cohort
		for _, x := range have {
			coh = x.Coh
		}
		if coh != nil {
			here := 0
			for _, x := range m.waiting {
				if x.At == n && x.Scope == s && x.Coh == coh {
					here++
				}
			}
			return here == coh.live
		}
	}
	// nodes from which an empty incoming flow of n can be reached without passing through n
	need := map[*Node]bool{}
	for _, f := range n.In {
		if have[f] == nil {
			need[f.Src] = true
		}
	}
	if len(need) == 0 {
		return true
	}
	for _, p := range m.positions(s, n) {
		seen := map[*Node]bool{n: true}
		var dfs func(x *Node) bool
		dfs = func(x *Node) bool {
			if need[x] {
				return true
			}
			if seen[x] {
				return false
			}
			seen[x] = true
			outs := append([]*Flow{}, x.Out...)
			for _, b := range x.Boundary {
				outs = append(outs, b.Out...)
			}
			for _, o := range outs {
				if o.Dst == n {
					continue
				}
				if dfs(o.Dst) {
					return true
				}
			}
			return false
		}
		if dfs(p) {
			return false
		}
	}
	return true
}

// Answer applies a successful answer to the i-th pending request: results are stored for
// declared field names only, then the token continues.
func (m *Model) Answer(i int, results map[string]any) {
	t := m.Pending[i]
	m.Pending = append(m.Pending[:i], m.Pending[i+1:]...)
	if t.Interrupted {
		return
	}
	for _, r := range t.At.Results {
		if v, ok := results[r]; ok {
			m.Vars[r] = canon(v)
		}
	}
	m.leave(t.At, t.Scope, m.trueFlows(t.At.Out), nil, t.Coh)
	m.settle()
}

// Drop removes the i-th pending request without continuing (answer with error + exit mode).
func (m *Model) Drop(i int) {
	t := m.Pending[i]
	m.Pending = append(m.Pending[:i], m.Pending[i+1:]...)
	if !t.Interrupted {
		m.consume(t.Scope, t.Coh)
	}
	m.settle()
}

func canon(v any) any {
	switch x := v.(type) {
	case int:
		return int64(x)
	case int32:
		return int64(x)
	}
	return v
}

// Deliver hands an event to the model: every listening catch event with a matching definition
// lets its tokens continue; boundary events of activities with a pending request react.
func (m *Model) Deliver(kind, ref string) {
	if m.delivered == nil {
		m.delivered = map[string]int{}
	}
	m.delivered[kind+":"+ref]++
	match := func(n *Node) bool {
		for _, d := range n.Defs {
			if d.Kind == kind && d.Ref == ref {
				return true
			}
		}
		return false
	}
	// intermediate catch events; a parallel-multiple one counts the match (once per delivery,
	// only while a token waits there) and fires when every definition has been matched more
	// often than the node has fired
	var fire []*Tok
	pmDecided := map[string]bool{}
	for _, t := range m.waiting {
		if t.At.Kind == Catch && match(t.At) {
			if n := t.At; n.ParallelMult {
				fires, seen := pmDecided[n.ID]
				if !seen {
					if m.pmCount == nil {
						m.pmCount, m.pmFired = map[string]map[string]int{}, map[string]int{}
					}
					if m.pmCount[n.ID] == nil {
						m.pmCount[n.ID] = map[string]int{}
					}
					m.pmCount[n.ID][kind+":"+ref]++
					least := -1
					for _, d := range n.Defs {
						if c := m.pmCount[n.ID][d.Kind+":"+d.Ref]; least < 0 || c < least {
							least = c
						}
					}
					fires = least > m.pmFired[n.ID]
					if fires {
						m.pmFired[n.ID]++
					}
					pmDecided[n.ID] = fires
				}
				if !fires {
					continue
				}
			}
			fire = append(fire, t)
		}
	}
	for _, t := range fire {
		still := false
		for _, x := range m.waiting {
			if x == t {
				still = true
			}
		}
		if !still {
			continue // withdrawn as a losing alternative by an earlier winner of the same delivery
		}
		m.removeWaiting(t)
		if t.group != nil {
			for _, o := range *t.group {
				if o != t {
					m.removeWaiting(o)
					o.Scope.live--
					if o.Coh != nil {
						o.Coh.live--
					}
				}
			}
			*t.group = nil
		}
		m.After[t.At.ID]++
		m.leave(t.At, t.Scope, m.trueFlows(t.At.Out), nil, t.Coh)
	}
	// boundary events
	for _, t := range append([]*Tok{}, m.Pending...) {
		if t.Interrupted {
			continue
		}
		for _, b := range t.At.Boundary {
			if !match(b) {
				continue
			}
			m.After[b.ID]++
			if b.Interrupting {
				t.Interrupted = true
				m.leave(b, t.Scope, m.trueFlows(b.Out), nil, t.Coh)
				break
			}
			t.Scope.live++
			if t.Coh != nil {
				t.Coh.live++
			}
			m.leave(b, t.Scope, m.trueFlows(b.Out), nil, t.Coh)
		}
	}
	// boundary events of active sub-process activations
	for _, s := range append([]*Scope{}, m.scopes...) {
		if s.dead {
			continue
		}
		for _, b := range s.sub.Boundary {
			if !match(b) {
				continue
			}
			m.After[b.ID]++
			if b.Interrupting {
				m.kill(s)
				m.leave(b, s.parent, m.trueFlows(b.Out), nil, s.coh)
				break
			}
			s.parent.live++
			if s.coh != nil {
				s.coh.live++
			}
			m.leave(b, s.parent, m.trueFlows(b.Out), nil, s.coh)
		}
	}
	m.settle()
}

func (m *Model) String() string {
	return fmt.Sprintf("pending=%v listening=%v ended=%v errs=%v stuck=%d live=%d vars=%v", m.PendingIDs(), m.Listening(), m.Ended, m.Errs, m.Stuck, m.root.live, m.Vars)
}
