package drv

import (
	"fmt"
	"time"

	"github.com/olive-io/bpmn/schema"
	bpmn "github.com/olive-io/bpmn/v2"
	"github.com/olive-io/bpmn/v2/verifrt"

	"verif/harness/h"
)

// EventLock is the lock-step driver for scenarios with events: at every quiescent state the
// environment either answers one pending task or delivers one event of the alphabet (every
// choice is explored), the same action is applied to the token game, and the observable states
// are compared. Deliveries are made from helper goroutines, so a ConsumeEvent that blocks is a
// finding, not a hang of the driver.
type EventLock struct {
	Sig       string
	G         *Graph
	Defs      *schema.Definitions
	Vars      map[string]any
	Events    []EventDef // alphabet
	MaxEvents int        // total number of deliveries per execution
	// PerEvent bounds how often one alphabet entry may be delivered (0 = MaxEvents).
	PerEvent int
	// Concurrent: deliver the chosen event from this many goroutines at once (default 1).
	Burst func(step int) int
	Open  OpenOpts
	// AllowEvent, if set, restricts which events may be delivered in the current model state
	// (used to stay inside what a statement specifies).
	AllowEvent func(m *Model, ev EventDef) bool
	// CompletesShape refines the signature of the completion clause.
	CompletesShape func(m *Model) string
	// Results, if set, gives the result fields an answer carries: visit counts the earlier
	// answers to the same activity.
	Results func(visit int, id string) map[string]any
	// Hook runs after the final checks.
	AfterFinal func(r *Run, m *Model, history []string)
	Tags       string
}

func (el *EventLock) fail(clause, format string, a ...any) {
	sig := el.Sig + clause
	if el.Tags != "" {
		sig += "#" + el.Tags
	}
	h.Fail(sig, format, a...)
}

type delivery struct {
	ev       EventDef
	returned bool
}

func (el *EventLock) Body() func() {
	return func() {
		o := el.Open
		o.Vars = el.Vars
		r := Open(el.G, el.Defs, o)
		m := NewModel(el.G, el.Vars)
		var w *Wait
		r.AfterStart = func() { w = r.WaitComplete(nil) }
		r.StartAll()
		m.StartAll()
		var history []string
		var sent []*delivery
		count := map[int]int{}
		visits := map[string]int{}
		dump := func() {
			for _, s := range r.Stream {
				verifrt.Log("trace %s", s)
			}
		}
		for step := 0; ; step++ {
			verifrt.WaitIdle()
			if r.StartErr != nil || !r.StartReturned {
				el.fail("/startall-returns", "StartAll has not returned (err %v) in a quiescent state", r.StartErr)
				return
			}
			for i, d := range sent {
				if !d.returned {
					el.fail("/consume-returns", "ConsumeEvent of delivery %d (%s %s) has not returned in a quiescent state; history %v; blocked: %v", i, d.ev.Kind, d.ev.Ref, history, verifrt.LiveRepoGoroutines())
					dump()
					return
				}
			}
			if len(r.Grammar) > 0 {
				h.Fail("C09/engine/causal-order", "%s (history %v)", r.Grammar[0], history)
				return
			}
			extra, missing := diffMultiset(r.PendingIDs(), m.PendingIDs())
			if len(extra) > 0 {
				el.fail("/continues-too-often/"+el.shape(extra[0]), "after %v the engine has unanswered requests %v, token semantics gives %v (extra %v)", history, r.PendingIDs(), m.PendingIDs(), extra)
				dump()
				return
			}
			if len(missing) > 0 {
				el.fail("/does-not-continue/"+el.shape(missing[0]), "after %v the engine has unanswered requests %v, token semantics gives %v (missing %v)", history, r.PendingIDs(), m.PendingIDs(), missing)
				dump()
				return
			}
			if ek, me := r.ErrorKinds(), sortedCopy(m.Errs); !eqStrings(ek, me) {
				el.fail("/error-traces", "after %v error traces %v, expected %v", history, ek, me)
				return
			}
			// options
			ids := distinct(m.PendingIDs())
			type opt struct {
				answer string
				ev     int
			}
			var opts []opt
			for _, id := range ids {
				opts = append(opts, opt{answer: id})
			}
			if len(sent) < el.MaxEvents {
				for i := range el.Events {
					if el.PerEvent > 0 && count[i] >= el.PerEvent {
						continue
					}
					if el.AllowEvent != nil && !el.AllowEvent(m, el.Events[i]) {
						continue
					}
					opts = append(opts, opt{ev: i})
				}
			}
			if len(opts) == 0 {
				break
			}
			op := opts[verifrt.Choose(len(opts))]
			if op.answer != "" {
				var res map[string]any
				if el.Results != nil {
					res = el.Results(visits[op.answer], op.answer)
					visits[op.answer]++
				}
				for i, t := range m.Pending {
					if t.At.ID == op.answer {
						m.Answer(i, res)
						break
					}
				}
				if res != nil {
					r.Answer(r.Pending(op.answer), bpmn.DoWithResults(res))
				} else {
					r.Answer(r.Pending(op.answer))
				}
				history = append(history, op.answer)
				continue
			}
			ev := el.Events[op.ev]
			count[op.ev]++
			n := 1
			if el.Burst != nil {
				n = el.Burst(step)
			}
			for k := 0; k < n; k++ {
				m.Deliver(ev.Kind, ev.Ref)
				d := &delivery{ev: ev}
				sent = append(sent, d)
				history = append(history, "!"+ev.Ref)
				go func() {
					switch ev.Kind {
					case "message":
						r.Message(ev.Ref)
					case "timer":
						// a timer definition of the alphabet "is delivered" by moving the mock
						// clock one hour on (the definitions used are PT1H durations)
						r.Clock.Add(time.Hour)
					default:
						r.Signal(ev.Ref)
					}
					d.returned = true
				}()
			}
		}
		// final state
		if m.Stuck == 0 {
			if m.Complete() {
				if w == nil || !w.Returned || !w.Result {
					cs := ""
					if el.CompletesShape != nil {
						cs = "/" + el.CompletesShape(m)
					}
					el.fail("/completes"+cs, "no token remains after %v but WaitUntilComplete has not returned true", history)
					dump()
				} else if r.Ceased != 1 {
					el.fail("/cease-once", "%d CeaseFlowTrace after completion", r.Ceased)
				}
			} else if w != nil && w.Returned && w.Result {
				el.fail("/completes-early", "WaitUntilComplete returned true although tokens remain: %s (history %v)", m, history)
			}
			got, want := sortedCopy(r.Completed), sortedCopy(m.Ended)
			if !eqStrings(got, want) {
				el.fail("/end-events", "CompletionTrace nodes %v, token game reaches %v (history %v)", got, want, history)
			}
		}
		if el.AfterFinal != nil {
			el.AfterFinal(r, m, history)
		}
	}
}

func (el *EventLock) shape(taskID string) string {
	n := el.G.Find(taskID)
	if n == nil || len(n.In) == 0 {
		return "unknown"
	}
	src := n.In[0].Src
	switch {
	case src.Host != nil && src.Interrupting:
		return "after-interrupting-boundary"
	case src.Host != nil:
		return "after-non-interrupting-boundary"
	case src.Kind == Catch:
		k := "catch"
		if len(src.In) > 0 && src.In[0].Src.Kind == EBG {
			k = "catch-after-event-gateway"
		}
		return "after-" + k
	}
	return fmt.Sprintf("after-%s", src.Kind)
}
