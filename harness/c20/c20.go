// Package c20: identifiers issued by the id generators never collide.
package c20

import (
	"context"
	"fmt"
	"time"

	"github.com/muyo/sno"

	"github.com/olive-io/bpmn/v2/pkg/id"
	"github.com/olive-io/bpmn/v2/pkg/tracing"
	"github.com/olive-io/bpmn/v2/verifrt"

	"verif/harness/c01"
	"verif/harness/drv"
	"verif/harness/h"
)

type drawn struct {
	s   string
	who string
}

func checkDistinct(sig string, ids []drawn) {
	seen := map[string]string{}
	for _, d := range ids {
		if prev, ok := seen[d.s]; ok {
			h.Fail(sig, "identifier %q issued twice (by %s and by %s) among %d draws", d.s, prev, d.who, len(ids))
			return
		}
		seen[d.s] = d.who
	}
}

// fallback: `gens` generators (created at the same clock reading if frozen), `gor` goroutines
// per generator drawing `draws` ids each.
func fallbackBody(gens, gor, draws int, frozen bool) func() {
	return func() {
		verifrt.FreezeClock(frozen)
		var ids []drawn
		done := 0
		for g := 0; g < gens; g++ {
			gen := id.NewFallbackGenerator()
			for k := 0; k < gor; k++ {
				who := fmt.Sprintf("generator %d goroutine %d", g, k)
				go func() {
					for i := 0; i < draws; i++ {
						x := gen.New()
						if string(x.Bytes()) != x.String() {
							h.Fail("C20/fallback/bytes-string", "Bytes() and String() disagree: %q vs %q", x.Bytes(), x.String())
						}
						ids = append(ids, drawn{x.String(), who})
					}
					done++
				}()
			}
		}
		verifrt.WaitIdle()
		if done != gens*gor {
			h.Fail("C20/fallback/returns", "%d of %d drawing goroutines finished", done, gens*gor)
			return
		}
		sig := "C20/fallback/distinct"
		if gens > 1 {
			sig = "C20/fallback/distinct-across-generators"
			if frozen {
				sig += "/same-clock-reading"
			}
		}
		checkDistinct(sig, ids)
	}
}

const tick = 4 * time.Millisecond

// sno: one generator, gor goroutines x draws; before each draw the environment chooses what the
// clock does (nothing / next tick / one tick back); optionally a snapshot is taken after `snapAt`
// draws of goroutine 0 and a generator restored from it draws too.
func snoBody(gor, draws int, clock bool, restore bool, gens int) func() {
	return func() {
		sno.VerifResetPartitions()
		ctx, cancel := context.WithCancel(context.Background())
		defer cancel()
		tr := tracing.NewTracer(ctx)
		verifrt.Advance(time.Hour) // away from the epoch edge, so that a regression stays positive
		var all []drawn
		var gensList []id.IGenerator
		for i := 0; i < gens; i++ {
			g, err := id.GetSno().NewIdGenerator(ctx, tr)
			if err != nil {
				h.Fail("C20/sno/new-generator", "NewIdGenerator: %v", err)
				return
			}
			gensList = append(gensList, g)
		}
		done := 0
		var snap []byte
		var before []drawn // ids drawn before the snapshot was taken
		for gi, gen := range gensList {
			for k := 0; k < gor; k++ {
				gi, k, gen := gi, k, gen
				who := fmt.Sprintf("generator %d goroutine %d", gi, k)
				go func() {
					for i := 0; i < draws; i++ {
						if clock {
							// with snapshot/restore only forward moves: the property does not
							// quantify over clocks, and a clock that runs backwards between a
							// snapshot and the restore is outside what sno's snapshots cover
							// (DESIGN.md §6)
							nClock := 3
							if restore {
								nClock = 2
							}
							switch verifrt.Choose(nClock) {
							case 1:
								verifrt.SetClock(verifrt.ClockNow() + int64(tick))
								verifrt.Log("%s: clock +tick -> %d", who, verifrt.ClockNow())
							case 2:
								verifrt.SetClock(verifrt.ClockNow() - int64(tick))
								verifrt.Log("%s: clock -tick -> %d", who, verifrt.ClockNow())
							}
						}
						x := gen.New()
						verifrt.Log("%s draws %s at clock %d", who, x.String(), verifrt.ClockNow())
						all = append(all, drawn{x.String(), who})
						if restore && gi == 0 && k == 0 && snap == nil && verifrt.Choose(2) == 1 {
							before = append([]drawn{}, all...)
							s, err := gen.Snapshot()
							if err != nil {
								h.Fail("C20/sno/snapshot", "Snapshot: %v", err)
							}
							snap = s
							verifrt.Log("snapshot taken at clock %d: %s", verifrt.ClockNow(), string(s))
						}
					}
					done++
				}()
			}
		}
		for i := 0; i < 8; i++ {
			verifrt.WaitIdle()
			if done == gens*gor {
				break
			}
			// a draw waiting out a clock regression sleeps until the clock has caught up
			verifrt.Advance(tick)
		}
		if done != gens*gor {
			h.Fail("C20/sno/returns", "%d of %d drawing goroutines finished; live: %v", done, gens*gor, verifrt.LiveRepoGoroutines())
			return
		}
		checkDistinct("C20/sno/distinct", all)
		if restore && snap != nil {
			rg, err := id.GetSno().RestoreIdGenerator(ctx, snap, tr)
			if err != nil {
				h.Fail("C20/sno/restore", "RestoreIdGenerator: %v", err)
				return
			}
			var ids []drawn
			ids = append(ids, before...)
			// the restored generator may find the clock behind its snapshot (a regression): sno
			// then waits for the clock to catch up, so the draws are made from a goroutine and
			// the clock is moved on while they wait
			rdone := false
			go func() {
				for i := 0; i < draws; i++ {
					x := rg.New().String()
					verifrt.Log("restored generator draws %s at clock %d", x, verifrt.ClockNow())
					ids = append(ids, drawn{x, "restored generator"})
				}
				rdone = true
			}()
			for i := 0; i < 8; i++ {
				verifrt.WaitIdle()
				if rdone {
					break
				}
				verifrt.Advance(tick)
			}
			if !rdone {
				h.Fail("C20/sno/returns", "the restored generator's draws have not returned after the clock moved on 8 ticks; live: %v", verifrt.LiveEnvGoroutines())
				return
			}
			checkDistinct("C20/sno/distinct-after-restore", ids)
		}
	}
}

// exhaustion: more generators are created in one program than sno has partitions (65535). A
// long-lived generator (the first one) stays in use; every generator created afterwards either
// is refused or must not repeat an id of a generator that is still alive. The 65 000 throw-away
// creations in between are not executed: creating a generator from defaults has one process-wide
// effect, the partition counter, which the hook advances directly (a non-initial start state).
// One sequential history per choice of how many throw-away generators came before.
func exhaustionBody(extra int) func() {
	return func() {
		sno.VerifResetPartitions()
		verifrt.FreezeClock(true)
		ctx, cancel := context.WithCancel(context.Background())
		defer cancel()
		tr := tracing.NewTracer(ctx)
		verifrt.Advance(time.Hour)
		seen := map[string]string{}
		draw := func(g id.IGenerator, who string) bool {
			for i := 0; i < 3; i++ {
				x := g.New().String()
				if prev, ok := seen[x]; ok {
					h.Fail("C20/sno/distinct-across-generators/partitions-exhausted", "identifier %q issued twice: by %s and by %s", x, prev, who)
					return false
				}
				seen[x] = who
			}
			return true
		}
		// 1..3 long-lived generators, created first
		var kept []id.IGenerator
		nKept := 1 + verifrt.Choose(3)
		for i := 0; i < nKept; i++ {
			g, err := id.GetSno().NewIdGenerator(ctx, tr)
			if err != nil {
				h.Fail("C20/sno/new-generator", "NewIdGenerator: %v", err)
				return
			}
			kept = append(kept, g)
		}
		// the pool is used up except for 0..2 partitions
		left := uint32(verifrt.Choose(3))
		sno.VerifSkipPartitions(65535 - uint32(nKept) - left)
		created, refused := 0, 0
		for n := 0; n < extra; n++ {
			g, err := id.GetSno().NewIdGenerator(ctx, tr)
			if err != nil {
				refused++
				continue
			}
			created++
			if !draw(g, fmt.Sprintf("generator created as number %d", 65535-int(left)+n)) {
				return
			}
			for i, k := range kept {
				if !draw(k, fmt.Sprintf("long-lived generator #%d", i)) {
					return
				}
			}
		}
		verifrt.Log("created %d refused %d distinct ids %d", created, refused, len(seen))
	}
}

// engine: instance and flow ids observed in traces never repeat (default generator wiring).
func engineBody(b *drv.Block) func() {
	sc := c01.Scenario("C20", 0, b, 0)
	inner := sc.Body
	return func() {
		sno.VerifResetPartitions()
		inner()
	}
}

func init() {
	h.Register("C20", func(tier string) ([]*h.Scn, []*h.Plain) {
		var out []*h.Scn
		thorough := tier == "thorough"
		unb := verifrt.Options{Unbounded: true}
		d := func(n int) verifrt.Options { return verifrt.Options{Bound: n, UseCache: true} }
		add := func(name string, body func(), o verifrt.Options, w, split int) {
			out = append(out, &h.Scn{Name: name, Body: body, Opts: o, Weight: w, Split: split})
		}
		for _, gd := range [][2]int{{1, 3}, {2, 2}, {2, 3}, {3, 2}, {3, 3}} {
			o := unb
			if gd[0]*gd[1] > 6 && !thorough {
				o = d(3)
			}
			add(fmt.Sprintf("C20/fallback/one-generator/g%dx%d", gd[0], gd[1]), fallbackBody(1, gd[0], gd[1], false), o, gd[0]*gd[1], 1)
		}
		for gens := 2; gens <= 3; gens++ {
			add(fmt.Sprintf("C20/fallback/generators%d/g1x2", gens), fallbackBody(gens, 1, 2, false), unb, 4, 1)
			add(fmt.Sprintf("C20/fallback/generators%d/g1x2/same-clock-reading", gens), fallbackBody(gens, 1, 2, true), unb, 4, 1)
		}
		add("C20/sno/g2x2", snoBody(2, 2, false, false, 1), unb, 100, 1)
		add("C20/sno/g2x2/clock", snoBody(2, 2, true, false, 1), d(2), 200, 4)
		add("C20/sno/g2x3", snoBody(2, 3, false, false, 1), d(3), 300, 4)
		add("C20/sno/g3x1/clock", snoBody(3, 1, true, false, 1), d(2), 200, 4)
		add("C20/sno/restore/g1x3/clock", snoBody(1, 3, true, true, 1), unb, 100, 1)
		add("C20/sno/restore/g2x2", snoBody(2, 2, false, true, 1), d(2), 200, 4)
		add("C20/sno/generators2/g1x2/clock", snoBody(1, 2, true, false, 2), d(2), 100, 2)
		add("C20/sno/generators3/g1x1", snoBody(1, 1, false, false, 3), d(3), 50, 4)
		add("C20/sno/partition-pool-exhausted/+8", exhaustionBody(8), d(1), 300, 1)
		if thorough {
			add("C20/sno/g2x3/clock", snoBody(2, 3, true, false, 1), d(2), 1000, 16)
			add("C20/sno/g3x2", snoBody(3, 2, false, false, 1), d(3), 1000, 16)
			add("C20/sno/restore/g2x2/clock", snoBody(2, 2, true, true, 1), d(2), 1000, 16)
		}
		// (side / dec: a task with several conditional outgoing flows, where a flow ends and
		// additional flows are started for its token - the pre-generated ids of forked flows)
		for i, b := range []*drv.Block{drv.Par(drv.T(), drv.T()), drv.LoopB(drv.T()), drv.SubB(drv.T()), drv.Xor(1, drv.T(), drv.E()), drv.Side(), drv.Dec(), drv.Par(drv.Dec(), drv.T()), drv.Incl(-1, drv.T(), drv.T(), drv.T())} {
			p := drv.Render(fmt.Sprintf("c20e%d", i), b)
			defs := p.G.Parse()
			as := p.Assignments()
			body := func() {
				sno.VerifResetPartitions()
				a := as[verifrt.Choose(len(as))]
				ls := &drv.LockStep{Sig: "C20/engine", G: p.G, Defs: defs, Vars: a, Answer: p.Answer, Open: drv.OpenOpts{DefaultGen: true}}
				ls.AfterFinal = func(r *drv.Run, m *drv.Model) {
					seen := map[string]bool{}
					for _, x := range r.InstIDs {
						seen[x] = true
					}
					if len(seen) > 1 {
						h.Fail("C20/engine/one-instance-id", "several instance ids in one instance's traces: %v", r.InstIDs)
					}
					for f := range r.FlowIDs {
						if seen[f] {
							h.Fail("C20/engine/flow-vs-instance-id", "flow id %s equals the instance id", f)
						}
					}
				}
				ls.Body()()
			}
			add(fmt.Sprintf("C20/engine/%s/d1", b.String()), body, d(1), 500, 4)
		}
		return out, nil
	})
}
