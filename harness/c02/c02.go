// Package c02: completion is reported iff all start events fired and no token remains, for any
// history of WaitUntilComplete calls.
package c02

import (
	"fmt"
	"strings"

	"github.com/olive-io/bpmn/v2/verifrt"

	"verif/harness/drv"
	"verif/harness/h"
)

// graph: S start events, each followed by `tasks` tasks in sequence, all ending at one end event
// per branch.
func build(starts, tasks int) *drv.Graph {
	g := drv.NewGraph(fmt.Sprintf("c02_s%d_t%d", starts, tasks))
	for s := 1; s <= starts; s++ {
		prev := g.Add(drv.Start, fmt.Sprintf("start%d", s))
		for t := 1; t <= tasks; t++ {
			n := g.Add(drv.Task, fmt.Sprintf("t%d_%d", s, t))
			g.Link(prev, n, nil)
			prev = n
		}
		e := g.Add(drv.End, fmt.Sprintf("end%d", s))
		g.Link(prev, e, nil)
	}
	return g
}

// shaped: one start event, one task, then a place where flows are born and die close together:
// "second-flow": the task's first outgoing flow has a false condition, its second one is taken
// (the arriving flow ends right after starting the additional flow for its token);
// "fork": a parallel fork into two tasks that end at their own end events;
// "incl": an inclusive fork (both branches) with an inclusive join.
func shaped(shape string) *drv.Graph {
	g := drv.NewGraph("c02_" + shape)
	s, t := g.Add(drv.Start, "start1"), g.Add(drv.Task, "t1_1")
	g.Link(s, t, nil)
	switch shape {
	case "second-flow":
		dead, deadEnd := g.Add(drv.Task, "never"), g.Add(drv.End, "endNever")
		next, e := g.Add(drv.Task, "t1_2"), g.Add(drv.End, "end1")
		g.Link(t, dead, drv.Const(false))
		g.Link(t, next, drv.Const(true))
		g.Link(dead, deadEnd, nil)
		g.Link(next, e, nil)
	case "fork":
		f := g.Add(drv.AND, "F")
		g.Link(t, f, nil)
		for i := 1; i <= 2; i++ {
			b, e := g.Add(drv.Task, fmt.Sprintf("b%d", i)), g.Add(drv.End, fmt.Sprintf("bend%d", i))
			g.Link(f, b, nil)
			g.Link(b, e, nil)
		}
	case "incl":
		f, j, e := g.Add(drv.OR, "OF"), g.Add(drv.OR, "OJ"), g.Add(drv.End, "end1")
		g.Link(t, f, nil)
		for i := 1; i <= 2; i++ {
			b := g.Add(drv.Task, fmt.Sprintf("b%d", i))
			g.Link(f, b, drv.Const(true))
			g.Link(b, j, nil)
		}
		g.Link(j, e, nil)
	}
	return g
}

// waiter script: when the wait is issued (after how many answers; -1 = after completion was
// observed) and whether/when its context is cancelled (after how many answers; -1 = never).
type waiter struct {
	At     int
	Cancel int
}

func (w waiter) String() string {
	at := fmt.Sprint(w.At)
	if w.At < 0 {
		at = "end"
	}
	if w.Cancel >= 0 {
		return fmt.Sprintf("Wc@%s/x%d", at, w.Cancel)
	}
	return "W@" + at
}

type scriptT []waiter

func (s scriptT) String() string {
	var p []string
	for _, w := range s {
		p = append(p, w.String())
	}
	return strings.Join(p, ",")
}

func body(g *drv.Graph, script scriptT, sig string) func() {
	defs := g.Parse()
	return func() {
		r := drv.Open(g, defs, drv.OpenOpts{})
		m := drv.NewModel(g, nil)
		type live struct {
			w   *drv.Wait
			sc  waiter
			out bool // cancelled by the script
		}
		var waits []*live
		issue := func(at int) {
			for _, w := range script {
				if w.At == at {
					waits = append(waits, &live{w: r.WaitComplete(nil), sc: w})
				}
			}
		}
		cancelAt := func(n int) {
			for _, l := range waits {
				if l.sc.Cancel == n && !l.out && !l.w.Returned {
					l.out = true
					l.w.Cancel()
				}
			}
		}
		r.AfterStart = func() { issue(0) }
		r.StartAll()
		m.StartAll()
		answers := 0
		var history []string
		for {
			verifrt.WaitIdle()
			if r.StartErr != nil {
				h.Fail(sig+"/start-error", "StartAll returned %v", r.StartErr)
				return
			}
			if !r.StartReturned {
				h.Fail(sig+"/startall-returns", "StartAll has not returned in a quiescent state (answers %v); blocked: %v", history, verifrt.LiveRepoGoroutines())
				return
			}
			cancelAt(answers)
			verifrt.WaitIdle()
			// safety: nobody is told "complete" while a token remains
			for i, l := range waits {
				if l.w.Returned && l.w.Result && !m.Complete() {
					h.Fail(sig+"/completes-early", "waiter %d (%s) returned true after answers %v although tokens remain: %s", i, l.sc, history, m)
					return
				}
				if l.out && !l.w.Returned {
					h.Fail(sig+"/cancelled-wait-returns", "waiter %d (%s): its context was cancelled but WaitUntilComplete has not returned", i, l.sc)
					return
				}
			}
			if r.Ceased > 0 && !m.Complete() {
				h.Fail(sig+"/cease-early", "CeaseFlowTrace after answers %v although tokens remain: %s", history, m)
				return
			}
			extra, missing := diff(r.PendingIDs(), m.PendingIDs())
			if len(extra)+len(missing) > 0 {
				h.Fail(sig+"/requests", "after answers %v pending %v, expected %v", history, r.PendingIDs(), m.PendingIDs())
				return
			}
			if len(m.Pending) == 0 {
				break
			}
			ids := distinctIDs(m.PendingIDs())
			id := ids[verifrt.Choose(len(ids))]
			for i, t := range m.Pending {
				if t.At.ID == id {
					m.Answer(i, nil)
					break
				}
			}
			r.Answer(r.Pending(id))
			history = append(history, id)
			answers++
			issue(answers)
		}
		// no token remains
		issue(-1)
		verifrt.WaitIdle()
		for i, l := range waits {
			if l.out {
				continue // its result is false by contract or true if completion won the race
			}
			if !l.w.Returned {
				h.Fail(sig+"/completes", "no token remains (answers %v) but waiter %d (%s) has not returned; script %s", history, i, l.sc, script)
				return
			}
			if !l.w.Result {
				h.Fail(sig+"/completes", "waiter %d (%s) returned false with a live context", i, l.sc)
			}
		}
		if r.Ceased != 1 {
			h.Fail(sig+"/cease-once", "%d CeaseFlowTrace after completion, want exactly 1", r.Ceased)
		} else if r.CeasedAt < r.LastFlowAt {
			h.Fail(sig+"/cease-last", "CeaseFlowTrace at stream position %d precedes a flow trace at position %d", r.CeasedAt, r.LastFlowAt)
		}
		if len(r.Grammar) > 0 {
			h.Fail("C09/engine/causal-order", "%s", r.Grammar[0])
		}
	}
}

func diff(a, b []string) (extra, missing []string) {
	cnt := map[string]int{}
	for _, x := range a {
		cnt[x]++
	}
	for _, x := range b {
		cnt[x]--
	}
	for k, v := range cnt {
		if v > 0 {
			extra = append(extra, k)
		}
		if v < 0 {
			missing = append(missing, k)
		}
	}
	return
}

func distinctIDs(sorted []string) []string {
	var out []string
	for i, s := range sorted {
		if i == 0 || s != sorted[i-1] {
			out = append(out, s)
		}
	}
	return out
}

func init() {
	h.Register("C02", func(tier string) ([]*h.Scn, []*h.Plain) {
		var out []*h.Scn
		thorough := tier == "thorough"
		W := func(at int) waiter { return waiter{At: at, Cancel: -1} }
		Wc := func(at, x int) waiter { return waiter{At: at, Cancel: x} }
		scripts := []scriptT{
			{W(0)},
			{W(0), W(0)},
			{W(-1)},
			{W(1)},
			{Wc(0, 0), W(0)},
			{Wc(0, 0), W(-1)},
			{Wc(0, 0), W(1)},
			{Wc(0, 1), W(0), W(-1)},
			{Wc(0, 0), Wc(0, 1), W(-1)},
			{W(0), W(1), W(-1)},
		}
		for starts := 1; starts <= 3; starts++ {
			for tasks := 0; tasks <= 2; tasks++ {
				g := build(starts, tasks)
				for si, sc := range scripts {
					bounds := []int{0, 1}
					if thorough && starts == 1 && si < 5 {
						bounds = append(bounds, 2)
					}
					if starts*tasks > 2 && !thorough {
						bounds = []int{0}
					}
					for _, d := range bounds {
						sig := fmt.Sprintf("C02/starts%d", starts)
						if starts > 1 {
							sig = "C02/multi-start"
						} else {
							sig = "C02/one-start"
						}
						s := &h.Scn{Name: fmt.Sprintf("C02/s%dt%d/[%s]/d%d", starts, tasks, sc, d), Body: body(g, sc, sig), Opts: verifrt.Options{Bound: d, UseCache: true}}
						s.Weight = (1 + starts*tasks) * (1 + 2000*d)
						if d == 1 && starts*tasks >= 2 {
							s.Split = 4
						}
						if d >= 2 {
							s.Split = 16
						}
						out = append(out, s)
					}
				}
			}
		}
		for _, shape := range []string{"second-flow", "fork", "incl"} {
			g := shaped(shape)
			for si, sc := range scripts {
				if si >= 4 && !thorough {
					continue
				}
				bounds := []int{0, 1}
				if thorough && si < 2 {
					bounds = append(bounds, 2)
				}
				for _, d := range bounds {
					s := &h.Scn{Name: fmt.Sprintf("C02/%s/[%s]/d%d", shape, sc, d), Body: body(g, sc, "C02/one-start"), Opts: verifrt.Options{Bound: d, UseCache: true}}
					s.Weight = 3 * (1 + 2000*d)
					if d == 1 {
						s.Split = 4
					}
					if d >= 2 {
						s.Split = 16
					}
					out = append(out, s)
				}
			}
		}
		return out, nil
	})
}
