// Package c04: an exclusive gateway routes each arriving token to exactly one deterministic
// branch: the first true condition in list order, else the default, else none plus an error
// trace. Tokens arriving at a merging gateway pass independently.
package c04

import (
	"fmt"

	"github.com/olive-io/bpmn/v2/verifrt"

	"verif/harness/drv"
	"verif/harness/h"
)

// graph: start -> F(1:T) -> X (T incoming; k conditional flows + optional default at list
// position dpos) -> b_j -> e_j
func build(k, dpos, tokens int, lang string, truth int) *drv.Graph {
	g := drv.NewGraph(fmt.Sprintf("xg_k%d_d%d_t%d", k, dpos, tokens))
	start := g.Add(drv.Start, "start")
	var src *drv.Node = start
	x := g.Add(drv.XOR, "X")
	if tokens > 1 {
		f := g.Add(drv.AND, "F")
		g.Link(start, f, nil)
		src = f
	}
	for i := 0; i < tokens; i++ {
		g.Link(src, x, nil)
	}
	ci := 0
	for pos := 0; pos <= k; pos++ {
		if pos == dpos {
			b := g.Add(drv.Task, "bd")
			e := g.Add(drv.End, "ed")
			if f := g.LinkDefault(x, b); lang == "expr-defcond" {
				// the default flow carries a (false) condition of its own, which must be ignored
				f.Cond = drv.Const(false)
			}
			g.Link(b, e, nil)
			if pos == k {
				break
			}
		}
		if ci < k {
			ci++
			b := g.Add(drv.Task, fmt.Sprintf("b%d", ci))
			e := g.Add(drv.End, fmt.Sprintf("e%d", ci))
			var c *drv.Cond
			if lang == "xpath" {
				c = drv.XPathConst(truth&(1<<(ci-1)) != 0)
			} else if lang == "num-expr" {
				c = drv.NumConst(truth&(1<<(ci-1)) != 0, "")
			} else if lang == "num-xpath" {
				c = drv.NumConst(truth&(1<<(ci-1)) != 0, "xpath")
			} else if lang == "dataobj" {
				c = drv.DataObjConst("d", fmt.Sprintf("c%d", ci), truth&(1<<(ci-1)) != 0)
			} else {
				c = drv.Var(fmt.Sprintf("c%d", ci))
			}
			g.Link(x, b, c)
			g.Link(b, e, nil)
		}
	}
	return g
}

func scn(k, dpos, tokens, bound int, lang string) *h.Scn {
	// for the expr language the truth assignment is an environment choice; XPath conditions are
	// constants, so each assignment is its own graph
	type variant struct {
		ls *drv.LockStep
	}
	var vs []variant
	langs := []string{lang}
	if lang == "same-text-both-languages" {
		// the same condition texts under both languages, in one process (and in both orders over
		// the run): what one language has evaluated must not influence the other
		langs = []string{"num-xpath", "num-expr", "num-xpath"}
	}
	for li, lang := range langs {
		for truth := 0; truth < 1<<k; truth++ {
			if li == 2 && truth != (1<<k)-1 {
				continue
			}
			g := build(k, dpos, tokens, lang, truth)
			if lang == "dataobj" {
				body := "{"
				for i := 1; i <= k; i++ {
					if i > 1 {
						body += ", "
					}
					body += fmt.Sprintf("\"c%d\": %v", i, truth&(1<<(i-1)) != 0)
				}
				g.Data = append(g.Data, drv.DataObj{ID: "do_d", Name: "d", Body: body + "}"})
			}
			vars := map[string]any{}
			for i := 1; i <= k; i++ {
				vars[fmt.Sprintf("c%d", i)] = truth&(1<<(i-1)) != 0
			}
			ls := &drv.LockStep{Sig: "C04/xor", G: g, Defs: g.Parse(), Vars: vars}
			ls.AfterFinal = func(r *drv.Run, m *drv.Model) {
				// FlowTraces whose source is the gateway list exactly one flow
				for _, s := range r.Stream {
					if len(s) > 8 && s[:8] == "Flow(X->" {
						n := 1
						for _, c := range s {
							if c == ',' {
								n++
							}
						}
						if n != 1 {
							h.Fail("C04/xor/one-flow", "the exclusive gateway's FlowTrace lists %d flows: %s", n, s)
						}
					}
				}
			}
			vs = append(vs, variant{ls})
		}
	}
	body := func() {
		v := vs[verifrt.Choose(len(vs))]
		v.ls.Body()()
	}
	d := "none"
	if dpos >= 0 {
		d = fmt.Sprint(dpos)
	}
	sc := &h.Scn{Name: fmt.Sprintf("C04/xor/k%d/default@%s/tokens%d/%s/d%d", k, d, tokens, lang, bound), Body: body, Opts: verifrt.Options{Bound: bound, UseCache: true}}
	sc.Weight = (1 << k) * tokens * (1 + 3000*bound)
	if bound >= 1 && sc.Weight > 20000 {
		sc.Split = 4
	}
	if bound >= 2 {
		sc.Split = 16
	}
	return sc
}

// typeChange: one token passes two exclusive gateways; between them a task result replaces the
// integer variable s by a string. Every condition is evaluated for the *current* values: the
// first gateway takes "s == 1", the second "s == \"review\"" (variant "later": the true condition
// is the second in the list, after one that is false for the new value).
func typeChange(variant string, bound int) *h.Scn {
	g := drv.NewGraph("xg_types_" + variant)
	eq := func(src string, f func(v map[string]any) bool) *drv.Cond { return &drv.Cond{Src: src, Eval: f} }
	isInt := func(k int64) func(map[string]any) bool {
		return func(v map[string]any) bool {
			switch x := v["s"].(type) {
			case int64:
				return x == k
			case int:
				return int64(x) == k
			}
			return false
		}
	}
	isStr := func(want string) func(map[string]any) bool {
		return func(v map[string]any) bool { x, ok := v["s"].(string); return ok && x == want }
	}
	start := g.Add(drv.Start, "start")
	x1, x2 := g.Add(drv.XOR, "X1"), g.Add(drv.XOR, "X2")
	t1, d1, ed1 := g.Add(drv.Task, "t1"), g.Add(drv.Task, "d1"), g.Add(drv.End, "ed1")
	t2, t3, d2 := g.Add(drv.Task, "t2"), g.Add(drv.Task, "t3"), g.Add(drv.Task, "d2")
	e2, e3, ed2 := g.Add(drv.End, "e2"), g.Add(drv.End, "e3"), g.Add(drv.End, "ed2")
	t1.Results = []string{"s"}
	g.Link(start, x1, nil)
	g.Link(x1, t1, eq("s == 1", isInt(1)))
	g.LinkDefault(x1, d1)
	g.Link(d1, ed1, nil)
	g.Link(t1, x2, nil)
	if variant == "later" {
		g.Link(x2, t3, eq(`s == "draft"`, isStr("draft")))
		g.Link(x2, t2, eq(`s == "review"`, isStr("review")))
	} else {
		g.Link(x2, t2, eq(`s == "review"`, isStr("review")))
		g.Link(x2, t3, eq(`s == "draft"`, isStr("draft")))
	}
	g.LinkDefault(x2, d2)
	g.Link(t2, e2, nil)
	g.Link(t3, e3, nil)
	g.Link(d2, ed2, nil)
	defs := g.Parse()
	body := func() {
		ls := &drv.LockStep{Sig: "C04/xor", G: g, Defs: defs, Vars: map[string]any{"s": 1}}
		ls.Answer = func(id string, visit int, vars map[string]any) map[string]any {
			if id == "t1" {
				return map[string]any{"s": "review"}
			}
			return nil
		}
		ls.Body()()
	}
	return &h.Scn{Name: fmt.Sprintf("C04/xor/type-change/%s/d%d", variant, bound), Body: body, Opts: verifrt.Options{Bound: bound, UseCache: true}, Weight: 5 * (1 + 100*bound)}
}

func init() {
	h.Register("C04", func(tier string) ([]*h.Scn, []*h.Plain) {
		var out []*h.Scn
		thorough := tier == "thorough"
		for k := 1; k <= 4; k++ {
			for dpos := -1; dpos <= k; dpos++ {
				for tokens := 1; tokens <= 3; tokens++ {
					out = append(out, scn(k, dpos, tokens, 0, "expr"))
					if k <= 2 || thorough {
						out = append(out, scn(k, dpos, tokens, 0, "xpath"))
					}
					if k <= 2 || (k == 3 && tokens == 1) || thorough {
						out = append(out, scn(k, dpos, tokens, 0, "dataobj"))
					}
					if (k <= 2 && tokens == 1) || thorough {
						out = append(out, scn(k, dpos, tokens, 0, "same-text-both-languages"))
					}
					if dpos >= 0 && ((k <= 2 && tokens <= 2) || thorough) {
						out = append(out, scn(k, dpos, tokens, 0, "expr-defcond"))
					}
					if (k <= 2 && tokens <= 2) || (thorough && k <= 3) {
						out = append(out, scn(k, dpos, tokens, 1, "expr"))
					}
					if thorough && k <= 2 && tokens <= 2 && dpos <= 0 {
						out = append(out, scn(k, dpos, tokens, 2, "expr"))
					}
				}
			}
		}
		for _, v := range []string{"first", "later"} {
			out = append(out, typeChange(v, 0), typeChange(v, 1))
		}
		return out, nil
	})
}
