// Package c12: an embedded sub-process behaves like its content inlined. Differential check:
// every program with one block position wrapped in 1..3 nested sub-processes is driven in
// lock-step with the token game of the *unwrapped* program.
package c12

import (
	"fmt"

	"github.com/olive-io/bpmn/v2/verifrt"

	"verif/harness/drv"
	"verif/harness/h"
)

func scenario(idx int, wrapped *drv.Block, levels, bound int) *h.Scn {
	p := drv.Render(fmt.Sprintf("w%d", idx), wrapped)
	plain := drv.Render(fmt.Sprintf("u%d", idx), drv.Unwrap(wrapped))
	defs := p.G.Parse()
	as := p.Assignments()
	body := func() {
		a := as[verifrt.Choose(len(as))]
		ls := &drv.LockStep{Sig: "C12/wrap", G: p.G, Defs: defs, Vars: a, Answer: p.Answer, Model: plain.G}
		ls.CompletionShape = drv.Tags(wrapped)
		ls.Ctx = func(id string) string {
			if c, ok := p.Ctx[id]; ok {
				return c
			}
			return "top"
		}
		ls.AfterFinal = func(r *drv.Run, m *drv.Model) {
			// the parent's token continues past each sub-process exactly once per activation:
			// one landmark trace per completed activation, never more than entries
			for id, n := range r.Landmarks {
				if n > r.Visits[id] {
					h.Fail("C12/wrap/continues-once#"+drv.Tags(wrapped), "sub-process %s: %d landmark traces for %d visits", id, n, r.Visits[id])
				}
			}
		}
		ls.Body()()
	}
	return &h.Scn{Name: fmt.Sprintf("C12/wrap/L%d/%s/d%d", levels, wrapped.String(), bound), Body: body, Opts: verifrt.Options{Bound: bound, UseCache: true}}
}

// unjoined: the content of the sub-process splits (parallel or inclusive gateway) into 2..3
// branches that are not joined: each ends at its own inner end event, so the sub-process holds
// several tokens that are consumed one after the other. The parent continues exactly once and
// only when the last of them is gone. There is no inlined counterpart with the same timing
// (inline, nothing would wait for the other branches), so the lock-step model is the token game
// of the graph itself, in which a sub-process scope completes when it holds no token.
func unjoined(kind drv.Kind, n, levels, bound int, shared string) *h.Scn {
	g := drv.NewGraph(fmt.Sprintf("c12u_%s_%d_%d_%s", kind, n, levels, shared))
	s, e := g.Add(drv.Start, "start"), g.Add(drv.End, "end")
	after := g.Add(drv.Task, "after")
	outer := g.AddSub("sp1")
	g.Link(s, outer, nil)
	g.Link(outer, after, nil)
	g.Link(after, e, nil)
	inner := outer
	for l := 2; l <= levels; l++ {
		is, ie := inner.Inner.Add(drv.Start, fmt.Sprintf("sp%d_start", l-1)), inner.Inner.Add(drv.End, fmt.Sprintf("sp%d_end", l-1))
		next := inner.Inner.AddSub(fmt.Sprintf("sp%d", l))
		inner.Inner.Link(is, next, nil)
		inner.Inner.Link(next, ie, nil)
		inner = next
	}
	c := inner.Inner
	is := c.Add(drv.Start, inner.ID+"_start")
	f := c.Add(kind, "F")
	c.Link(is, f, nil)
	// shared == "tasks": the branches end at ONE inner end event (several tokens reach the same
	// end event); shared == "direct": the same without tasks on the branches, so that the tokens
	// reach it at almost the same moment
	var common *drv.Node
	if shared == "tasks" || shared == "direct" {
		common = c.Add(drv.End, "bend")
	}
	for i := 1; i <= n; i++ {
		var cond *drv.Cond
		if kind == drv.OR {
			cond = drv.Var(fmt.Sprintf("c%d", i))
		}
		if shared == "direct" {
			c.Link(f, common, cond)
			continue
		}
		if shared == "mixed" && i == 1 {
			// the first branch goes straight to its own end event (the forking flow ends at
			// once), the others wait at a task
			c.Link(f, c.Add(drv.End, "bend1"), cond)
			continue
		}
		t := c.Add(drv.Task, fmt.Sprintf("b%d", i))
		te := common
		if te == nil {
			te = c.Add(drv.End, fmt.Sprintf("bend%d", i))
		}
		c.Link(f, t, cond)
		c.Link(t, te, nil)
	}
	defs := g.Parse()
	body := func() {
		vars := map[string]any{}
		if kind == drv.OR {
			// every non-empty subset of branches
			mask := 1 + verifrt.Choose(1<<n-1)
			for i := 1; i <= n; i++ {
				vars[fmt.Sprintf("c%d", i)] = mask&(1<<(i-1)) != 0
			}
		}
		ls := &drv.LockStep{Sig: "C12/unjoined", G: g, Defs: defs, Vars: vars}
		ls.AfterFinal = func(r *drv.Run, m *drv.Model) {
			for id, k := range r.Landmarks {
				if k > r.Visits[id] {
					h.Fail("C12/unjoined/continues-once", "sub-process %s: %d landmark traces for %d visits", id, k, r.Visits[id])
				}
			}
		}
		ls.Body()()
	}
	name := fmt.Sprintf("C12/unjoined/%s/branches%d/L%d/d%d", kind, n, levels, bound)
	if shared != "" {
		name = fmt.Sprintf("C12/unjoined/%s/branches%d/shared-end-%s/L%d/d%d", kind, n, shared, levels, bound)
	}
	sc := &h.Scn{Name: name, Body: body, Opts: verifrt.Options{Bound: bound, UseCache: true}}
	sc.Weight = n * n * levels * (1 + 2000*bound)
	if bound >= 1 {
		sc.Split = 4
	}
	return sc
}

func init() {
	h.Register("C12", func(tier string) ([]*h.Scn, []*h.Plain) {
		var out []*h.Scn
		thorough := tier == "thorough"
		size := 2
		if thorough {
			size = 3
		}
		base := drv.Enumerate(size, 2, 2, false, false) // no side tasks: a token sink inside the wrapped region makes the sub-process wait where the inlined program does not
		// the loop and parallel positions the statement names explicitly, also in the quick tier
		extra := []*drv.Block{drv.Par(drv.T(), drv.T()), drv.LoopB(drv.Seq(drv.T(), drv.T())), drv.Par(drv.Seq(drv.T(), drv.T()), drv.T()), drv.LoopB(drv.Par(drv.T(), drv.T()))}
		seen := map[string]bool{}
		idx := 0
		add := func(b *drv.Block, levels, bound, split int) {
			key := fmt.Sprintf("%s/%d/%d", b.String(), levels, bound)
			if seen[key] {
				return
			}
			seen[key] = true
			idx++
			sc := scenario(idx, b, levels, bound)
			sc.Weight = b.Size() * (1 + 2000*bound)
			sc.Split = split
			out = append(out, sc)
		}
		for _, b := range append(base, extra...) {
			for levels := 1; levels <= 3; levels++ {
				for _, w := range drv.WrapVariants(b, levels) {
					add(w, levels, 0, 1)
				}
			}
		}
		core := []*drv.Block{drv.T(), drv.Par(drv.T(), drv.T()), drv.LoopB(drv.T()), drv.Xor(1, drv.T(), drv.E()), drv.Seq(drv.T(), drv.T())}
		for _, b := range core {
			for levels := 1; levels <= 2; levels++ {
				for _, w := range drv.WrapVariants(b, levels) {
					add(w, levels, 1, 4)
				}
			}
		}
		for _, kind := range []drv.Kind{drv.AND, drv.OR} {
			for n := 2; n <= 3; n++ {
				for levels := 1; levels <= 2; levels++ {
					out = append(out, unjoined(kind, n, levels, 0, ""))
					if n == 2 && (levels == 1 || thorough) {
						out = append(out, unjoined(kind, n, levels, 1, ""))
					}
					for _, shared := range []string{"tasks", "direct", "mixed"} {
						out = append(out, unjoined(kind, n, levels, 0, shared))
						if n == 2 && levels == 1 {
							out = append(out, unjoined(kind, n, levels, 1, shared))
						}
						if thorough && n == 2 && levels == 1 && shared == "direct" {
							out = append(out, unjoined(kind, n, levels, 2, shared))
						}
					}
				}
			}
		}
		if thorough {
			for _, b := range core[:3] {
				for _, w := range drv.WrapVariants(b, 1) {
					add(w, 1, 2, 16)
				}
			}
		}
		return out, nil
	})
}
