// Package c12: an embedded sub-process behaves like its content inlined. Differential check:
// every program with one block position wrapped in 1..3 nested sub-processes is driven in
// lock-step with the token game of the *unwrapped* program.
package c12

import (
	"fmt"

	"github.com/olive-io/bpmn/v2/verifrt"

	"verif/harness/drv"
	"verif/harness/h"
)

func scenario(idx int, wrapped *drv.Block, levels, bound int) *h.Scn {
	p := drv.Render(fmt.Sprintf("w%d", idx), wrapped)
	plain := drv.Render(fmt.Sprintf("u%d", idx), drv.Unwrap(wrapped))
	defs := p.G.Parse()
	as := p.Assignments()
	body := func() {
		a := as[verifrt.Choose(len(as))]
		ls := &drv.LockStep{Sig: "C12/wrap", G: p.G, Defs: defs, Vars: a, Answer: p.Answer, Model: plain.G}
		ls.CompletionShape = drv.Tags(wrapped)
		ls.Ctx = func(id string) string {
			if c, ok := p.Ctx[id]; ok {
				return c
			}
			return "top"
		}
		ls.AfterFinal = func(r *drv.Run, m *drv.Model) {
			// the parent's token continues past each sub-process exactly once per activation:
			// one landmark trace per completed activation, never more than entries
			for id, n := range r.Landmarks {
				if n > r.Visits[id] {
					h.Fail("C12/wrap/continues-once#"+drv.Tags(wrapped), "sub-process %s: %d landmark traces for %d visits", id, n, r.Visits[id])
				}
			}
		}
		ls.Body()()
	}
	return &h.Scn{Name: fmt.Sprintf("C12/wrap/L%d/%s/d%d", levels, wrapped.String(), bound), Body: body, Opts: verifrt.Options{Bound: bound, UseCache: true}}
}

func init() {
	h.Register("C12", func(tier string) ([]*h.Scn, []*h.Plain) {
		var out []*h.Scn
		thorough := tier == "thorough"
		size := 2
		if thorough {
			size = 3
		}
		base := drv.Enumerate(size, 2, 2, false, false) // no side tasks: a token sink inside the wrapped region makes the sub-process wait where the inlined program does not
		// the loop and parallel positions the statement names explicitly, also in the quick tier
		extra := []*drv.Block{drv.Par(drv.T(), drv.T()), drv.LoopB(drv.Seq(drv.T(), drv.T())), drv.Par(drv.Seq(drv.T(), drv.T()), drv.T()), drv.LoopB(drv.Par(drv.T(), drv.T()))}
		seen := map[string]bool{}
		idx := 0
		add := func(b *drv.Block, levels, bound, split int) {
			key := fmt.Sprintf("%s/%d/%d", b.String(), levels, bound)
			if seen[key] {
				return
			}
			seen[key] = true
			idx++
			sc := scenario(idx, b, levels, bound)
			sc.Weight = b.Size() * (1 + 2000*bound)
			sc.Split = split
			out = append(out, sc)
		}
		for _, b := range append(base, extra...) {
			for levels := 1; levels <= 3; levels++ {
				for _, w := range drv.WrapVariants(b, levels) {
					add(w, levels, 0, 1)
				}
			}
		}
		core := []*drv.Block{drv.T(), drv.Par(drv.T(), drv.T()), drv.LoopB(drv.T()), drv.Xor(1, drv.T(), drv.E()), drv.Seq(drv.T(), drv.T())}
		for _, b := range core {
			for levels := 1; levels <= 2; levels++ {
				for _, w := range drv.WrapVariants(b, levels) {
					add(w, levels, 1, 4)
				}
			}
		}
		if thorough {
			for _, b := range core[:3] {
				for _, w := range drv.WrapVariants(b, 1) {
					add(w, 1, 2, 16)
				}
			}
		}
		return out, nil
	})
}
