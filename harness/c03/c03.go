// Package c03: a parallel gateway with N incoming and M outgoing flows waits for all incoming
// tokens and emits one token per outgoing flow, again on every re-entry.
package c03

import (
	"fmt"

	"github.com/olive-io/bpmn/v2/verifrt"

	"verif/harness/drv"
	"verif/harness/h"
)

// graph: start -> xm -> F(1:N) -> u1..uN -> G(N:M) -> d1..dM -> J(M:1) -> cnt -> xs -(n<acts)-> xm | default -> end
func build(n, m, acts int) *drv.Graph {
	g := drv.NewGraph(fmt.Sprintf("pg_n%d_m%d_a%d", n, m, acts))
	start := g.Add(drv.Start, "start")
	xm := g.Add(drv.XOR, "xm")
	f := g.Add(drv.AND, "F")
	gw := g.Add(drv.AND, "G")
	j := g.Add(drv.AND, "J")
	cnt := g.Add(drv.Task, "cnt")
	cnt.Results = []string{"n"}
	cnt.RTypes = []string{"integer"}
	xs := g.Add(drv.XOR, "xs")
	end := g.Add(drv.End, "end")
	g.Link(start, xm, nil)
	g.Link(xm, f, nil)
	for i := 1; i <= n; i++ {
		u := g.Add(drv.Task, fmt.Sprintf("u%d", i))
		g.Link(f, u, nil)
		g.Link(u, gw, nil)
	}
	for k := 1; k <= m; k++ {
		d := g.Add(drv.Task, fmt.Sprintf("d%d", k))
		g.Link(gw, d, nil)
		g.Link(d, j, nil)
	}
	g.Link(j, cnt, nil)
	g.Link(cnt, xs, nil)
	g.Link(xs, xm, drv.IntLt("n", int64(acts)))
	g.LinkDefault(xs, end)
	return g
}

func scn(n, m, acts, bound int) *h.Scn {
	g := build(n, m, acts)
	defs := g.Parse()
	ls := &drv.LockStep{Sig: "C03/pargw", G: g, Defs: defs, Vars: map[string]any{"n": 0},
		Answer: func(id string, visit int, vars map[string]any) map[string]any {
			if id == "cnt" {
				return map[string]any{"n": int64(visit + 1)}
			}
			return nil
		}}
	sc := &h.Scn{Name: fmt.Sprintf("C03/pargw/N%dM%d/act%d/d%d", n, m, acts, bound), Body: ls.Body(), Opts: verifrt.Options{Bound: bound, UseCache: true}}
	orders := 1
	for i := 2; i <= n; i++ {
		orders *= i
	}
	for i := 2; i <= m; i++ {
		orders *= i
	}
	w := 1
	for a := 0; a < acts; a++ {
		w *= orders
	}
	switch bound {
	case 1:
		w *= 1500 * acts
		if w > 6000 {
			sc.Split = 4
		}
		if w > 30000 {
			sc.Split = 8
		}
	case 2:
		w *= 600000 * acts
		sc.Split = 16
	}
	sc.Weight = w
	return sc
}

func init() {
	h.Register("C03", func(tier string) ([]*h.Scn, []*h.Plain) {
		var out []*h.Scn
		thorough := tier == "thorough"
		for n := 1; n <= 4; n++ {
			for m := 1; m <= 4; m++ {
				out = append(out, scn(n, m, 1, 0))
				if n <= 3 && m <= 3 {
					out = append(out, scn(n, m, 2, 0))
					if n*m <= 6 || thorough {
						out = append(out, scn(n, m, 3, 0))
					}
					out = append(out, scn(n, m, 1, 1))
				}
				if n <= 2 && m <= 2 {
					out = append(out, scn(n, m, 2, 1))
				}
				if thorough {
					if n <= 3 && m <= 3 && !(n <= 2 && m <= 2) {
						out = append(out, scn(n, m, 2, 1))
					}
					if n <= 2 && m <= 2 {
						out = append(out, scn(n, m, 1, 2))
						out = append(out, scn(n, m, 3, 1))
					}
					if (n == 4 || m == 4) && n*m <= 8 {
						out = append(out, scn(n, m, 1, 1))
					}
				}
			}
		}
		return out, nil
	})
}
