// Package c03: a parallel gateway with N incoming and M outgoing flows waits for all incoming
// tokens and emits one token per outgoing flow, again on every re-entry.
package c03

import (
	"fmt"

	bpmn "github.com/olive-io/bpmn/v2"
	"github.com/olive-io/bpmn/v2/verifrt"

	"verif/harness/drv"
	"verif/harness/h"
)

// graph: start -> xm -> F(1:N) -> u1..uN -> G(N:M) -> d1..dM -> J(M:1) -> cnt -> xs -(n<acts)-> xm | default -> end
func build(n, m, acts int) *drv.Graph {
	g := drv.NewGraph(fmt.Sprintf("pg_n%d_m%d_a%d", n, m, acts))
	start := g.Add(drv.Start, "start")
	xm := g.Add(drv.XOR, "xm")
	f := g.Add(drv.AND, "F")
	gw := g.Add(drv.AND, "G")
	j := g.Add(drv.AND, "J")
	cnt := g.Add(drv.Task, "cnt")
	cnt.Results = []string{"n"}
	cnt.RTypes = []string{"integer"}
	xs := g.Add(drv.XOR, "xs")
	end := g.Add(drv.End, "end")
	g.Link(start, xm, nil)
	g.Link(xm, f, nil)
	for i := 1; i <= n; i++ {
		u := g.Add(drv.Task, fmt.Sprintf("u%d", i))
		g.Link(f, u, nil)
		g.Link(u, gw, nil)
	}
	for k := 1; k <= m; k++ {
		d := g.Add(drv.Task, fmt.Sprintf("d%d", k))
		g.Link(gw, d, nil)
		g.Link(d, j, nil)
	}
	g.Link(j, cnt, nil)
	g.Link(cnt, xs, nil)
	g.Link(xs, xm, drv.IntLt("n", int64(acts)))
	g.LinkDefault(xs, end)
	return g
}

func scn(n, m, acts, bound int) *h.Scn {
	g := build(n, m, acts)
	defs := g.Parse()
	ls := &drv.LockStep{Sig: "C03/pargw", G: g, Defs: defs, Vars: map[string]any{"n": 0},
		Answer: func(id string, visit int, vars map[string]any) map[string]any {
			if id == "cnt" {
				return map[string]any{"n": int64(visit + 1)}
			}
			return nil
		}}
	sc := &h.Scn{Name: fmt.Sprintf("C03/pargw/N%dM%d/act%d/d%d", n, m, acts, bound), Body: ls.Body(), Opts: verifrt.Options{Bound: bound, UseCache: true}}
	orders := 1
	for i := 2; i <= n; i++ {
		orders *= i
	}
	for i := 2; i <= m; i++ {
		orders *= i
	}
	w := 1
	for a := 0; a < acts; a++ {
		w *= orders
	}
	switch bound {
	case 1:
		w *= 1500 * acts
		if w > 6000 {
			sc.Split = 4
		}
		if w > 30000 {
			sc.Split = 8
		}
	case 2:
		w *= 600000 * acts
		sc.Split = 16
	}
	sc.Weight = w
	return sc
}

// racing (discipline R): the N upstream tasks of an activation are answered from N goroutines
// at once, so that the tokens reach the gateway at practically the same moment and the
// scheduler decides how their arrivals interleave inside the gateway. Checked at quiescence:
// every answer has returned, exactly the M downstream tasks are requested, once each, and after
// answering them (also from their own goroutines) the next activation starts or the instance
// completes.
func racing(n, m, acts int) func() {
	g := build(n, m, acts)
	defs := g.Parse()
	return func() {
		sig := "C03/pargw-race"
		r := drv.Open(g, defs, drv.OpenOpts{Vars: map[string]any{"n": 0}})
		var w *drv.Wait
		r.AfterStart = func() { w = r.WaitComplete(nil) }
		r.StartAll()
		for act := 1; act <= acts; act++ {
			for phase, prefix := range []string{"u", "d"} {
				want := n
				if phase == 1 {
					want = m
				}
				verifrt.WaitIdle()
				pend := r.PendingIDs()
				ok := len(pend) == want
				for i := 0; ok && i < want; i++ {
					ok = pend[i] == fmt.Sprintf("%s%d", prefix, i+1)
				}
				if !ok {
					clause := "/not-requested"
					if len(pend) > want {
						clause = "/requested-too-often"
					}
					h.Fail(sig+clause, "activation %d: the %d %s-tasks should be requested once each, unanswered requests are %v (all upstream answers of an activation are issued at once)", act, want, map[string]string{"u": "upstream", "d": "downstream"}[prefix], pend)
					return
				}
				returned := 0
				for i := 1; i <= want; i++ {
					p := r.Pending(fmt.Sprintf("%s%d", prefix, i))
					p.Answered = true
					go func() { p.T.Do(); returned++ }()
				}
				verifrt.WaitIdle()
				if returned != want {
					h.Fail(sig+"/do-returns", "activation %d: %d of %d Do calls returned", act, returned, want)
					return
				}
			}
			p := r.Pending("cnt")
			if p == nil || len(r.PendingIDs()) != 1 {
				h.Fail(sig+"/not-requested", "activation %d: after all downstream tasks were answered the counter task should be the only request, unanswered requests are %v", act, r.PendingIDs())
				return
			}
			r.Answer(p, bpmn.DoWithResults(map[string]any{"n": int64(act)}))
		}
		verifrt.WaitIdle()
		if len(r.PendingIDs()) != 0 {
			h.Fail(sig+"/requested-too-often", "after the last activation further requests appeared: %v", r.PendingIDs())
			return
		}
		if w == nil || !w.Returned || !w.Result {
			h.Fail(sig+"/completes", "all %d activations are through but the instance has not completed; live: %v", acts, verifrt.LiveRepoGoroutines())
		}
		if len(r.Grammar) > 0 {
			h.Fail("C09/engine/causal-order", "%s", r.Grammar[0])
		}
	}
}

// multi (seed c03-5): K tokens reach a one-incoming gateway G(1:M) over ONE flow at practically the
// same moment (the K requests of the task in front of it are answered from K goroutines at once),
// so that several consecutive activations' arrivals sit in the gateway's inbox together. Every
// arrival is an activation of its own: each of the M downstream tasks is requested K times.
func multi(k, m int) func() {
	g := drv.NewGraph(fmt.Sprintf("pg_multi_k%d_m%d", k, m))
	start, f, work, gw, end := g.Add(drv.Start, "start"), g.Add(drv.AND, "F"), g.Add(drv.Task, "work"), g.Add(drv.AND, "G"), g.Add(drv.End, "end")
	g.Link(start, f, nil)
	for i := 0; i < k; i++ {
		g.Link(f, work, nil)
	}
	g.Link(work, gw, nil)
	for i := 1; i <= m; i++ {
		d := g.Add(drv.Task, fmt.Sprintf("d%d", i))
		g.Link(gw, d, nil)
		g.Link(d, end, nil)
	}
	defs := g.Parse()
	return func() {
		sig := "C03/pargw-multi"
		r := drv.Open(g, defs, drv.OpenOpts{})
		var w *drv.Wait
		r.AfterStart = func() { w = r.WaitComplete(nil) }
		r.StartAll()
		verifrt.WaitIdle()
		if n := len(r.PendingIDs()); n != k || r.Requests("work") != k {
			h.Fail(sig+"/not-requested", "the task in front of the gateway should be requested %d times, unanswered requests are %v", k, r.PendingIDs())
			return
		}
		answerAll := func() bool {
			returned, want := 0, 0
			for _, p := range r.Tasks {
				if !p.Answered {
					p.Answered = true
					want++
					go func() { p.T.Do(); returned++ }()
				}
			}
			verifrt.WaitIdle()
			if returned != want {
				h.Fail(sig+"/do-returns", "%d of %d Do calls returned", returned, want)
				return false
			}
			return true
		}
		if !answerAll() {
			return
		}
		for i := 1; i <= m; i++ {
			if n := r.Requests(fmt.Sprintf("d%d", i)); n != k {
				clause := "/not-requested"
				if n > k {
					clause = "/requested-too-often"
				}
				h.Fail(sig+clause, "%d tokens went through the 1:%d gateway at once: every downstream task should be requested %d times, d%d was requested %d times (unanswered: %v)", k, m, k, i, n, r.PendingIDs())
				return
			}
		}
		if !answerAll() {
			return
		}
		if len(r.PendingIDs()) != 0 {
			h.Fail(sig+"/requested-too-often", "further requests appeared: %v", r.PendingIDs())
			return
		}
		if w == nil || !w.Returned || !w.Result {
			h.Fail(sig+"/completes", "all %d x %d tokens are through but the instance has not completed; live: %v", k, m, verifrt.LiveRepoGoroutines())
		}
		if len(r.Grammar) > 0 {
			h.Fail("C09/engine/causal-order", "%s", r.Grammar[0])
		}
	}
}

func init() {
	h.Register("C03", func(tier string) ([]*h.Scn, []*h.Plain) {
		var out []*h.Scn
		thorough := tier == "thorough"
		for n := 1; n <= 4; n++ {
			for m := 1; m <= 4; m++ {
				out = append(out, scn(n, m, 1, 0))
				if n <= 3 && m <= 3 {
					out = append(out, scn(n, m, 2, 0))
					if n*m <= 6 || thorough {
						out = append(out, scn(n, m, 3, 0))
					}
					if thorough || n*m <= 4 || (n == 3 && m == 1) || (n == 1 && m == 3) {
						out = append(out, scn(n, m, 1, 1))
					}
				}
				if n <= 2 && m <= 2 {
					out = append(out, scn(n, m, 2, 1))
				}
				if thorough {
					if n <= 3 && m <= 3 && !(n <= 2 && m <= 2) {
						out = append(out, scn(n, m, 2, 1))
					}
					if n <= 2 && m <= 2 {
						out = append(out, scn(n, m, 1, 2))
						out = append(out, scn(n, m, 3, 1))
					}
					if (n == 4 || m == 4) && n*m <= 8 {
						out = append(out, scn(n, m, 1, 1))
					}
				}
			}
		}
		for n := 2; n <= 4; n++ {
			for m := 1; m <= 3; m++ {
				if n == 4 && m > 2 {
					continue
				}
				acts := 2
				bounds := []int{0, 1}
				if thorough && n <= 3 && m <= 2 {
					bounds = append(bounds, 2)
				}
				for _, d := range bounds {
					if d == 1 && !thorough && (n > 3 || m > 2) {
						continue
					}
					sc := &h.Scn{Name: fmt.Sprintf("C03/pargw-race/N%dM%d/act%d/d%d", n, m, acts, d), Body: racing(n, m, acts), Opts: verifrt.Options{Bound: d, UseCache: true}}
					sc.Weight = n * m * (1 + 1500*d*d)
					if d == 1 {
						sc.Split = 4
					}
					if d >= 2 {
						sc.Split = 16
					}
					out = append(out, sc)
				}
			}
		}
		for k := 2; k <= 4; k++ {
			for m := 1; m <= 2; m++ {
				for d := 0; d <= 1; d++ {
					if d == 1 && !thorough && (k > 3 || m > 1) {
						continue
					}
					sc := &h.Scn{Name: fmt.Sprintf("C03/pargw-multi/K%dM%d/d%d", k, m, d), Body: multi(k, m), Opts: verifrt.Options{Bound: d, UseCache: true}}
					sc.Weight = k * m * (1 + 1500*d)
					if d == 1 {
						sc.Split = 4
					}
					out = append(out, sc)
				}
			}
		}
		return out, nil
	})
}
