// Package c05: an inclusive gateway forks on all true conditions (or the default alone), and the
// join releases exactly one token per fork activation, waiting only for activated branches that
// lead to it.
package c05

import (
	"fmt"

	"github.com/olive-io/bpmn/v2/verifrt"

	"verif/harness/drv"
	"verif/harness/h"
)

// graph: start -> OF -> (branch i: cond c_i) a_i -> OJ | end_i ; default branch (optional) ad -> OJ
// OJ -> after -> end. ends: bit i set = branch i ends at its own end event instead of joining.
func build(k int, withDefault bool, ends int, how string) *drv.Graph {
	g := drv.NewGraph(fmt.Sprintf("og_k%d_d%v_e%d", k, withDefault, ends))
	start := g.Add(drv.Start, "start")
	of := g.Add(drv.OR, "OF")
	oj := g.Add(drv.OR, "OJ")
	after := g.Add(drv.Task, "after")
	end := g.Add(drv.End, "end")
	g.Link(start, of, nil)
	joining := 0
	for i := 1; i <= k; i++ {
		if how == "direct" && ends&(1<<(i-1)) != 0 {
			// direct: the branch is a single sequence flow from the fork to the join (its token
			// arrives while the fork is still announcing its other branches)
			g.Link(of, oj, drv.Var(fmt.Sprintf("c%d", i)))
			joining++
			continue
		}
		a := g.Add(drv.Task, fmt.Sprintf("a%d", i))
		g.Link(of, a, drv.Var(fmt.Sprintf("c%d", i)))
		if ends&(1<<(i-1)) != 0 {
			// implicit: the branch ends at a task without outgoing flow (BPMN's implicit end);
			// exit: the branch's task is answered with an error in exit mode (it has an end event
			// that is never reached)
			if how != "implicit" {
				e := g.Add(drv.End, fmt.Sprintf("e%d", i))
				g.Link(a, e, nil)
			}
		} else {
			g.Link(a, oj, nil)
			joining++
		}
	}
	if withDefault {
		a := g.Add(drv.Task, "ad")
		if f := g.LinkDefault(of, a); how == "defcond" {
			// the default flow carries a condition of its own, and it is false: a default flow is
			// taken when no other condition holds, whatever it carries
			f.Cond = drv.Const(false)
		}
		g.Link(a, oj, nil)
		joining++
	}
	if joining == 0 {
		return nil
	}
	g.Link(oj, after, nil)
	g.Link(after, end, nil)
	return g
}

func scn(k int, withDefault bool, ends, bound int, how string) *h.Scn {
	g := build(k, withDefault, ends, how)
	if g == nil {
		return nil
	}
	defs := g.Parse()
	body := func() {
		truth := verifrt.Choose(1 << k)
		vars := map[string]any{}
		for i := 1; i <= k; i++ {
			vars[fmt.Sprintf("c%d", i)] = truth&(1<<(i-1)) != 0
		}
		ls := &drv.LockStep{Sig: "C05/incl", G: g, Defs: defs, Vars: vars}
		if how == "exit" {
			ls.Exit = func(id string) bool {
				var i int
				if n, _ := fmt.Sscanf(id, "a%d", &i); n == 1 {
					return ends&(1<<(i-1)) != 0
				}
				return false
			}
		}
		ls.Body()()
	}
	name := fmt.Sprintf("C05/incl/k%d/default=%v/ends=%04b/d%d", k, withDefault, ends, bound)
	if how != "" {
		name = fmt.Sprintf("C05/incl/k%d/default=%v/%s-ends=%04b/d%d", k, withDefault, how, ends, bound)
	}
	sc := &h.Scn{Name: name, Body: body, Opts: verifrt.Options{Bound: bound, UseCache: true}}
	sc.Weight = (1 << k) * k * (1 + 3000*bound)
	if bound >= 1 && k >= 2 {
		sc.Split = 4
	}
	if bound >= 1 && k >= 3 {
		sc.Split = 8
	}
	if bound >= 2 {
		sc.Split = 16
	}
	return sc
}

func init() {
	h.Register("C05", func(tier string) ([]*h.Scn, []*h.Plain) {
		var out []*h.Scn
		thorough := tier == "thorough"
		add := func(s *h.Scn) {
			if s != nil {
				out = append(out, s)
			}
		}
		for k := 1; k <= 4; k++ {
			for _, def := range []bool{false, true} {
				for ends := 0; ends < 1<<k; ends++ {
					add(scn(k, def, ends, 0, ""))
					if k <= 2 || (thorough && k <= 3) {
						add(scn(k, def, ends, 1, ""))
					}
					if thorough && k <= 2 && ends <= 1 {
						add(scn(k, def, ends, 2, ""))
					}
					if def && ends == 0 && k <= 3 {
						add(scn(k, def, ends, 0, "defcond"))
					}
					if ends != 0 && k <= 3 {
						add(scn(k, def, ends, 0, "implicit"))
						add(scn(k, def, ends, 0, "exit"))
						add(scn(k, def, ends, 0, "direct"))
						if k == 2 || thorough {
							add(scn(k, def, ends, 1, "direct"))
						}
					}
				}
			}
		}
		return out, nil
	})
}
