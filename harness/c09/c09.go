// Package c09: the trace stream is one causally consistent total order, the same for all
// subscribers (micro-harness on pkg/tracing; the engine-level causality grammar is checked by
// the monitor in package drv on every engine execution).
package c09

import (
	"context"
	"fmt"
	"strings"

	"github.com/olive-io/bpmn/v2/pkg/tracing"
	"github.com/olive-io/bpmn/v2/verifrt"

	"verif/harness/c01"
	"verif/harness/drv"
	"verif/harness/h"
)

type tr struct{ S, N int } // sender, sequence number; S<0: post trace of late subscriber -S-1

func (t tr) Unpack() any { return t }
func (t tr) String() string {
	if t.S < 0 {
		return fmt.Sprintf("P%d", -t.S-1)
	}
	return fmt.Sprintf("%c%d", 'a'+t.S, t.N)
}

// script of one subscriber
type script struct {
	Late  bool // subscribes concurrently with the senders (then makes its own post sender send)
	Unsub int  // unsubscribe after this many receptions (0 = never)
	Cap   int
}

func (s script) String() string {
	k := "E"
	if s.Late {
		k = "L"
	}
	if s.Unsub > 0 {
		k += fmt.Sprintf("u%d", s.Unsub)
	}
	return fmt.Sprintf("%s.c%d", k, s.Cap)
}

type params struct {
	Senders, Per int
	Subs         []script
	Relay        bool
	// CancelEarly: the context is cancelled from its own goroutine while the registered senders
	// are still sending (the tracer keeps delivering until every registered sender is done)
	CancelEarly bool
}

func (p params) name() string {
	var ss []string
	for _, s := range p.Subs {
		ss = append(ss, s.String())
	}
	r := ""
	if p.Relay {
		r = "relay/"
	}
	if p.CancelEarly {
		r += "cancel-early/"
	}
	return fmt.Sprintf("C09/tracer/%ss%dx%d[%s]", r, p.Senders, p.Per, strings.Join(ss, ","))
}

type subState struct {
	sc            script
	got           []tr
	ended         bool // reader finished (unsubscribed or channel closed)
	unsubReturned bool
}

func indexOf(ref []tr, x tr) int {
	for i, y := range ref {
		if y == x {
			return i
		}
	}
	return -1
}

func body(p params) func() {
	return func() {
		ctx, cancel := context.WithCancel(context.Background())
		in := tracing.NewTracer(ctx)
		out := in
		if p.Relay {
			out = tracing.NewTracer(ctx)
			tracing.NewRelay(ctx, in, out, func(t tracing.ITrace) []tracing.ITrace { return []tracing.ITrace{t} })
		}
		subs := make([]*subState, len(p.Subs))
		reader := func(i int, ch chan tracing.ITrace) {
			st := subs[i]
			for {
				if st.sc.Unsub > 0 && len(st.got) >= st.sc.Unsub {
					out.Unsubscribe(ch)
					st.unsubReturned = true
					break
				}
				x, ok := <-ch
				if !ok {
					break
				}
				st.got = append(st.got, x.(tr))
			}
			st.ended = true
		}
		// early subscribers: subscribed before any sender exists
		for i, sc := range p.Subs {
			subs[i] = &subState{sc: sc}
			if !sc.Late {
				ch := out.SubscribeChannel(make(chan tracing.ITrace, sc.Cap))
				go reader(i, ch)
			}
		}
		// free senders
		total := 0
		for s := 0; s < p.Senders; s++ {
			hd := in.RegisterSender()
			s := s
			total += p.Per
			go func() {
				defer hd.Done()
				for n := 0; n < p.Per; n++ {
					in.Send(tr{s, n})
				}
			}()
		}
		// late subscribers: subscribe concurrently, then cause a post trace
		for i, sc := range p.Subs {
			if !sc.Late {
				continue
			}
			i, sc := i, sc
			hd := in.RegisterSender()
			total++
			go func() {
				ch := out.SubscribeChannel(make(chan tracing.ITrace, sc.Cap))
				go func() {
					defer hd.Done()
					in.Send(tr{-i - 1, 0})
				}()
				reader(i, ch)
			}()
		}
		if p.CancelEarly {
			go cancel()
		}
		verifrt.WaitIdle()
		// everything that can be delivered has been delivered; now shut down
		cancel()
		<-out.Done()
		verifrt.WaitIdle()

		// ---- oracle ----
		var ref []tr
		refIdx := -1
		for i, st := range subs {
			if !st.sc.Late && st.sc.Unsub == 0 {
				ref, refIdx = st.got, i
				break
			}
		}
		if refIdx < 0 {
			panic("scenario needs an early subscriber that never unsubscribes")
		}
		// ref: every trace exactly once, per-sender program order
		if len(ref) != total {
			h.Fail("C09/tracer/none-dropped", "reference subscriber received %d of %d traces: %v", len(ref), total, ref)
		}
		seen := map[tr]bool{}
		last := map[int]int{}
		for _, x := range ref {
			if seen[x] {
				h.Fail("C09/tracer/no-duplicate", "trace %v delivered twice to one subscriber: %v", x, ref)
			}
			seen[x] = true
			if x.S >= 0 {
				if prev, ok := last[x.S]; ok && prev >= x.N {
					h.Fail("C09/tracer/program-order", "sender %d's traces out of order: %v", x.S, ref)
				}
				last[x.S] = x.N
			}
		}
		for i, st := range subs {
			if !st.ended {
				h.Fail("C09/tracer/no-deadlock", "subscriber %d (%s) still blocked after the tracer is done (got %v)", i, st.sc, st.got)
				continue
			}
			if i == refIdx {
				continue
			}
			// contiguous duplicate-free segment of ref
			start := -1
			if len(st.got) > 0 {
				start = indexOf(ref, st.got[0])
				if start < 0 {
					h.Fail("C09/tracer/same-order", "subscriber %d (%s) received %v which the reference never saw (ref %v)", i, st.sc, st.got[0], ref)
					continue
				}
				bad := false
				for k, x := range st.got {
					if start+k >= len(ref) || ref[start+k] != x {
						bad = true
					}
				}
				if bad {
					h.Fail("C09/tracer/same-order", "subscriber %d (%s) saw %v, not a contiguous segment of the reference order %v", i, st.sc, st.got, ref)
					continue
				}
			}
			complete := st.sc.Unsub == 0 || len(st.got) < st.sc.Unsub // read until the channel was closed
			if !st.sc.Late && len(st.got) > 0 && start != 0 {
				h.Fail("C09/tracer/none-dropped", "early subscriber %d (%s) missed the beginning: %v vs %v", i, st.sc, st.got, ref)
			}
			if !st.sc.Late && len(st.got) == 0 && total > 0 && complete {
				h.Fail("C09/tracer/none-dropped", "early subscriber %d (%s) received nothing of %v", i, st.sc, ref)
			}
			if complete && len(st.got) > 0 && start+len(st.got) != len(ref) {
				h.Fail("C09/tracer/none-dropped", "subscriber %d (%s) read to the end but missed the tail: %v vs %v", i, st.sc, st.got, ref)
			}
			if st.sc.Late {
				pi := indexOf(ref, tr{-i - 1, 0})
				if complete {
					if indexOf(st.got, tr{-i - 1, 0}) < 0 {
						h.Fail("C09/tracer/none-dropped", "late subscriber %d (%s) never received the trace sent after its subscription returned: got %v ref %v", i, st.sc, st.got, ref)
					}
				} else if pi >= 0 && start >= 0 && pi < start {
					h.Fail("C09/tracer/none-dropped", "late subscriber %d (%s): the trace sent after its subscription precedes what it received: got %v ref %v", i, st.sc, st.got, ref)
				}
			}
		}
		if live := verifrt.LiveRepoGoroutines(); len(live) > 0 {
			h.Fail("C09/tracer/terminates", "goroutines of the tracing package still alive after Done: %v", live)
		}
	}
}

func init() {
	h.Register("C09", func(tier string) ([]*h.Scn, []*h.Plain) {
		var out []*h.Scn
		add := func(p params, o verifrt.Options) {
			sc := &h.Scn{Name: p.name(), Body: body(p), Opts: o}
			if o.Unbounded && len(p.Subs) > 1 {
				sc.Split, sc.Weight = 16, 100000
			} else if o.Bound >= 3 {
				sc.Split, sc.Weight = 4, 5000
			}
			out = append(out, sc)
		}
		E := func(c int) script { return script{Cap: c} }
		Eu := func(j, c int) script { return script{Unsub: j, Cap: c} }
		L := func(c int) script { return script{Late: true, Cap: c} }
		Lu := func(j, c int) script { return script{Late: true, Unsub: j, Cap: c} }
		unb := verifrt.Options{Unbounded: true}
		d := func(n int) verifrt.Options { return verifrt.Options{Bound: n, UseCache: true} }
		thorough := tier == "thorough"
		// micro-scenarios: every interleaving (unbounded search with state caching) where that
		// finishes within the tier's budget, three deviations otherwise
		big := d(3)
		if thorough {
			big = unb
		}
		for _, c := range []int{0, 1, 2} {
			add(params{Senders: 1, Per: 2, Subs: []script{E(c)}}, unb)
			add(params{Senders: 2, Per: 1, Subs: []script{E(c)}}, unb)
			add(params{Senders: 2, Per: 1, Subs: []script{E(c), E(0)}}, big)
			add(params{Senders: 2, Per: 1, Subs: []script{E(c), Eu(1, c)}}, big)
			add(params{Senders: 1, Per: 2, Subs: []script{E(c), L(c)}}, big)
			add(params{Senders: 1, Per: 2, Subs: []script{E(c), Lu(1, c)}}, big)
			add(params{Senders: 2, Per: 1, Subs: []script{E(0), Eu(1, c), L(c)}}, d(2))
		}
		add(params{Senders: 2, Per: 1, Subs: []script{E(1)}, Relay: true}, d(3))
		add(params{Senders: 1, Per: 2, Subs: []script{E(0), Lu(1, 0)}, Relay: true}, d(2))
		add(params{Senders: 2, Per: 2, Subs: []script{E(0), Eu(2, 1)}}, d(2))
		add(params{Senders: 2, Per: 2, Subs: []script{E(1), Lu(2, 0), Eu(1, 2)}}, d(2))
		add(params{Senders: 3, Per: 2, Subs: []script{E(0), Eu(3, 1), L(2)}}, d(2))
		add(params{Senders: 3, Per: 1, Subs: []script{E(0), E(1), Lu(1, 0), Lu(2, 1)}}, d(1))
		add(params{Senders: 8, Per: 1, Subs: []script{E(0), Eu(4, 1), L(0), Lu(2, 2)}}, d(1))
		if thorough {
			add(params{Senders: 2, Per: 2, Subs: []script{E(0)}}, unb)
			add(params{Senders: 2, Per: 2, Subs: []script{E(0), Eu(2, 0)}}, unb)
			add(params{Senders: 2, Per: 2, Subs: []script{E(1), L(1)}}, unb)
			add(params{Senders: 3, Per: 1, Subs: []script{E(0), Lu(1, 0)}}, unb)
			add(params{Senders: 2, Per: 2, Subs: []script{E(0), Eu(2, 1)}}, d(3))
			add(params{Senders: 2, Per: 2, Subs: []script{E(1), Lu(2, 0), Eu(1, 2)}}, d(3))
			add(params{Senders: 3, Per: 2, Subs: []script{E(0), Eu(3, 1), L(2)}}, d(3))
			add(params{Senders: 3, Per: 3, Subs: []script{E(0), Eu(2, 1), Lu(3, 0)}}, d(3))
			add(params{Senders: 2, Per: 2, Subs: []script{E(0), Lu(1, 0)}, Relay: true}, d(3))
			add(params{Senders: 8, Per: 1, Subs: []script{E(0), Eu(4, 1), L(0), Lu(2, 2)}}, d(2))
		}
		// cancellation while registered senders are still sending: every early subscriber still
		// sees every trace, in one order
		for _, subs := range [][]script{{E(0), E(0)}, {E(0), E(2)}, {E(1), Eu(1, 0)}, {E(0), E(0), E(1)}} {
			add(params{Senders: 2, Per: 2, Subs: subs, CancelEarly: true}, verifrt.Options{Bound: 2, UseCache: true})
		}
		// (not through a relay: what a relay still forwards once its context is cancelled is not
		// a statement about one tracer's subscribers - it drops its backlog when the source
		// tracer is done, on the unchanged tree too)
		// engine clause: the causality grammar (the FlowTrace announcing new flows precedes the
		// first trace of each of them, visit before leave, termination last) on engine runs of
		// programs with forks of every kind, under schedules that preempt the forking flow
		engine := []*drv.Block{
			drv.Par(drv.T(), drv.T()), drv.Par(drv.T(), drv.T(), drv.T()), drv.Incl(-1, drv.T(), drv.T(), drv.T()), drv.Side(),
			drv.Seq(drv.Par(drv.T(), drv.T()), drv.T()), drv.SubB(drv.Par(drv.T(), drv.T())), drv.LoopB(drv.Par(drv.T(), drv.T())), drv.Xor(1, drv.T(), drv.E()),
		}
		for i, b := range engine {
			bounds := []int{0, 1}
			if tier == "thorough" && i < 4 {
				bounds = append(bounds, 2)
			}
			for _, d := range bounds {
				sc := c01.Scenario("C09", 100+i, b, d)
				sc.Name = fmt.Sprintf("C09/engine/%s/d%d", b.String(), d)
				sc.Weight = 50 * (1 + 100*d*d)
				if d >= 1 {
					sc.Split = 4 * d * d
				}
				out = append(out, sc)
			}
		}
		return out, nil
	})
}
