// Package rep is the report API shared by scheduler-driven scenarios (package h) and plain
// sequential enumerations. It has no dependency on the controlled runtime, so a sequential
// checker can be built and run on its own.
package rep

import (
	"crypto/sha1"
	"encoding/json"
	"fmt"
	"os"
	"path/filepath"
	"time"
)

// ViolationRec is a violation as reported by a shard.
type ViolationRec struct {
	Sig      string `json:"sig"`
	Msg      string `json:"msg"`
	Scenario string `json:"scenario"`
	Replay   string `json:"replay"`
}

// Report is the partial result of one shard (also used by Plain enumerations).
type Report struct {
	Prop        string          `json:"prop"`
	Tier        string          `json:"tier"`
	Shard       int             `json:"shard"`
	Scenarios   int             `json:"scenarios"`
	ScenariosOK int             `json:"scenarios_exhaustive"`
	Skipped     int             `json:"scenarios_skipped"`
	Execs       int64           `json:"execs"`
	Complete    int64           `json:"complete"`
	Pruned      int64           `json:"pruned"`
	Steps       int64           `json:"steps"`
	States      int64           `json:"states"`
	Nontrivial  int64           `json:"nontrivial"`
	Deadlocks   int64           `json:"deadlocks"`
	Distinct    map[string]bool `json:"-"`
	DistinctN   int64           `json:"distinct"`
	Evals       int64           `json:"evals"` // plain enumerations: cases evaluated
	MaxBound    int             `json:"max_bound"`
	MinBound    int             `json:"min_bound"`
	Unbounded   int             `json:"unbounded_scenarios"`
	Caps        []string        `json:"caps"`
	Samples     []any           `json:"samples"`
	Violations  []ViolationRec  `json:"violations"`
	Aborts      []string        `json:"aborts"`
	WallS       float64         `json:"wall_s"`
	Exhaustive  bool            `json:"exhaustive"`
	PerScenario []string        `json:"per_scenario,omitempty"`

	Deadline time.Time `json:"-"`
	CurName  string    `json:"-"`
	Replays  string    `json:"-"`
}

// ---- API for Plain enumerations ----

// Case counts one evaluated case; key identifies it for distinctness, nontrivial per the
// property's rule.
func (r *Report) Case(key string, nontrivial bool) {
	r.Evals++
	r.Execs++
	r.Complete++
	if nontrivial {
		r.Nontrivial++
		if len(r.Distinct) < 2000000 {
			r.Distinct[key] = true
		}
	}
}

// AddStates lets an explicit-state search report its state/transition counts.
func (r *Report) AddStates(states, transitions int64) {
	r.States += states
	r.Steps += transitions
}

func (r *Report) Sample(v any) {
	if len(r.Samples) < 3 {
		r.Samples = append(r.Samples, v)
	}
}

// Expired reports whether the time budget is used up (the enumeration should stop and call Cap).
func (r *Report) Expired() bool { return !r.Deadline.IsZero() && time.Now().After(r.Deadline) }

func (r *Report) Cap(what string) {
	r.Exhaustive = false
	r.Caps = append(r.Caps, r.CurName+": "+what)
}

// Violation records a violation with a replayable description of the failing input.
func (r *Report) Violation(sig, msg string, input any) {
	for _, v := range r.Violations {
		if v.Sig == sig && v.Scenario == r.CurName {
			return // one witness per signature and scenario
		}
	}
	path := WriteReplay(r.Replays, r.Prop, map[string]any{"property": r.Prop, "tier": r.Tier, "scenario": r.CurName, "kind": "plain",
		"signature": sig, "message": msg, "input": input})
	r.Violations = append(r.Violations, ViolationRec{Sig: sig, Msg: msg, Scenario: r.CurName, Replay: path})
}

func WriteReplay(dir, prop string, v map[string]any) string {
	b, _ := json.MarshalIndent(v, "", " ")
	sum := sha1.Sum(b)
	os.MkdirAll(dir, 0o755)
	path := filepath.Join(dir, fmt.Sprintf("%s-%x.json", prop, sum[:5]))
	os.WriteFile(path, b, 0o644)
	return path
}

// Plain is a sequential bounded-exhaustive enumeration (no scheduler involved).
type Plain struct {
	Name   string
	Run    func(r *Report)
	Weight int
}

// New makes an empty report.
func New(prop, tier, replayDir string, deadline time.Time) *Report {
	return &Report{Prop: prop, Tier: tier, Distinct: map[string]bool{}, Exhaustive: true, MinBound: 1 << 30, Replays: replayDir, Deadline: deadline}
}

// RunPlain runs one enumeration into the report.
func (r *Report) RunPlain(p *Plain) {
	r.CurName = p.Name
	if r.Expired() {
		r.Skipped++
		r.Exhaustive = false
		return
	}
	r.Scenarios++
	before := r.Exhaustive
	r.Exhaustive = true
	ts := time.Now()
	e0 := r.Evals
	p.Run(r)
	if r.Exhaustive {
		r.ScenariosOK++
	}
	r.PerScenario = append(r.PerScenario, fmt.Sprintf("%s evals=%d exh=%v %.2fs", p.Name, r.Evals-e0, r.Exhaustive, time.Since(ts).Seconds()))
	r.Exhaustive = r.Exhaustive && before
}

// Finish completes the derived fields.
func (r *Report) Finish(t0 time.Time) {
	if r.MinBound == 1<<30 {
		r.MinBound = 0
	}
	r.DistinctN = int64(len(r.Distinct))
	r.WallS = time.Since(t0).Seconds()
}
