// Package c14 decides the engine clause of C14: a process with a multiple or parallel-multiple
// intermediate catch event continues behind it exactly as the accounting over the event history
// prescribes. (The satisfiers themselves are explored by the sequential enumerator verif/seq/c14.)
package c14

import (
	"fmt"

	"github.com/olive-io/bpmn/v2/verifrt"

	"verif/harness/drv"
	"verif/harness/h"
)

var names = []string{"A", "B", "C"}

func defs(k int, kind string) []drv.EventDef {
	var out []drv.EventDef
	for i := 0; i < k; i++ {
		out = append(out, drv.EventDef{Kind: kind, Ref: names[i]})
	}
	return out
}

// straight: start -> [t0 ->] catch -> t1 -> end
func straight(k int, parallel, pre bool, kind string) *drv.Graph {
	g := drv.NewGraph(fmt.Sprintf("c14_s_%d_%v_%v_%s", k, parallel, pre, kind))
	s, c, t, e := g.Add(drv.Start, "start"), g.Add(drv.Catch, "c"), g.Add(drv.Task, "t1"), g.Add(drv.End, "end")
	c.Defs, c.ParallelMult = defs(k, kind), parallel
	if pre {
		t0 := g.Add(drv.Task, "t0")
		g.Link(s, t0, nil)
		g.Link(t0, c, nil)
	} else {
		g.Link(s, c, nil)
	}
	g.Link(c, t, nil)
	g.Link(t, e, nil)
	return g
}

// looped: start -> M -> catch -> t1 -> X -(again)-> M | -> end : the catch event is entered
// repeatedly, and what it has counted so far stays with it
func looped(k int, parallel bool, kind string) *drv.Graph {
	g := drv.NewGraph(fmt.Sprintf("c14_l_%d_%v_%s", k, parallel, kind))
	s, m, c, t, x, e := g.Add(drv.Start, "start"), g.Add(drv.XOR, "M"), g.Add(drv.Catch, "c"), g.Add(drv.Task, "t1"), g.Add(drv.XOR, "X"), g.Add(drv.End, "end")
	c.Defs, c.ParallelMult = defs(k, kind), parallel
	t.Results = []string{"again"}
	t.RTypes = []string{"boolean"}
	g.Link(s, m, nil)
	g.Link(m, c, nil)
	g.Link(c, t, nil)
	g.Link(t, x, nil)
	g.Link(x, m, drv.Var("again"))
	g.LinkDefault(x, e)
	return g
}

// two tokens wait at the same catch event: start -> F -> (c, c) ; c -> t1 -> end
func shared(k int, parallel bool, kind string) *drv.Graph {
	g := drv.NewGraph(fmt.Sprintf("c14_2_%d_%v_%s", k, parallel, kind))
	s, f, c, t, e := g.Add(drv.Start, "start"), g.Add(drv.AND, "F"), g.Add(drv.Catch, "c"), g.Add(drv.Task, "t1"), g.Add(drv.End, "end")
	c.Defs, c.ParallelMult = defs(k, kind), parallel
	g.Link(s, f, nil)
	g.Link(f, c, nil)
	g.Link(f, c, nil)
	g.Link(c, t, nil)
	g.Link(t, e, nil)
	return g
}

func Scns(tier string) []*h.Scn {
	var out []*h.Scn
	thorough := tier == "thorough"
	for _, kind := range []string{"signal", "message"} {
		for k := 1; k <= 3; k++ {
			for _, parallel := range []bool{false, true} {
				alphabet := append(defs(k, kind), drv.EventDef{Kind: kind, Ref: "Z"}) // Z matches nothing
				add := func(shape string, g *drv.Graph, n int, d int, vars map[string]any, answers func(step int, id string) map[string]any) {
					el := &drv.EventLock{Sig: "C14/engine", G: g, Defs: g.Parse(), Events: alphabet, MaxEvents: n, Vars: vars, Tags: fmt.Sprintf("%s,k%d,parallel=%v", shape, k, parallel)}
					el.Results = answers
					sc := &h.Scn{Name: fmt.Sprintf("C14/engine/%s/%s/k%d/parallel=%v/events<=%d/d%d", shape, kind, k, parallel, n, d), Body: el.Body(), Opts: verifrt.Options{Bound: d, UseCache: true}}
					sc.Weight = n * n * (k + 1) * (1 + 300*d)
					if d >= 1 {
						sc.Split = 4
					}
					out = append(out, sc)
				}
				n := 5
				if k == 3 {
					n = 4
				}
				if thorough {
					n += 2
				}
				if kind == "message" && !thorough {
					n = 3
				}
				add("straight", straight(k, parallel, false, kind), n, 0, nil, nil)
				add("behind-task", straight(k, parallel, true, kind), n-1, 0, nil, nil)
				// the loop is taken twice, then left
				visits := 0
				_ = visits
				add("loop", looped(k, parallel, kind), n, 0, map[string]any{"again": false}, func(step int, id string) map[string]any {
					return map[string]any{"again": step < 2}
				})
				if k <= 2 {
					add("two-tokens", shared(k, parallel, kind), n-1, 0, nil, nil)
				}
				if kind == "signal" && (thorough || k == 2) {
					add("straight", straight(k, parallel, false, kind), 3, 1, nil, nil)
					add("loop", looped(k, parallel, kind), 3, 1, map[string]any{"again": false}, func(step int, id string) map[string]any {
						return map[string]any{"again": step < 1}
					})
				}
			}
		}
	}
	return out
}
