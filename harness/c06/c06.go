// Package c06: after an event-based gateway exactly one alternative wins, the others are
// withdrawn, and the instance completes, however the competing events are delivered.
package c06

import (
	"fmt"
	"strings"
	"time"

	"github.com/olive-io/bpmn/v2/verifrt"

	"verif/harness/drv"
	"verif/harness/h"
)

var names = []string{"A", "B", "C"}

func build(alts int, kind string) *drv.Graph {
	g := drv.NewGraph(fmt.Sprintf("c06_%d_%s", alts, kind))
	s := g.Add(drv.Start, "start")
	gw := g.Add(drv.EBG, "G")
	g.Link(s, gw, nil)
	for i := 0; i < alts; i++ {
		c := g.Add(drv.Catch, "c"+names[i])
		c.Defs = []drv.EventDef{{Kind: kind, Ref: names[i]}}
		t := g.Add(drv.Task, "t"+names[i])
		e := g.Add(drv.End, "end"+names[i])
		g.Link(gw, c, nil)
		g.Link(c, t, nil)
		g.Link(t, e, nil)
	}
	return g
}

// sequences enumerates every non-empty sequence over alts symbols of length <= n.
func sequences(alts, n int) [][]int {
	var out [][]int
	var rec func(cur []int)
	rec = func(cur []int) {
		if len(cur) > 0 {
			out = append(out, append([]int{}, cur...))
		}
		if len(cur) == n {
			return
		}
		for i := 0; i < alts; i++ {
			rec(append(cur, i))
		}
	}
	rec(nil)
	return out
}

// racing: the whole sequence is delivered without waiting for quiescence, from one goroutine
// (back-to-back) or from one goroutine per event.
func racing(g *drv.Graph, alts int, kind string, seqs [][]int, perGoroutine bool) func() {
	defs := g.Parse()
	return func() {
		seq := seqs[verifrt.Choose(len(seqs))]
		r := drv.Open(g, defs, drv.OpenOpts{})
		var w *drv.Wait
		r.AfterStart = func() { w = r.WaitComplete(nil) }
		r.StartAll()
		verifrt.WaitIdle()
		if !r.StartReturned {
			h.Fail("C06/racing/startall-returns", "StartAll has not returned")
			return
		}
		for i := 0; i < alts; i++ {
			if r.Listening["c"+names[i]] != 1 {
				h.Fail("C06/racing/arms-all", "alternative %s is not listening after the gateway was reached (%v)", names[i], r.Listening)
				return
			}
		}
		returned := 0
		send := func(i int) {
			if kind == "message" {
				r.Message(names[i])
			} else {
				r.Signal(names[i])
			}
			returned++
		}
		if perGoroutine {
			for _, i := range seq {
				i := i
				go send(i)
			}
		} else {
			go func() {
				for _, i := range seq {
					send(i)
				}
			}()
		}
		verifrt.WaitIdle()
		var hist []string
		for _, i := range seq {
			hist = append(hist, names[i])
		}
		if returned != len(seq) {
			h.Fail("C06/racing/consume-returns", "%d of %d ConsumeEvent calls have returned after delivering %v; blocked: %v", returned, len(seq), hist, verifrt.LiveRepoGoroutines())
			return
		}
		p := r.PendingIDs()
		if len(p) != 1 {
			h.Fail("C06/racing/exactly-one-winner", "after delivering %v the branch tasks requested are %v, want exactly one", hist, p)
			for _, s := range r.Stream {
				verifrt.Log("trace %s", s)
			}
			return
		}
		if !strings.Contains(strings.Join(hist, ""), strings.TrimPrefix(p[0], "t")) {
			h.Fail("C06/racing/winner-was-delivered", "branch %s continued although only %v were delivered", p[0], hist)
			return
		}
		r.Answer(r.Pending(p[0]))
		verifrt.WaitIdle()
		// later deliveries of every event have no effect
		for i := 0; i < alts; i++ {
			go send(i)
		}
		verifrt.WaitIdle()
		if returned != len(seq)+alts {
			h.Fail("C06/racing/consume-returns", "ConsumeEvent after the determination has not returned (%d of %d) after %v; live: %v", returned, len(seq)+alts, hist, verifrt.LiveRepoGoroutines())
			for _, s := range r.Stream {
				verifrt.Log("trace %s", s)
			}
			return
		}
		if len(r.PendingIDs()) != 0 || len(r.Tasks) != 1 {
			h.Fail("C06/racing/losers-withdrawn", "after the winner %s completed, further requests appeared: %v", p[0], r.PendingIDs())
			return
		}
		if w == nil || !w.Returned || !w.Result {
			h.Fail("C06/racing/completes", "the winner's branch %s was answered but WaitUntilComplete has not returned true; live: %v", p[0], verifrt.LiveRepoGoroutines())
			for _, s := range r.Stream {
				verifrt.Log("trace %s", s)
			}
			return
		}
		if sp := verifrt.LiveSpinners(); len(sp) > 0 {
			h.Fail("C06/racing/no-livelock", "goroutines spinning after completion: %v", sp)
		}
		if len(r.Grammar) > 0 {
			h.Fail("C09/engine/causal-order", "%s", r.Grammar[0])
		}
	}
}

// timeout: the classic "event or timeout" pattern: alternative A waits for a signal, alternative
// T for a one-hour duration timer. Stepwise histories over {A, clock + 1h} (the timer fires
// once), and the signal racing the clock move.
func buildTimeout() *drv.Graph {
	g := drv.NewGraph("c06_timeout")
	s := g.Add(drv.Start, "start")
	gw := g.Add(drv.EBG, "G")
	g.Link(s, gw, nil)
	for _, alt := range []struct {
		id  string
		def drv.EventDef
	}{{"A", drv.EventDef{Kind: "signal", Ref: "A"}}, {"T", drv.EventDef{Kind: "timer", Sub: "timeDuration", Ref: "PT1H"}}} {
		c := g.Add(drv.Catch, "c"+alt.id)
		c.Defs = []drv.EventDef{alt.def}
		t := g.Add(drv.Task, "t"+alt.id)
		e := g.Add(drv.End, "end"+alt.id)
		g.Link(gw, c, nil)
		g.Link(c, t, nil)
		g.Link(t, e, nil)
	}
	return g
}

func timeoutRacing(g *drv.Graph) func() {
	defs := g.Parse()
	return func() {
		r := drv.Open(g, defs, drv.OpenOpts{Timer: true})
		var w *drv.Wait
		r.AfterStart = func() { w = r.WaitComplete(nil) }
		r.StartAll()
		verifrt.WaitIdle()
		if !r.StartReturned || r.Listening["cA"] != 1 || r.Listening["cT"] != 1 {
			h.Fail("C06/timeout-racing/arms-all", "after the gateway was reached: StartAll returned %v, listening %v", r.StartReturned, r.Listening)
			return
		}
		returned := 0
		go func() { r.Signal("A"); returned++ }()
		go func() { r.Clock.Add(time.Hour); returned++ }()
		verifrt.WaitIdle()
		if returned != 2 {
			h.Fail("C06/timeout-racing/consume-returns", "%d of 2 deliveries (signal, clock move) returned; live: %v", returned, verifrt.LiveRepoGoroutines())
			return
		}
		p := r.PendingIDs()
		if len(p) != 1 {
			h.Fail("C06/timeout-racing/exactly-one-winner", "the signal raced the timeout: branch tasks requested %v, want exactly one", p)
			return
		}
		r.Answer(r.Pending(p[0]))
		verifrt.WaitIdle()
		go func() { r.Signal("A"); returned++ }()
		go func() { r.Clock.Add(time.Hour); returned++ }()
		verifrt.WaitIdle()
		if returned != 4 || len(r.Tasks) != 1 {
			h.Fail("C06/timeout-racing/losers-withdrawn", "after the winner %s completed: %d of 4 deliveries returned, requests %d (want 1)", p[0], returned, len(r.Tasks))
			return
		}
		if w == nil || !w.Returned || !w.Result {
			h.Fail("C06/timeout-racing/completes", "the winner's branch %s was answered but the instance has not completed; live: %v", p[0], verifrt.LiveRepoGoroutines())
		}
	}
}

func init() {
	h.Register("C06", func(tier string) ([]*h.Scn, []*h.Plain) {
		var out []*h.Scn
		thorough := tier == "thorough"
		for _, kind := range []string{"signal", "message"} {
			for alts := 2; alts <= 3; alts++ {
				g := build(alts, kind)
				defs := g.Parse()
				var alphabet []drv.EventDef
				for i := 0; i < alts; i++ {
					alphabet = append(alphabet, drv.EventDef{Kind: kind, Ref: names[i]})
				}
				// (i) one event per quiescent state, in lock-step with the token game
				for _, d := range []int{0, 1} {
					if d == 1 && alts == 3 && !thorough && kind == "message" {
						continue
					}
					el := &drv.EventLock{Sig: "C06/stepwise", G: g, Defs: defs, Events: alphabet, MaxEvents: 3}
					sc := &h.Scn{Name: fmt.Sprintf("C06/stepwise/alt%d/%s/d%d", alts, kind, d), Body: el.Body(), Opts: verifrt.Options{Bound: d, UseCache: true}}
					sc.Weight = alts * (1 + 1000*d)
					if d >= 1 {
						sc.Split = 8
					}
					out = append(out, sc)
				}
				// (ii) back-to-back and (iii) one goroutine per event
				seqs := sequences(alts, 3)
				for _, per := range []bool{false, true} {
					mode := "back-to-back"
					if per {
						mode = "concurrent"
					}
					bounds := []int{0, 1}
					if alts == 2 && thorough {
						bounds = append(bounds, 2)
					}
					for _, d := range bounds {
						sc := &h.Scn{Name: fmt.Sprintf("C06/racing/alt%d/%s/%s/d%d", alts, kind, mode, d), Body: racing(g, alts, kind, seqs, per), Opts: verifrt.Options{Bound: d, UseCache: true}}
						sc.Weight = len(seqs) * (1 + 1000*d*d)
						if d == 1 {
							sc.Split = 8
						}
						if d >= 2 {
							sc.Split = 16
						}
						out = append(out, sc)
					}
				}
			}
		}
		{
			g := buildTimeout()
			alphabet := []drv.EventDef{{Kind: "signal", Ref: "A"}, {Kind: "timer", Sub: "timeDuration", Ref: "PT1H"}}
			for _, d := range []int{0, 1} {
				el := &drv.EventLock{Sig: "C06/timeout", G: g, Defs: g.Parse(), Events: alphabet, MaxEvents: 3, Open: drv.OpenOpts{Timer: true}}
				// a duration timer fires once
				el.AllowEvent = func(m *drv.Model, ev drv.EventDef) bool {
					return ev.Kind != "timer" || m.Delivered("timer", "PT1H") == 0
				}
				out = append(out, &h.Scn{Name: fmt.Sprintf("C06/timeout/stepwise/d%d", d), Body: el.Body(), Opts: verifrt.Options{Bound: d, UseCache: true}, Weight: 2 * (1 + 1000*d), Split: 1 + 3*d})
				bounds := 1 + 1000*d*d
				out = append(out, &h.Scn{Name: fmt.Sprintf("C06/timeout/racing/d%d", d), Body: timeoutRacing(g), Opts: verifrt.Options{Bound: d, UseCache: true}, Weight: bounds, Split: 1 + 3*d})
			}
			if thorough {
				out = append(out, &h.Scn{Name: "C06/timeout/racing/d2", Body: timeoutRacing(g), Opts: verifrt.Options{Bound: 2, UseCache: true}, Weight: 4000, Split: 16})
			}
		}
		return out, nil
	})
}
