package c01

import (
	"fmt"

	"github.com/olive-io/bpmn/v2/verifrt"

	"verif/harness/drv"
	"verif/harness/h"
)

// fourTokens: a parallel fork into n tasks, an exclusive merge and ONE sequence flow into the node
// under test, so that n tokens reach that node over a single flow (a node's inbox holds
// 2*incoming+1 = 3 messages). Not a block-structured program: its own small family.
func fourTokens(n int, target drv.Kind) *drv.Graph {
	g := drv.NewGraph(fmt.Sprintf("c01_tokens%d_%s", n, target))
	s, f, m, e := g.Add(drv.Start, "start"), g.Add(drv.AND, "F"), g.Add(drv.XOR, "M"), g.Add(drv.End, "end")
	g.Link(s, f, nil)
	for i := 1; i <= n; i++ {
		a := g.Add(drv.Task, fmt.Sprintf("t%d", i))
		g.Link(f, a, nil)
		g.Link(a, m, nil)
	}
	switch target {
	case drv.End:
		g.Link(m, e, nil)
	case drv.Task:
		x := g.Add(drv.Task, "x1")
		g.Link(m, x, nil)
		g.Link(x, e, nil)
	case drv.Sub:
		sp := g.AddSub("sp")
		is, in, ie := sp.Inner.Add(drv.Start, "sp_start"), sp.Inner.Add(drv.Task, "x1"), sp.Inner.Add(drv.End, "sp_end")
		sp.Inner.Link(is, in, nil)
		sp.Inner.Link(in, ie, nil)
		g.Link(m, sp, nil)
		g.Link(sp, e, nil)
	default: // a gateway passing every token on
		x, t := g.Add(target, "X"), g.Add(drv.Task, "x1")
		g.Link(m, x, nil)
		g.Link(x, t, nil)
		g.Link(t, e, nil)
	}
	return g
}

func graphScenarios(thorough bool) []*h.Scn {
	var out []*h.Scn
	for _, target := range []drv.Kind{drv.Task, drv.End, drv.XOR, drv.Sub} {
		for _, n := range []int{4, 5} {
			if n == 5 && !thorough {
				continue
			}
			g := fourTokens(n, target)
			defs := g.Parse()
			bounds := []int{0}
			if thorough {
				bounds = []int{0, 1}
			}
			for _, d := range bounds {
				shape := fmt.Sprintf("tokens%d>%s", n, target)
				ls := &drv.LockStep{Sig: "C01/graph", G: g, Defs: defs, CompletionShape: shape, GrammarSig: "C01/graph/causal-order#" + shape}
				sc := &h.Scn{Name: fmt.Sprintf("C01/graph/tokens%d-over-one-flow/%s/d%d", n, target, d), Body: ls.Body(), Opts: verifrt.Options{Bound: d, UseCache: true}, Weight: 50 + 5000*d}
				if d > 0 {
					sc.Split = 8
				}
				out = append(out, sc)
			}
		}
	}
	return out
}
