// Package c01: token flow conforms to BPMN semantics for every block-structured program, every
// variable assignment and every order in which pending tasks are answered.
package c01

import (
	"fmt"
	"sort"
	"strings"

	"github.com/olive-io/bpmn/v2/verifrt"

	"verif/harness/drv"
	"verif/harness/h"
)

// Features names the constructs a program uses (part of the completion-clause signatures).
func Features(b *drv.Block) string {
	set := map[string]bool{}
	var rec func(x *drv.Block)
	rec = func(x *drv.Block) {
		switch x.Kind {
		case "xor", "par", "incl", "loop", "sub", "side", "drop":
			set[x.Kind] = true
		}
		for _, k := range x.Kids {
			rec(k)
		}
	}
	rec(b)
	var fs []string
	for k := range set {
		fs = append(fs, k)
	}
	sort.Strings(fs)
	if len(fs) == 0 {
		return "plain"
	}
	return strings.Join(fs, "+")
}

// Scenario builds the lock-step scenario of one program: the variable assignment is an
// environment choice inside the scenario.
func Scenario(prop string, idx int, b *drv.Block, bound int) *h.Scn {
	p := drv.Render(fmt.Sprintf("prog%d", idx), b)
	defs := p.G.Parse()
	as := p.Assignments()
	body := func() {
		a := as[verifrt.Choose(len(as))]
		ls := &drv.LockStep{Sig: prop + "/blocks", G: p.G, Defs: defs, Vars: a, Answer: p.Answer}
		ls.CompletionShape = drv.Tags(b)
		ls.Ctx = func(id string) string {
			if c, ok := p.Ctx[id]; ok {
				return c
			}
			return "top"
		}
		ls.Body()()
	}
	return &h.Scn{Name: fmt.Sprintf("%s/blocks/%s/d%d", prop, b.String(), bound), Body: body, Opts: verifrt.Options{Bound: bound, UseCache: true}}
}

func init() {
	h.Register("C01", func(tier string) ([]*h.Scn, []*h.Plain) {
		var out []*h.Scn
		thorough := tier == "thorough"
		progs := drv.Enumerate(3, 2, 2, true, true)
		if thorough {
			progs = drv.Enumerate(4, 2, 2, true, true)
			seen := map[string]bool{}
			for _, b := range progs {
				seen[b.String()] = true
			}
			for _, b := range drv.Enumerate(3, 2, 3, true, true) {
				if !seen[b.String()] {
					progs = append(progs, b)
				}
			}
		}
		// decision tasks (a task whose own conditional out-flows read the result its answer
		// writes): every task leaf of the small programs replaced in turn
		decLim := 2
		if thorough {
			decLim = 3
		}
		seenDec := map[string]bool{}
		for _, b := range progs {
			if b.Size() > decLim || strings.Contains(b.String(), "side") {
				continue
			}
			for _, v := range drv.DecVariants(b) {
				if !seenDec[v.String()] {
					seenDec[v.String()] = true
					progs = append(progs, v)
				}
			}
		}
		if !thorough {
			for _, v := range []*drv.Block{drv.Seq(drv.Dec(), drv.T()), drv.Seq(drv.T(), drv.Dec()), drv.Par(drv.Dec(), drv.T()), drv.Incl(1, drv.Dec(), drv.T()), drv.Seq(drv.Dec(), drv.Dec())} {
				if !seenDec[v.String()] {
					seenDec[v.String()] = true
					progs = append(progs, v)
				}
			}
		}
		// a token that ends silently at a task (its only outgoing flow is conditional and false)
		// while its sibling already waits at the inclusive join (seed c01-5)
		for _, v := range []*drv.Block{drv.Seq(drv.Drop(), drv.T()), drv.Incl(-1, drv.T(), drv.Drop()), drv.Incl(-1, drv.Drop(), drv.T()),
			drv.Incl(-1, drv.Drop(), drv.Drop()), drv.Incl(2, drv.T(), drv.Drop(), drv.T())} {
			progs = append(progs, v)
		}
		for i, b := range progs {
			sc := Scenario("C01", i, b, 0)
			sc.Weight = b.Size()
			out = append(out, sc)
		}
		// one deviation for the small programs
		lim := 2
		if thorough {
			lim = 3
		}
		for i, b := range progs {
			if !thorough && strings.Contains(b.String(), "dec") && b.Size() > 1 {
				continue
			}
			if b.Size() <= lim {
				sc := Scenario("C01", i, b, 1)
				sc.Weight = 1000 * b.Size()
				if b.Size() >= 3 {
					sc.Split = 4
				}
				out = append(out, sc)
			}
		}
		if thorough {
			// two deviations on a core: one program per construct
			core := []*drv.Block{drv.T(), drv.Side(), drv.Par(drv.T(), drv.T()), drv.Xor(1, drv.T(), drv.E()), drv.Incl(1, drv.T(), drv.T()), drv.LoopB(drv.T()), drv.SubB(drv.T())}
			for i, b := range core {
				sc := Scenario("C01", 100000+i, b, 2)
				sc.Weight = 1000000
				sc.Split = 16
				out = append(out, sc)
			}
		}
		out = append(out, graphScenarios(thorough)...)
		return out, nil
	})
}
