// Package c15 decides the engine clause of C15: the engine behaves identically on a definitions
// model and on the model re-parsed from its serialisation. (The structural clauses are decided by
// the sequential enumerator verif/seq/c15, which also exports the corpus used here.)
//
// Differential oracle, no reference model: the same deterministic driver script is run on m0 =
// Parse(xml) and on m1 = Parse(Marshal(m0)) under the default schedule (d=0); what the instance
// shows at every quiescent state (pending task requests), the multiset of traces (generated flow
// ids masked: the two models may list their elements in a different order, which changes the
// order in which ids are drawn, not the behaviour), completion, errors and variables must agree.
package c15

import (
	"encoding/xml"
	"fmt"
	"os"
	"regexp"
	"sort"
	"strings"

	"github.com/olive-io/bpmn/schema"
	"github.com/olive-io/bpmn/v2/verifrt"

	"verif/harness/drv"
	"verif/harness/h"
	seq "verif/seq/c15"
)

var (
	reSignal = regexp.MustCompile(`signalRef="([^"]+)"`)
	reMsg    = regexp.MustCompile(`messageRef="([^"]+)"`)
	reGenID  = regexp.MustCompile(`\bi[0-9]+\b`)
	reAddr   = regexp.MustCompile(`0x[0-9a-f]+`)
)

func refs(re *regexp.Regexp, x string) []string {
	seen := map[string]bool{}
	var out []string
	for _, m := range re.FindAllStringSubmatch(x, -1) {
		if !seen[m[1]] {
			seen[m[1]] = true
			out = append(out, m[1])
		}
	}
	sort.Strings(out)
	return out
}

// observe runs the script on one model and returns the observation as lines.
func observe(defs *schema.Definitions, signals, messages []string) (obs []string) {
	defer func() {
		if p := recover(); p != nil {
			s := fmt.Sprint(p)
			if strings.HasPrefix(s, "NewProcess:") {
				obs = append(obs, "construction fails: "+reAddr.ReplaceAllString(s, "0x*"))
				return
			}
			panic(p)
		}
	}()
	if len(*defs.Processes()) == 0 {
		return []string{"no process"}
	}
	r := drv.Open(nil, defs, drv.OpenOpts{SubCap: 1})
	var w *drv.Wait
	r.AfterStart = func() { w = r.WaitComplete(nil) }
	r.StartAll()
	verifrt.WaitIdle()
	stim := 0
	for step := 0; step < 16; step++ {
		pend := r.PendingIDs()
		obs = append(obs, fmt.Sprintf("step %d pending %v", step, pend))
		if len(pend) > 0 {
			r.Answer(r.Pending(pend[0]))
			verifrt.WaitIdle()
			continue
		}
		if w != nil && w.Returned {
			break
		}
		if stim < len(signals) {
			r.Signal(signals[stim])
			obs = append(obs, "signal "+signals[stim])
		} else if stim < len(signals)+len(messages) {
			r.Message(messages[stim-len(signals)])
			obs = append(obs, "message "+messages[stim-len(signals)])
		} else {
			break
		}
		stim++
		verifrt.WaitIdle()
	}
	obs = append(obs, fmt.Sprintf("start returned %v err %v; complete %v", r.StartReturned, r.StartErr, w != nil && w.Returned && w.Result))
	var tr []string
	for _, s := range r.Stream {
		tr = append(tr, reAddr.ReplaceAllString(reGenID.ReplaceAllString(s, "i*"), "0x*"))
	}
	sort.Strings(tr)
	obs = append(obs, tr...)
	vars := r.Vars()
	var keys []string
	for k := range vars {
		keys = append(keys, k)
	}
	sort.Strings(keys)
	for _, k := range keys {
		obs = append(obs, fmt.Sprintf("var %s=%v", k, vars[k]))
	}
	r.Cancel()
	verifrt.WaitIdle()
	return obs
}

func body(name, x string) func() {
	sig := "C15/engine/behaves-identically"
	m0 := new(schema.Definitions)
	err0 := xml.Unmarshal([]byte(x), m0)
	var m1 *schema.Definitions
	var err1 error
	if err0 == nil {
		var raw []byte
		raw, err1 = xml.Marshal(m0)
		if err1 == nil {
			m1 = new(schema.Definitions)
			err1 = xml.Unmarshal(raw, m1)
		}
	}
	signals, messages := refs(reSignal, x), refs(reMsg, x)
	return func() {
		if err0 != nil || err1 != nil {
			return // parse / marshal errors are the sequential checker's clauses
		}
		a := observe(m0, signals, messages)
		b := observe(m1, signals, messages)
		if strings.Join(a, "\n") != strings.Join(b, "\n") {
			// first difference
			i := 0
			for i < len(a) && i < len(b) && a[i] == b[i] {
				i++
			}
			la, lb := "<end>", "<end>"
			if i < len(a) {
				la = a[i]
			}
			if i < len(b) {
				lb = b[i]
			}
			h.Fail(sig, "document %s: the engine behaves differently on the re-parsed model; first difference (observation line %d): original %q, re-parsed %q", name, i, la, lb)
		}
	}
}

// Scns returns one d=0 scenario per executable document of the corpus and per bundled file.
func Scns(tier string) []*h.Scn {
	var out []*h.Scn
	i := 0
	for _, d := range seq.Corpus(tier) {
		if !d.Executable {
			continue
		}
		out = append(out, &h.Scn{Name: fmt.Sprintf("C15/engine/%04d/%s", i, d.Name), Body: body(d.Name, d.XML), Opts: verifrt.Options{Bound: 0, UseCache: true}, Weight: 1})
		i++
	}
	for _, f := range seq.BundledFiles() {
		data, err := os.ReadFile(f)
		if err != nil {
			continue
		}
		name := "bundled/" + strings.TrimPrefix(f, seq.RepoRoot+"/")
		out = append(out, &h.Scn{Name: "C15/engine/" + name, Body: body(name, string(data)), Opts: verifrt.Options{Bound: 0, UseCache: true}, Weight: 2})
	}
	return out
}
