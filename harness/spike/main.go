package main

import (
	"context"
	"fmt"
	"time"

	"github.com/olive-io/bpmn/v2/pkg/tracing"
	"github.com/olive-io/bpmn/v2/verifrt"
)

type tr struct{ s, n int }

func (t tr) Unpack() any { return t }

func main() {
	for _, cfg := range [][3]int{{2, 1, 1}, {2, 2, 1}, {2, 2, 2}} {
		senders, per, bound := cfg[0], cfg[1], cfg[2]
		sc := &verifrt.Scenario{Name: "tracer", Body: func() {
			ctx, cancel := context.WithCancel(context.Background())
			t := tracing.NewTracer(ctx)
			sub := t.SubscribeChannel(make(chan tracing.ITrace, 1))
			got := 0
			go func() {
				for x := range sub {
					verifrt.Log("%v", x)
					got++
				}
				verifrt.Log("closed")
			}()
			for s := 0; s < senders; s++ {
				h := t.RegisterSender()
				s := s
				go func() {
					defer h.Done()
					for i := 0; i < per; i++ {
						t.Send(tr{s, i})
					}
				}()
			}
			verifrt.WaitIdle()
			cancel()
			<-t.Done()
			verifrt.WaitIdle()
			verifrt.Log("got=%d live=%v", got, verifrt.LiveRepoGoroutines())
		}, Check: func(o *verifrt.Outcome) []string {
			if o.Deadlock || o.Panic != "" {
				return []string{fmt.Sprint("bad: ", o.Deadlock, o.Panic, o.Blocked)}
			}
			return nil
		}}
		for _, unb := range []bool{false, true} {
			t0 := time.Now()
			st, v := verifrt.Explore(sc, verifrt.Options{Bound: bound, UseCache: true, Unbounded: unb})
			fmt.Printf("senders=%d per=%d bound=%d unb=%v: execs=%d complete=%d pruned=%d states=%d steps=%d outcomes=%d maxpts=%d exh=%v viol=%d  %.2fs\n",
				senders, per, bound, unb, st.Execs, st.Complete, st.Pruned, st.States, st.Steps, len(st.Outcomes), st.MaxPoints, st.Exhaustive, len(v), time.Since(t0).Seconds())
			for _, x := range v {
				fmt.Println("  ", x.Msg, x.Choices)
			}
			if unb && senders*per >= 4 {
				break
			}
		}
	}
}
