// Package litmus is the conformance suite of the controlled runtime: small programs, one per
// construct and subtle rule, explored exhaustively; the set of outcomes must equal the expected
// set. It is registered as pseudo-property "RT" (run by setup and by hand, not a claimed check).
// In a -race build the "race/..." programs additionally tell whether the detector sees exactly
// the unsynchronised accesses (see cmd/vcheck: selfcheck-race).
package litmus

import (
	"context"
	"fmt"
	"sort"
	"strings"
	"sync"
	"sync/atomic"

	"github.com/olive-io/bpmn/v2/verifrt"

	"verif/harness/h"
)

// Racy is read by the race self-check: programs whose name starts with "race/bad" must produce a
// detector report, "race/ok" must not.
var shared int

type prog struct {
	name string
	body func() string // returns the outcome
	want []string
}

func progs() []prog {
	return []prog{
		{"unbuffered-rendezvous", func() string {
			ch := make(chan int)
			x := 0
			go func() { x = 1; ch <- 1 }()
			<-ch
			return fmt.Sprint(x)
		}, []string{"1"}},
		{"buffered-fifo", func() string {
			ch := make(chan int, 2)
			go func() { ch <- 1; ch <- 2; ch <- 3 }()
			a, b, c := <-ch, <-ch, <-ch
			return fmt.Sprint(a, b, c)
		}, []string{"1 2 3"}},
		{"two-senders-order", func() string {
			ch := make(chan int, 2)
			go func() { ch <- 1 }()
			go func() { ch <- 2 }()
			a, b := <-ch, <-ch
			return fmt.Sprint(a, b)
		}, []string{"1 2", "2 1"}},
		{"close-wakes-receivers", func() string {
			ch := make(chan int)
			res := make(chan string, 2)
			for i := 0; i < 2; i++ {
				go func() { _, ok := <-ch; res <- fmt.Sprint(ok) }()
			}
			close(ch)
			return <-res + <-res
		}, []string{"falsefalse"}},
		{"select-both-ready", func() string {
			a, b := make(chan int, 1), make(chan int, 1)
			a <- 1
			b <- 2
			select {
			case <-a:
				return "a"
			case <-b:
				return "b"
			}
		}, []string{"a", "b"}},
		{"select-default", func() string {
			a := make(chan int)
			select {
			case <-a:
				return "a"
			default:
				return "default"
			}
		}, []string{"default"}},
		{"select-send-recv", func() string {
			a, b := make(chan int), make(chan int)
			go func() { a <- 1 }()
			go func() { <-b }()
			select {
			case <-a:
				return "recv"
			case b <- 1:
				return "send"
			}
		}, []string{"recv", "send"}},
		{"nil-channel-never-ready", func() string {
			var n chan int
			a := make(chan int, 1)
			a <- 1
			select {
			case <-n:
				return "nil"
			case <-a:
				return "a"
			}
		}, []string{"a"}},
		{"mutex-excludes", func() string {
			var mu sync.Mutex
			x := 0
			var wg sync.WaitGroup
			for i := 0; i < 2; i++ {
				wg.Add(1)
				go func() {
					defer wg.Done()
					mu.Lock()
					t := x
					verifrt.Yield()
					x = t + 1
					mu.Unlock()
				}()
			}
			wg.Wait()
			return fmt.Sprint(x)
		}, []string{"2"}},
		{"lost-update-without-lock", func() string {
			x := 0
			var wg sync.WaitGroup
			for i := 0; i < 2; i++ {
				wg.Add(1)
				go func() { defer wg.Done(); t := x; verifrt.Yield(); x = t + 1 }()
			}
			wg.Wait()
			return fmt.Sprint(x)
		}, []string{"1", "2"}},
		{"rwmutex-writer-excludes-readers", func() string {
			var mu sync.RWMutex
			x, seen := 0, ""
			var wg sync.WaitGroup
			wg.Add(2)
			go func() {
				defer wg.Done()
				mu.Lock()
				x = 1
				verifrt.Yield()
				x = 2
				mu.Unlock()
			}()
			go func() { defer wg.Done(); mu.RLock(); seen = fmt.Sprint(x); mu.RUnlock() }()
			wg.Wait()
			return seen
		}, []string{"0", "2"}},
		{"once-runs-once", func() string {
			var once sync.Once
			var n int32
			var wg sync.WaitGroup
			for i := 0; i < 3; i++ {
				wg.Add(1)
				go func() { defer wg.Done(); once.Do(func() { atomic.AddInt32(&n, 1) }) }()
			}
			wg.Wait()
			return fmt.Sprint(atomic.LoadInt32(&n))
		}, []string{"1"}},
		{"atomic-cas-one-winner", func() string {
			var f int32
			var wins int32
			var wg sync.WaitGroup
			for i := 0; i < 3; i++ {
				wg.Add(1)
				go func() {
					defer wg.Done()
					if atomic.CompareAndSwapInt32(&f, 0, 1) {
						atomic.AddInt32(&wins, 1)
					}
				}()
			}
			wg.Wait()
			return fmt.Sprint(wins)
		}, []string{"1"}},
		{"context-cancel-propagates", func() string {
			ctx, cancel := context.WithCancel(context.Background())
			child, c2 := context.WithCancel(ctx)
			defer c2()
			got := make(chan string, 1)
			go func() { <-child.Done(); got <- fmt.Sprint(child.Err()) }()
			cancel()
			return <-got
		}, []string{"context canceled"}},
		{"waitgroup-waits-all", func() string {
			var wg sync.WaitGroup
			x := int32(0)
			for i := 0; i < 3; i++ {
				wg.Add(1)
				go func() { defer wg.Done(); atomic.AddInt32(&x, 1) }()
			}
			wg.Wait()
			return fmt.Sprint(atomic.LoadInt32(&x))
		}, []string{"3"}},
		{"deadlock-detected", func() string {
			ch := make(chan int)
			done := false
			go func() { <-ch; done = true }()
			verifrt.WaitIdle()
			return fmt.Sprint(done)
		}, []string{"false"}},
		{"cond-signal-not-lost", func() string {
			// the classic hand-over: whichever side runs first, the consumer gets the item
			var mu sync.Mutex
			cond := sync.NewCond(&mu)
			ready, got := false, false
			go func() {
				mu.Lock()
				for !ready {
					cond.Wait()
				}
				got = true
				mu.Unlock()
			}()
			mu.Lock()
			ready = true
			cond.Signal()
			mu.Unlock()
			verifrt.WaitIdle()
			return fmt.Sprint(got)
		}, []string{"true"}},
		{"cond-signal-wakes-one-broadcast-all", func() string {
			var mu sync.Mutex
			cond := sync.NewCond(&mu)
			woken := 0
			for i := 0; i < 2; i++ {
				go func() {
					mu.Lock()
					cond.Wait()
					woken++
					mu.Unlock()
				}()
			}
			verifrt.WaitIdle() // both wait
			cond.Signal()
			verifrt.WaitIdle()
			one := woken
			cond.Broadcast()
			verifrt.WaitIdle()
			return fmt.Sprint(one, woken)
		}, []string{"1 2"}},
		{"cond-wait-without-signal-blocks", func() string {
			var mu sync.Mutex
			cond := sync.NewCond(&mu)
			done := false
			go func() {
				mu.Lock()
				cond.Wait()
				done = true
				mu.Unlock()
			}()
			verifrt.WaitIdle()
			return fmt.Sprint(done)
		}, []string{"false"}},
		{"atomic-value-and-pointer", func() string {
			var v atomic.Value
			var p atomic.Pointer[int]
			one, two := 1, 2
			res := make(chan string, 2)
			go func() { v.Store("a"); p.CompareAndSwap(nil, &one); res <- "" }()
			go func() { v.Store("b"); p.CompareAndSwap(nil, &two); res <- "" }()
			<-res
			<-res
			return fmt.Sprintf("%v %v", v.Load(), *p.Load())
		}, []string{"a 1", "b 1", "a 2", "b 2"}},
		{"once-value", func() string {
			n := 0
			f := sync.OnceValue(func() int { n++; return n })
			res := make(chan int, 2)
			go func() { res <- f() }()
			go func() { res <- f() }()
			return fmt.Sprint(<-res, <-res, n)
		}, []string{"1 1 1"}},
		{"context-cause-and-afterfunc", func() string {
			ctx, cancel := context.WithCancelCause(context.Background())
			ran := make(chan bool, 1)
			stop := context.AfterFunc(ctx, func() { ran <- true })
			child, ccancel := context.WithCancel(ctx)
			defer ccancel()
			cancel(fmt.Errorf("why"))
			<-child.Done()
			<-ran
			detached := context.WithoutCancel(child)
			return fmt.Sprint(context.Cause(child), stop(), detached.Err())
		}, []string{"why false <nil>"}},
		{"context-afterfunc-stopped", func() string {
			ctx, cancel := context.WithCancel(context.Background())
			ran := false
			stop := context.AfterFunc(ctx, func() { ran = true })
			stopped := stop()
			cancel()
			verifrt.WaitIdle()
			return fmt.Sprint(stopped, ran)
		}, []string{"true false"}},
		{"spin-on-closed-channel-blocks", func() string {
			closed, other := make(chan struct{}), make(chan int)
			close(closed)
			got := 0
			go func() {
				for {
					select {
					case <-closed:
					case v := <-other:
						got = v
						return
					}
				}
			}()
			verifrt.WaitIdle()
			sp := len(verifrt.LiveSpinners())
			other <- 7
			verifrt.WaitIdle()
			return fmt.Sprint(sp, got)
		}, []string{"1 7"}},
		{"bounded-loop-on-closed-channel-is-not-spinning", func() string {
			// five visits of the same select that takes a closed channel: a bounded loop, which
			// must run to its end (probation) and not be parked as a spinner
			closed := make(chan struct{})
			close(closed)
			n := 0
			done := false
			go func() {
				for i := 0; i < 5; i++ {
					select {
					case <-closed:
						n++
					}
				}
				done = true
			}()
			verifrt.WaitIdle()
			return fmt.Sprint(n, done, len(verifrt.LiveSpinners()))
		}, []string{"5 true 0"}},
		{"select-default-is-fair", func() string {
			// two clauses permanently ready: the loop ends because the choice cannot be the same
			// clause for ever; every number of rounds from 0 up to the deviation budget is an outcome,
			// none is unbounded
			a, b := make(chan struct{}), make(chan struct{})
			close(a)
			close(b)
			rounds := 0
			done := false
			go func() {
				for {
					select {
					case <-a:
						rounds++
					case <-b:
						done = true
						return
					}
				}
			}()
			verifrt.WaitIdle()
			return fmt.Sprint(done, rounds <= 1)
		}, []string{"true true"}},
	}
}

// race programs: bad = an access pair not ordered by the program's own synchronisation.
func racePrograms() map[string]func() {
	return map[string]func(){
		"race/bad/plain-counter": func() {
			done := make(chan bool, 2)
			for i := 0; i < 2; i++ {
				go func() { shared++; done <- true }()
			}
			<-done
			<-done
		},
		"race/bad/write-after-unlock": func() {
			var mu sync.Mutex
			x := 0
			done := make(chan bool, 2)
			go func() { mu.Lock(); mu.Unlock(); x = 1; done <- true }()
			go func() { mu.Lock(); mu.Unlock(); x = 2; done <- true }()
			<-done
			<-done
			_ = x
		},
		"race/ok/mutex": func() {
			var mu sync.Mutex
			x := 0
			done := make(chan bool, 2)
			for i := 0; i < 2; i++ {
				go func() { mu.Lock(); x++; mu.Unlock(); done <- true }()
			}
			<-done
			<-done
			_ = x
		},
		"race/ok/channel-handoff": func() {
			ch := make(chan *int)
			go func() { v := new(int); *v = 1; ch <- v }()
			p := <-ch
			*p = 2
		},
		"race/ok/buffered-handoff": func() {
			ch := make(chan *int, 1)
			go func() { v := new(int); *v = 1; ch <- v }()
			p := <-ch
			*p = 2
		},
		"race/ok/close-publishes": func() {
			ch := make(chan struct{})
			x := 0
			go func() { x = 1; close(ch) }()
			<-ch
			x = 2
			_ = x
		},
		"race/ok/waitgroup": func() {
			var wg sync.WaitGroup
			x := make([]int, 2)
			for i := 0; i < 2; i++ {
				wg.Add(1)
				i := i
				go func() { defer wg.Done(); x[i] = i }()
			}
			wg.Wait()
			x[0], x[1] = 5, 6
		},
		"race/ok/once": func() {
			var once sync.Once
			x := 0
			done := make(chan bool, 2)
			for i := 0; i < 2; i++ {
				go func() { once.Do(func() { x = 1 }); _ = x; done <- true }()
			}
			<-done
			<-done
		},
		"race/ok/rwmutex": func() {
			var mu sync.RWMutex
			x := 0
			done := make(chan bool, 3)
			go func() { mu.Lock(); x = 1; mu.Unlock(); done <- true }()
			for i := 0; i < 2; i++ {
				go func() { mu.RLock(); _ = x; mu.RUnlock(); done <- true }()
			}
			<-done
			<-done
			<-done
		},
		"race/ok/unbuffered-receiver-before-sender-continues": func() {
			ch := make(chan int)
			x := 0
			go func() { x = 1; <-ch }()
			ch <- 1
			x = 2
			_ = x
		},
		"race/ok/select-wakeup": func() {
			a, b := make(chan *int), make(chan *int)
			go func() { v := new(int); *v = 1; b <- v }()
			var p *int
			select {
			case p = <-a:
			case p = <-b:
			}
			*p = 2
		},
		"race/bad/mixed-atomic-plain": func() {
			var flag int32
			done := make(chan bool, 2)
			go func() { atomic.StoreInt32(&flag, 1); done <- true }()
			go func() { _ = flag; done <- true }() // plain read of a variable that is written atomically
			<-done
			<-done
		},
		"race/bad/atomic-flag-does-not-cover-later-write": func() {
			var flag int32
			x := 0
			done := make(chan bool, 2)
			go func() { atomic.StoreInt32(&flag, 1); x = 1; done <- true }() // write after the publication
			go func() {
				if atomic.LoadInt32(&flag) == 1 {
					_ = x
				}
				done <- true
			}()
			<-done
			<-done
		},
		"race/ok/atomic-flag-publishes": func() {
			var flag int32
			x := 0
			done := make(chan bool, 2)
			go func() { x = 1; atomic.StoreInt32(&flag, 1); done <- true }()
			go func() {
				if atomic.LoadInt32(&flag) == 1 {
					_ = x
				}
				done <- true
			}()
			<-done
			<-done
		},
		"race/ok/typed-atomic-publishes": func() {
			var flag atomic.Bool
			x := 0
			done := make(chan bool, 2)
			go func() { x = 1; flag.Store(true); done <- true }()
			go func() {
				if flag.Load() {
					_ = x
				}
				done <- true
			}()
			<-done
			<-done
		},
		"race/ok/atomic-counter-and-cas": func() {
			var n int32
			done := make(chan bool, 3)
			go func() { atomic.AddInt32(&n, 1); done <- true }()
			go func() { atomic.CompareAndSwapInt32(&n, 0, 5); done <- true }()
			go func() { _ = atomic.LoadInt32(&n); done <- true }()
			<-done
			<-done
			<-done
		},
		"race/ok/context-cancel": func() {
			ctx, cancel := context.WithCancel(context.Background())
			x := 0
			done := make(chan bool)
			go func() { <-ctx.Done(); x = 2; done <- true }()
			x = 1
			cancel()
			<-done
			_ = x
		},
	}
}

// Outcomes is filled by the exploration of the litmus programs: name -> set of outcomes.
var Outcomes = map[string]map[string]bool{}

func init() {
	h.Register("RT", func(tier string) ([]*h.Scn, []*h.Plain) {
		var out []*h.Scn
		for _, p := range progs() {
			p := p
			seen := map[string]bool{}
			Outcomes[p.name] = seen
			body := func() {
				r := p.body()
				ok := false
				for _, w := range p.want {
					if w == r {
						ok = true
					}
				}
				if !ok {
					h.Fail("RT/"+p.name+"/unexpected-outcome", "outcome %q is not in the expected set %v", r, p.want)
				}
				verifrt.Log("outcome %s", r)
				seen[r] = true
			}
			sc := &h.Scn{Name: "RT/" + p.name, Body: body, Opts: verifrt.Options{Unbounded: true}}
			sc.Final = func() []h.Finding {
				var miss []string
				for _, w := range p.want {
					if !seen[w] {
						miss = append(miss, w)
					}
				}
				sort.Strings(miss)
				if len(miss) > 0 {
					return []h.Finding{{Sig: "RT/" + p.name + "/outcome-not-explored", Msg: "expected outcomes never produced by the exhaustive search: " + strings.Join(miss, ",")}}
				}
				return nil
			}
			out = append(out, sc)
		}
		rp := racePrograms()
		var names []string
		for n := range rp {
			names = append(names, n)
		}
		sort.Strings(names)
		for _, n := range names {
			n := n
			sc := &h.Scn{Name: "RT/" + n, Body: rp[n], Opts: verifrt.Options{Unbounded: true}}
			sc.Final = func() []h.Finding {
				if !verifrt.RaceEnabled {
					return nil
				}
				got := h.RaceReports["RT/"+n]
				if strings.HasPrefix(n, "race/bad") && got == 0 {
					return []h.Finding{{Sig: "RT/" + n + "/not-reported", Msg: "the race detector did not report the unsynchronised access pair of this program on any explored schedule"}}
				}
				if strings.HasPrefix(n, "race/ok") && got > 0 {
					return []h.Finding{{Sig: "RT/" + n + "/false-report", Msg: fmt.Sprintf("the race detector reported %d race(s) in a correctly synchronised program: an annotation of the runtime is missing", got)}}
				}
				return nil
			}
			out = append(out, sc)
		}
		return out, nil
	})
}
