// Command worker hosts all property harnesses. It is built with the instrumentation overlay by
// cmd/vcheck and run once per shard.
package main

import (
	"encoding/json"
	"flag"
	"fmt"
	"os"
	"time"

	"verif/harness/h"
	_ "verif/harness/props"
)

func main() {
	prop := flag.String("prop", "", "property id")
	tier := flag.String("tier", "quick", "quick|thorough")
	shard := flag.Int("shard", 0, "shard index")
	nshards := flag.Int("nshards", 1, "number of shards")
	budget := flag.Duration("budget", 0, "time budget for exploration")
	out := flag.String("out", "", "partial report path")
	replays := flag.String("replays", "/verif/replays", "directory for replay files")
	replay := flag.String("replay", "", "replay file to re-execute")
	only := flag.String("only", "", "run only the scenario with this name")
	list := flag.Bool("list", false, "list scenarios")
	jobs := flag.Bool("jobs", false, "print the job list as JSON")
	serve := flag.Bool("serve", false, "read jobs from stdin, write reports to stdout")
	deadline := flag.Int64("deadline", 0, "unix nanoseconds after which no new work is started")
	trace0 := flag.Int("trace0", 0, "print the first N operations of the default execution of -only scenario")
	flag.Parse()
	if *replay != "" {
		os.Exit(h.ReplayFile(*replay))
	}
	if *list {
		h.List(*prop, *tier)
		return
	}
	if *jobs {
		b, _ := json.Marshal(h.Jobs(*prop, *tier))
		fmt.Println(string(b))
		return
	}
	if *serve {
		var dl time.Time
		if *deadline > 0 {
			dl = time.Unix(0, *deadline)
		}
		h.Serve(*prop, *tier, *replays, dl)
		return
	}
	if *trace0 > 0 {
		h.TraceDefault(*prop, *tier, *only, *trace0)
		return
	}
	r := h.RunShard(*prop, *tier, *shard, *nshards, *budget, *replays, *only)
	b, _ := json.Marshal(r)
	if *out != "" {
		if err := os.WriteFile(*out, b, 0o644); err != nil {
			fmt.Fprintln(os.Stderr, err)
			os.Exit(2)
		}
	} else {
		for _, l := range r.PerScenario {
			fmt.Println(l)
		}
		r.PerScenario = nil
		b, _ = json.MarshalIndent(r, "", " ")
		fmt.Println(string(b))
	}
	_ = time.Now
}
