// Package c10: boundary events - interrupting replaces the normal flow, non-interrupting adds
// to it, and after the activity completed they no longer react nor keep the instance alive.
package c10

import (
	"fmt"
	"strings"

	"github.com/olive-io/bpmn/v2/verifrt"

	"verif/harness/drv"
	"verif/harness/h"
)

// graph: start -> [t0 ->] host -> tn -> endn ; boundary b_i (event E_i) -> tx_i -> endx_i
// kinds: "I" interrupting, "N" non-interrupting.
func build(hostKind string, kinds []string, pre bool) *drv.Graph {
	g := drv.NewGraph(fmt.Sprintf("c10_%s_%s_%v", hostKind, strings.Join(kinds, ""), pre))
	s := g.Add(drv.Start, "start")
	var host *drv.Node
	if hostKind == "sub" {
		host = g.AddSub("host")
		is, it, ie := host.Inner.Add(drv.Start, "host_start"), host.Inner.Add(drv.Task, "inner"), host.Inner.Add(drv.End, "host_end")
		host.Inner.Link(is, it, nil)
		host.Inner.Link(it, ie, nil)
	} else {
		host = g.Add(drv.Task, "host")
	}
	if pre {
		t0 := g.Add(drv.Task, "t0")
		g.Link(s, t0, nil)
		g.Link(t0, host, nil)
	} else {
		g.Link(s, host, nil)
	}
	tn := g.Add(drv.Task, "tn")
	en := g.Add(drv.End, "endn")
	g.Link(host, tn, nil)
	g.Link(tn, en, nil)
	for i, k := range kinds {
		b := g.AddBoundary(host, fmt.Sprintf("b%d", i+1), k == "I", drv.EventDef{Kind: "signal", Ref: fmt.Sprintf("E%d", i+1)})
		tx := g.Add(drv.Task, fmt.Sprintf("tx%d", i+1))
		ex := g.Add(drv.End, fmt.Sprintf("endx%d", i+1))
		g.Link(b, tx, nil)
		g.Link(tx, ex, nil)
	}
	return g
}

func init() {
	h.Register("C10", func(tier string) ([]*h.Scn, []*h.Plain) {
		var out []*h.Scn
		thorough := tier == "thorough"
		// document order of the boundary events matters to the engine's wiring (seed c10-1), so
		// both orders of a mixed pair are enumerated
		sets := [][]string{{"I"}, {"N"}, {"I", "N"}, {"N", "N"}, {"N", "I"}, {"I", "I"}}
		for _, hostKind := range []string{"task", "sub"} {
			for si, kinds := range sets {
				for _, pre := range []bool{false, true} {
					g := build(hostKind, kinds, pre)
					defs := g.Parse()
					var alphabet []drv.EventDef
					for i := range kinds {
						alphabet = append(alphabet, drv.EventDef{Kind: "signal", Ref: fmt.Sprintf("E%d", i+1)})
					}
					bounds := []int{0, 1}
					if thorough && !pre && len(kinds) == 1 {
						bounds = append(bounds, 2)
					}
					for _, d := range bounds {
						n := 2
						if d == 0 {
							n = 3
							if thorough {
								n = 4
							}
						}
						if d == 1 && !thorough && (pre || si >= 4) {
							continue
						}
						el := &drv.EventLock{Sig: "C10/" + hostKind, G: g, Defs: defs, Events: alphabet, MaxEvents: n, PerEvent: 2, Tags: strings.Join(kinds, "")}
						// Once an interrupting event has fired the activity is gone; the statement says
						// what the same event must (not) do afterwards ("exactly once") but nothing
						// about the activity's other boundary events, so those are no longer delivered.
						el.AllowEvent = func(m *drv.Model, ev drv.EventDef) bool {
							fired := ""
							for i, k := range kinds {
								if k == "I" && m.After[fmt.Sprintf("b%d", i+1)] > 0 {
									fired = fmt.Sprintf("E%d", i+1)
								}
							}
							return fired == "" || ev.Ref == fired
						}
						el.CompletesShape = func(m *drv.Model) string {
							for i := range kinds {
								if m.After[fmt.Sprintf("b%d", i+1)] > 0 {
									return "after-boundary-fired"
								}
							}
							return "after-normal-completion"
						}
						sc := &h.Scn{Name: fmt.Sprintf("C10/%s/[%s]/pre=%v/events<=%d/d%d", hostKind, strings.Join(kinds, ","), pre, n, d), Body: el.Body(), Opts: verifrt.Options{Bound: d, UseCache: true}}
						sc.Weight = n * len(kinds) * (1 + 500*d*d)
						if d == 1 {
							sc.Split = 8
						}
						if d >= 2 {
							sc.Split = 16
						}
						out = append(out, sc)
					}
				}
			}
		}
		out = append(out, racingScenarios(thorough)...)
		out = append(out, timerScenarios(thorough)...)
		for _, hostKind := range []string{"task", "sub"} {
			for _, kind := range []string{"I", "N"} {
				for _, per := range []bool{false, true} {
					mode := "back-to-back"
					if per {
						mode = "concurrent"
					}
					for _, d := range []int{0, 1} {
						if d == 1 && !thorough && (hostKind == "sub" || kind == "N") {
							continue
						}
						sc := &h.Scn{Name: fmt.Sprintf("C10/%s-burst/[%s,N]/%s/noise<=4/d%d", hostKind, kind, mode, d), Body: burst(hostKind, kind, 4, per), Opts: verifrt.Options{Bound: d, UseCache: true}}
						sc.Weight = 10 * (1 + 300*d)
						if d == 1 {
							sc.Split = 4
						}
						out = append(out, sc)
					}
				}
			}
		}
		return out, nil
	})
}

// racing (discipline R): once the host is waiting for its answer, the answer and the event
// deliveries of the chosen script are issued without waiting for quiescence in between - from
// one goroutine each, or back-to-back in either order from one goroutine. Only clauses that
// hold for every interleaving are checked: whichever of {answer, interrupting event} is
// processed first decides, so exactly one of the normal flow and the interrupting exception
// flows continues, never both and never neither.
func racing(hostKind string, kinds []string, scripts [][]int, mode string) func() {
	g := build(hostKind, kinds, false)
	defs := g.Parse()
	tags := strings.Join(kinds, "")
	sig := "C10/" + hostKind + "-race"
	fail := func(clause, format string, a ...any) { h.Fail(sig+clause+"#"+tags, format, a...) }
	return func() {
		script := scripts[verifrt.Choose(len(scripts))]
		r := drv.Open(g, defs, drv.OpenOpts{})
		r.StartAll()
		verifrt.WaitIdle()
		target := "host"
		if hostKind == "sub" {
			target = "inner"
		}
		p := r.Pending(target)
		if !r.StartReturned || p == nil {
			fail("/host-requested", "the host activity is not waiting for its answer after the start (pending %v)", r.PendingIDs())
			return
		}
		returned, answered := 0, false
		send := func(i int) {
			r.Signal(fmt.Sprintf("E%d", i+1))
			returned++
		}
		answer := func() {
			r.Answer(p)
			answered = true
		}
		switch mode {
		case "concurrent":
			go answer()
			for _, i := range script {
				i := i
				go send(i)
			}
		case "event-then-answer":
			go func() {
				for _, i := range script {
					send(i)
				}
				answer()
			}()
		case "answer-then-event":
			go func() {
				answer()
				for _, i := range script {
					send(i)
				}
			}()
		}
		verifrt.WaitIdle()
		var hist []string
		delivered := map[int]int{}
		for _, i := range script {
			hist = append(hist, fmt.Sprintf("E%d", i+1))
			delivered[i]++
		}
		dump := func() {
			for _, s := range r.Stream {
				verifrt.Log("trace %s", s)
			}
		}
		if returned != len(script) || !answered {
			fail("/calls-return", "%d of %d ConsumeEvent calls returned, Do returned %v (%s, events %v); blocked: %v", returned, len(script), answered, mode, hist, verifrt.LiveRepoGoroutines())
			dump()
			return
		}
		interrupts := 0
		for i, k := range kinds {
			n := r.Requests(fmt.Sprintf("tx%d", i+1))
			if n > delivered[i] {
				fail("/exception-flow-too-often", "boundary event b%d continued %d times for %d deliveries (%s, events %v)", i+1, n, delivered[i], mode, hist)
				dump()
				return
			}
			if k == "I" {
				if n > 1 {
					fail("/interrupts-twice", "interrupting boundary event b%d continued its exception flow %d times (%s, events %v)", i+1, n, mode, hist)
					dump()
					return
				}
				interrupts += n
			}
		}
		tn := r.Requests("tn")
		switch {
		case interrupts > 0 && tn > 0:
			fail("/both-flows-continue", "the answer raced the event (%s, events %v): the normal flow (tn x%d) and an interrupting exception flow both continued", mode, hist, tn)
			dump()
			return
		case interrupts == 0 && tn != 1:
			fail("/normal-flow-once", "no interrupting boundary event fired (%s, events %v) and the host was answered, but the normal flow continued %d times", mode, hist, tn)
			dump()
			return
		}
		// once the activity is gone, further events change nothing. After a normal completion
		// that is every boundary event; after an interruption only the interrupting events that
		// fired are delivered again ("exactly once"): the statement is silent about the other
		// boundary events of an interrupted activity.
		before := len(r.Tasks)
		again := 0
		for i, k := range kinds {
			if interrupts > 0 && !(k == "I" && r.Requests(fmt.Sprintf("tx%d", i+1)) > 0) {
				continue
			}
			again++
			go send(i)
		}
		verifrt.WaitIdle()
		if returned != len(script)+again {
			fail("/calls-return", "ConsumeEvent after the activity has ended has not returned (%d of %d)", returned, len(script)+again)
			return
		}
		if len(r.Tasks) != before {
			fail("/reacts-after-end", "after the activity ended (%s, events %v) a further event produced new requests: %v", mode, hist, r.PendingIDs())
			dump()
			return
		}
		if len(r.Grammar) > 0 {
			h.Fail("C09/engine/causal-order", "%s", r.Grammar[0])
		}
	}
}

// timer boundary events (the "timeout on an activity" pattern): the boundary event carries a
// one-hour duration timer; the environment moves the clock or answers. The timer fires once.
func timerScenarios(thorough bool) []*h.Scn {
	var out []*h.Scn
	for _, hostKind := range []string{"task", "sub"} {
		for _, kind := range []string{"I", "N"} {
			for _, pre := range []bool{false, true} {
				g := build(hostKind, []string{kind}, pre)
				// replace the signal definition by a timer
				host := g.Find("host")
				host.Boundary[0].Defs = []drv.EventDef{{Kind: "timer", Sub: "timeDuration", Ref: "PT1H"}}
				defs := g.Parse()
				alphabet := []drv.EventDef{{Kind: "timer", Sub: "timeDuration", Ref: "PT1H"}}
				bounds := []int{0, 1}
				for _, d := range bounds {
					if d == 1 && pre && !thorough {
						continue
					}
					el := &drv.EventLock{Sig: "C10/" + hostKind + "-timer", G: g, Defs: defs, Events: alphabet, MaxEvents: 1, Tags: kind, Open: drv.OpenOpts{Timer: true}}
					el.CompletesShape = func(m *drv.Model) string {
						if m.After["b1"] > 0 {
							return "after-boundary-fired"
						}
						return "after-normal-completion"
					}
					sc := &h.Scn{Name: fmt.Sprintf("C10/%s-timer/[%s]/pre=%v/d%d", hostKind, kind, pre, d), Body: el.Body(), Opts: verifrt.Options{Bound: d, UseCache: true}}
					sc.Weight = 2 * (1 + 500*d*d)
					if d == 1 {
						sc.Split = 4
					}
					out = append(out, sc)
				}
			}
		}
	}
	return out
}

// burst: while the host waits, n events that match no boundary event (or only the other one)
// are delivered back-to-back in front of the matching one - from one goroutine, or each from
// its own - without waiting for quiescence. A boundary event has a one-slot inbox, so this is
// where a delivery that is dropped instead of queued shows. Every delivery must return, the
// matching boundary event must continue exactly once, and for an interrupting one the host's
// later answer must not continue the normal flow.
func burst(hostKind, kind string, maxNoise int, perGoroutine bool) func() {
	g := build(hostKind, []string{kind, "N"}, false)
	defs := g.Parse()
	sig := "C10/" + hostKind + "-burst"
	fail := func(clause, format string, a ...any) { h.Fail(sig+clause+"#"+kind, format, a...) }
	return func() {
		n := verifrt.Choose(maxNoise + 1)
		other := verifrt.Choose(2) == 1 // the noise is the other boundary event's signal (E2) or a signal nobody knows
		r := drv.Open(g, defs, drv.OpenOpts{})
		r.StartAll()
		verifrt.WaitIdle()
		target := "host"
		if hostKind == "sub" {
			target = "inner"
		}
		p := r.Pending(target)
		if !r.StartReturned || p == nil {
			fail("/host-requested", "the host activity is not waiting for its answer after the start (pending %v)", r.PendingIDs())
			return
		}
		noise := "X"
		if other {
			noise = "E2"
		}
		returned := 0
		send := func(ref string) { r.Signal(ref); returned++ }
		if perGoroutine {
			for i := 0; i < n; i++ {
				go send(noise)
			}
			go send("E1")
		} else {
			go func() {
				for i := 0; i < n; i++ {
					send(noise)
				}
				send("E1")
			}()
		}
		verifrt.WaitIdle()
		if returned != n+1 {
			fail("/calls-return", "%d of %d ConsumeEvent calls returned (%d x %s then E1); blocked: %v", returned, n+1, n, noise, verifrt.LiveEnvGoroutines())
			return
		}
		if got := r.Requests("tx1"); got != 1 {
			clause := "/does-not-continue/after-burst"
			if got > 1 {
				clause = "/continues-too-often/after-burst"
			}
			fail(clause, "after %d x %s and then E1 delivered in a burst while the host waits, the exception flow of b1 continued %d times, want 1", n, noise, got)
			return
		}
		if other && n > 0 && r.Requests("tx2") > n {
			fail("/continues-too-often/after-burst", "the non-interrupting boundary event b2 continued %d times for %d deliveries", r.Requests("tx2"), n)
			return
		}
		r.Answer(p)
		verifrt.WaitIdle()
		want := 1
		if kind == "I" {
			want = 0
		}
		if got := r.Requests("tn"); got != want {
			fail("/normal-flow", "after the burst the host was answered: the normal flow continued %d times, want %d", got, want)
		}
	}
}

func racingScenarios(thorough bool) []*h.Scn {
	{
		var out []*h.Scn
		sets := [][]string{{"I"}, {"N"}, {"I", "N"}, {"N", "I"}, {"I", "I"}}
		for _, hostKind := range []string{"task", "sub"} {
			for _, kinds := range sets {
				scripts := [][]int{{0}, {0, 0}}
				if len(kinds) == 2 {
					scripts = append(scripts, []int{1}, []int{0, 1}, []int{1, 0}, []int{1, 1})
				}
				for _, mode := range []string{"concurrent", "event-then-answer", "answer-then-event"} {
					bounds := []int{0, 1}
					if thorough {
						bounds = append(bounds, 2)
					}
					for _, d := range bounds {
						// quick tier: one deviation for the concurrent mode, and for {I} in the
						// back-to-back modes
						if d == 1 && !thorough && mode != "concurrent" && len(kinds) > 1 {
							continue
						}
						// two deviations where the interruption can race the answer: {I}, {I,N}, {I,I}
						// issued concurrently, and {I} event-then-answer
						if d == 2 && (kinds[0] != "I" || mode == "answer-then-event" || (mode == "event-then-answer" && len(kinds) > 1)) {
							continue
						}
						sc := &h.Scn{Name: fmt.Sprintf("C10/%s-race/[%s]/%s/d%d", hostKind, strings.Join(kinds, ","), mode, d), Body: racing(hostKind, kinds, scripts, mode), Opts: verifrt.Options{Bound: d, UseCache: true}}
						sc.Weight = len(scripts) * (1 + 300*d*d)
						if d == 1 {
							sc.Split = 4
						}
						if d >= 2 {
							sc.Split = 16
						}
						out = append(out, sc)
					}
				}
			}
		}
		return out
	}
}
