// Package c10: boundary events - interrupting replaces the normal flow, non-interrupting adds
// to it, and after the activity completed they no longer react nor keep the instance alive.
package c10

import (
	"fmt"
	"strings"

	"github.com/olive-io/bpmn/v2/verifrt"

	"verif/harness/drv"
	"verif/harness/h"
)

// graph: start -> [t0 ->] host -> tn -> endn ; boundary b_i (event E_i) -> tx_i -> endx_i
// kinds: "I" interrupting, "N" non-interrupting.
func build(hostKind string, kinds []string, pre bool) *drv.Graph {
	g := drv.NewGraph(fmt.Sprintf("c10_%s_%s_%v", hostKind, strings.Join(kinds, ""), pre))
	s := g.Add(drv.Start, "start")
	var host *drv.Node
	if hostKind == "sub" {
		host = g.AddSub("host")
		is, it, ie := host.Inner.Add(drv.Start, "host_start"), host.Inner.Add(drv.Task, "inner"), host.Inner.Add(drv.End, "host_end")
		host.Inner.Link(is, it, nil)
		host.Inner.Link(it, ie, nil)
	} else {
		host = g.Add(drv.Task, "host")
	}
	if pre {
		t0 := g.Add(drv.Task, "t0")
		g.Link(s, t0, nil)
		g.Link(t0, host, nil)
	} else {
		g.Link(s, host, nil)
	}
	tn := g.Add(drv.Task, "tn")
	en := g.Add(drv.End, "endn")
	g.Link(host, tn, nil)
	g.Link(tn, en, nil)
	for i, k := range kinds {
		b := g.AddBoundary(host, fmt.Sprintf("b%d", i+1), k == "I", drv.EventDef{Kind: "signal", Ref: fmt.Sprintf("E%d", i+1)})
		tx := g.Add(drv.Task, fmt.Sprintf("tx%d", i+1))
		ex := g.Add(drv.End, fmt.Sprintf("endx%d", i+1))
		g.Link(b, tx, nil)
		g.Link(tx, ex, nil)
	}
	return g
}

func init() {
	h.Register("C10", func(tier string) ([]*h.Scn, []*h.Plain) {
		var out []*h.Scn
		thorough := tier == "thorough"
		// document order of the boundary events matters to the engine's wiring (seed c10-1), so
		// both orders of a mixed pair are enumerated
		sets := [][]string{{"I"}, {"N"}, {"I", "N"}, {"N", "N"}, {"N", "I"}, {"I", "I"}}
		for _, hostKind := range []string{"task", "sub"} {
			for si, kinds := range sets {
				for _, pre := range []bool{false, true} {
					g := build(hostKind, kinds, pre)
					defs := g.Parse()
					var alphabet []drv.EventDef
					for i := range kinds {
						alphabet = append(alphabet, drv.EventDef{Kind: "signal", Ref: fmt.Sprintf("E%d", i+1)})
					}
					bounds := []int{0, 1}
					if thorough && !pre && len(kinds) == 1 {
						bounds = append(bounds, 2)
					}
					for _, d := range bounds {
						n := 2
						if d == 0 {
							n = 3
							if thorough {
								n = 4
							}
						}
						if d == 1 && !thorough && (pre || si >= 4) {
							continue
						}
						el := &drv.EventLock{Sig: "C10/" + hostKind, G: g, Defs: defs, Events: alphabet, MaxEvents: n, PerEvent: 2, Tags: strings.Join(kinds, "")}
						// Once an interrupting event has fired the activity is gone; the statement says
						// what the same event must (not) do afterwards ("exactly once") but nothing
						// about the activity's other boundary events, so those are no longer delivered.
						el.AllowEvent = func(m *drv.Model, ev drv.EventDef) bool {
							fired := ""
							for i, k := range kinds {
								if k == "I" && m.After[fmt.Sprintf("b%d", i+1)] > 0 {
									fired = fmt.Sprintf("E%d", i+1)
								}
							}
							return fired == "" || ev.Ref == fired
						}
						el.CompletesShape = func(m *drv.Model) string {
							for i := range kinds {
								if m.After[fmt.Sprintf("b%d", i+1)] > 0 {
									return "after-boundary-fired"
								}
							}
							return "after-normal-completion"
						}
						sc := &h.Scn{Name: fmt.Sprintf("C10/%s/[%s]/pre=%v/events<=%d/d%d", hostKind, strings.Join(kinds, ","), pre, n, d), Body: el.Body(), Opts: verifrt.Options{Bound: d, UseCache: true}}
						sc.Weight = n * len(kinds) * (1 + 500*d*d)
						if d == 1 {
							sc.Split = 8
						}
						if d >= 2 {
							sc.Split = 16
						}
						out = append(out, sc)
					}
				}
			}
		}
		return out, nil
	})
}
