// Package c19 decides the engine clause of C19: definitions produced by the process builder
// survive the XML round trip and run to completion, requesting the added activities once each in
// insertion order. (The structural and layout clauses are decided by the sequential enumerator
// verif/seq/c19, which also exports the corpus of builder outputs used here.)
package c19

import (
	"encoding/xml"
	"fmt"
	"strings"

	"github.com/olive-io/bpmn/schema"
	bpmn "github.com/olive-io/bpmn/v2"
	"github.com/olive-io/bpmn/v2/pkg/tracing"
	"github.com/olive-io/bpmn/v2/verifrt"

	"verif/harness/drv"
	"verif/harness/h"
	seq "verif/seq/c19"
)

// kinds returns the Go type of the element with each of the given ids ("*schema.Task", ...).
func kinds(defs *schema.Definitions, ids []string) map[string]string {
	out := map[string]string{}
	for _, id := range ids {
		if e, ok := defs.FindBy(schema.ExactId(id)); ok {
			out[id] = fmt.Sprintf("%T", e)
		}
	}
	return out
}

func body(d seq.Doc) func() {
	// the round trip is part of the clause: the engine runs the re-parsed document
	raw, err := xml.Marshal(d.Defs)
	var defs *schema.Definitions
	if err == nil {
		defs = new(schema.Definitions)
		err = xml.Unmarshal(raw, defs)
	}
	sig := "C19/engine"
	return func() {
		if err != nil {
			h.Fail(sig+"/round-trip", "builder output %s does not survive Marshal/Unmarshal: %v", d.Name, err)
			return
		}
		kd := kinds(defs, d.Activities)
		// activities that ask the environment to do something (everything but embedded sub-processes)
		var want []string
		for _, id := range d.Activities {
			if !strings.Contains(kd[id], "SubProcess") {
				want = append(want, id)
			}
		}
		r := drv.Open(nil, defs, drv.OpenOpts{SubCap: 1})
		var got []string
		r.OnTrace = func(seq int, raw tracing.ITrace) {
			if tt, ok := tracing.Unwrap(raw).(bpmn.TaskTrace); ok {
				id := ""
				if pid, ok := tt.GetActivity().Element().Id(); ok {
					id = *pid
				}
				got = append(got, id)
				go tt.Do()
			}
		}
		var w *drv.Wait
		r.AfterStart = func() { w = r.WaitComplete(nil) }
		r.StartAll()
		verifrt.WaitIdle()
		if strings.Join(got, ",") != strings.Join(want, ",") {
			h.Fail(sig+"/requested-in-insertion-order", "builder output %s: activities requested %v, added %v (kinds %v)", d.Name, got, want, kindsOf(d.Activities, kd))
			return
		}
		if w == nil || !w.Returned || !w.Result {
			h.Fail(sig+"/completes", "builder output %s: all %d activities were answered but the instance did not complete; kinds %v; errors %v; tail %v", d.Name, len(got), kindsOf(d.Activities, kd), r.ErrorKinds(), r.Tail(6))
		}
	}
}

func kindsOf(ids []string, kd map[string]string) []string {
	var out []string
	for _, id := range ids {
		out = append(out, strings.TrimPrefix(kd[id], "*schema."))
	}
	return out
}

// Scns returns one d=0 scenario per builder output of the corpus.
func Scns(tier string) []*h.Scn {
	var out []*h.Scn
	for i, d := range seq.Corpus(tier) {
		d := d
		out = append(out, &h.Scn{Name: fmt.Sprintf("C19/engine/%03d/%s", i, d.Name), Body: body(d), Opts: verifrt.Options{Bound: 0, UseCache: true}, Weight: 1})
	}
	return out
}
