// Package c18: a process set runs all executable processes and reports completion exactly once;
// message flows instantiate / wake their targets once per throw.
package c18

import (
	"context"
	"fmt"
	"sort"
	"strings"

	"github.com/olive-io/bpmn/schema"
	bpmn "github.com/olive-io/bpmn/v2"
	"github.com/olive-io/bpmn/v2/pkg/tracing"
	"github.com/olive-io/bpmn/v2/verifrt"

	"verif/harness/drv"
	"verif/harness/h"
)

type setup struct {
	name  string
	set   *drv.Set
	tasks int // total number of task requests expected over the whole run
	// order constraints: task -> tasks that must have been answered before it may be requested
	after map[string][]string
}

func chain(g *drv.Graph, ids ...string) {
	// ids: kind:id ...
	var prev *drv.Node
	for _, s := range ids {
		p := strings.SplitN(s, ":", 2)
		var n *drv.Node
		switch p[0] {
		case "s":
			n = g.Add(drv.Start, p[1])
		case "e":
			n = g.Add(drv.End, p[1])
		case "t":
			n = g.Add(drv.Task, p[1])
		case "th":
			n = g.Add(drv.Throw, p[1])
			n.Defs = []drv.EventDef{{Kind: "message", Ref: "m"}}
		case "c":
			n = g.Add(drv.Catch, p[1])
			n.Defs = []drv.EventDef{{Kind: "message", Ref: "m"}}
		case "ms":
			n = g.Add(drv.Start, p[1])
			n.Defs = []drv.EventDef{{Kind: "message", Ref: "m"}}
		}
		if prev != nil {
			g.Link(prev, n, nil)
		}
		prev = n
	}
}

func setups() []setup {
	var out []setup
	// plain sets: n executable processes, each start -> [task ->] end
	for n := 1; n <= 3; n++ {
		for _, withTask := range []bool{false, true} {
			s := &drv.Set{ID: fmt.Sprintf("set%d_%v", n, withTask), Waiting: map[string]bool{}}
			tasks := 0
			for i := 1; i <= n; i++ {
				g := drv.NewGraph(fmt.Sprintf("p%d", i))
				if withTask && i != n || withTask && n == 1 {
					chain(g, fmt.Sprintf("s:s%d", i), fmt.Sprintf("t:t%d", i), fmt.Sprintf("e:e%d", i))
					tasks++
				} else {
					chain(g, fmt.Sprintf("s:s%d", i), fmt.Sprintf("e:e%d", i))
				}
				s.Procs = append(s.Procs, g)
			}
			k := "trivial"
			if withTask {
				k = "tasks"
			}
			out = append(out, setup{name: fmt.Sprintf("plain/n%d/%s", n, k), set: s, tasks: tasks})
		}
	}
	// a throw event instantiates a waiting process at its start event
	{
		s := &drv.Set{ID: "inst", Waiting: map[string]bool{"w1": true}}
		p := drv.NewGraph("p1")
		chain(p, "s:s1", "t:t1", "th:th1", "e:e1")
		w := drv.NewGraph("w1")
		chain(w, "ms:ws", "t:tw", "e:ew")
		s.Procs = []*drv.Graph{p, w}
		s.MessageFlows = [][2]string{{"th1", "ws"}}
		out = append(out, setup{name: "throw-instantiates", set: s, tasks: 2, after: map[string][]string{"tw": {"t1"}}})
	}
	// a throw event wakes a catch event of another executing process
	{
		s := &drv.Set{ID: "wake", Waiting: map[string]bool{}}
		p1 := drv.NewGraph("p1")
		chain(p1, "s:s1", "t:t1", "th:th1", "e:e1")
		p2 := drv.NewGraph("p2")
		chain(p2, "s:s2", "c:c2", "t:t2", "e:e2")
		s.Procs = []*drv.Graph{p1, p2}
		s.MessageFlows = [][2]string{{"th1", "c2"}}
		out = append(out, setup{name: "throw-wakes-catch", set: s, tasks: 2, after: map[string][]string{"t2": {"t1"}}})
	}
	// a second throw wakes a catch event inside the process the first throw instantiated
	{
		s := &drv.Set{ID: "wakeinst", Waiting: map[string]bool{"w1": true}}
		p1 := drv.NewGraph("p1")
		chain(p1, "s:s1", "t:t1", "th:th1", "t:t1b", "th:th2", "e:e1")
		w := drv.NewGraph("w1")
		chain(w, "ms:ws", "c:cw", "t:tw", "e:ew")
		s.Procs = []*drv.Graph{p1, w}
		s.MessageFlows = [][2]string{{"th1", "ws"}, {"th2", "cw"}}
		out = append(out, setup{name: "throw-wakes-catch-in-instantiated", set: s, tasks: 3, after: map[string][]string{"t1b": {"t1"}, "tw": {"t1b"}}})
	}
	// a process of the set has two start events (one branch ends at once, the other waits at a
	// task): the set is complete only when both tokens are gone
	{
		s := &drv.Set{ID: "twostarts", Waiting: map[string]bool{}}
		p1 := drv.NewGraph("p1")
		chain(p1, "s:s1a", "e:e1a")
		chain(p1, "s:s1b", "t:t1", "e:e1b")
		p2 := drv.NewGraph("p2")
		chain(p2, "s:s2", "e:e2")
		s.Procs = []*drv.Graph{p1, p2}
		out = append(out, setup{name: "two-start-events", set: s, tasks: 1})
	}
	// two throws of one process target the same catch event: the first wakes it, the second
	// finds it no longer listening and changes nothing
	{
		s := &drv.Set{ID: "samecatch", Waiting: map[string]bool{}}
		p1 := drv.NewGraph("p1")
		chain(p1, "s:s1", "t:t1", "th:th1", "t:t1b", "th:th2", "t:t1c", "e:e1")
		p2 := drv.NewGraph("p2")
		chain(p2, "s:s2", "c:c2", "t:t2", "e:e2")
		s.Procs = []*drv.Graph{p1, p2}
		s.MessageFlows = [][2]string{{"th1", "c2"}, {"th2", "c2"}}
		out = append(out, setup{name: "two-throws-one-catch", set: s, tasks: 4, after: map[string][]string{"t2": {"t1"}, "t1c": {"t1b"}}})
	}
	// the same with the throws in two different processes
	{
		s := &drv.Set{ID: "samecatch2", Waiting: map[string]bool{}}
		p1 := drv.NewGraph("p1")
		chain(p1, "s:s1", "t:t1", "th:th1", "e:e1")
		p3 := drv.NewGraph("p3")
		chain(p3, "s:s3", "t:t3", "th:th3", "t:t3b", "e:e3")
		p2 := drv.NewGraph("p2")
		chain(p2, "s:s2", "c:c2", "t:t2", "e:e2")
		s.Procs = []*drv.Graph{p1, p3, p2}
		s.MessageFlows = [][2]string{{"th1", "c2"}, {"th3", "c2"}}
		out = append(out, setup{name: "two-processes-throw-to-one-catch", set: s, tasks: 4})
	}
	// two throws, two targets
	{
		s := &drv.Set{ID: "two", Waiting: map[string]bool{"w1": true}}
		p1 := drv.NewGraph("p1")
		chain(p1, "s:s1", "t:t1", "th:th1", "e:e1")
		p2 := drv.NewGraph("p2")
		chain(p2, "s:s2", "c:c2", "t:t2", "th:th2", "e:e2")
		w := drv.NewGraph("w1")
		chain(w, "ms:ws", "t:tw", "e:ew")
		s.Procs = []*drv.Graph{p1, p2, w}
		s.MessageFlows = [][2]string{{"th1", "c2"}, {"th2", "ws"}}
		out = append(out, setup{name: "two-flows", set: s, tasks: 3, after: map[string][]string{"t2": {"t1"}, "tw": {"t2"}}})
	}
	return out
}

// wait scripts: when waits are issued relative to the answers (-1: after everything)
type script []int

func body(su setup, defs *schema.Definitions, sc script) func() {
	return func() {
		sig := "C18/" + strings.SplitN(su.name, "/", 2)[0]
		ctx, cancel := context.WithCancel(context.Background())
		_ = cancel
		gen := drv.NewCounterGen("i")
		ps, err := bpmn.NewEngine(bpmn.WithEngineContext(ctx)).NewProcessSet(defs, bpmn.WithContext(ctx), bpmn.WithIdGenerator(gen))
		if err != nil {
			panic(err)
		}
		sub := ps.Tracer().SubscribeChannel(make(chan tracing.ITrace, 1))
		type pend struct {
			id   string
			t    bpmn.TaskTrace
			done bool
		}
		var tasks []*pend
		cease, ceaseFlows, errs := 0, 0, 0
		var stream []string
		go func() {
			for raw := range sub {
				switch t := tracing.Unwrap(raw).(type) {
				case bpmn.TaskTrace:
					id := ""
					if p, ok := t.GetActivity().Element().Id(); ok {
						id = *p
					}
					tasks = append(tasks, &pend{id: id, t: t})
					stream = append(stream, "Task("+id+")")
				case bpmn.CeaseProcessSetTrace:
					cease++
					stream = append(stream, "CeaseProcessSet")
				case bpmn.CeaseFlowTrace:
					ceaseFlows++
					stream = append(stream, "CeaseFlow")
				case bpmn.ErrorTrace:
					errs++
					stream = append(stream, fmt.Sprintf("Error(%v)", t.Error))
				}
			}
		}()
		type wt struct{ returned, result bool }
		var waits []*wt
		issue := func(at int) {
			for _, a := range sc {
				if a == at {
					w := &wt{}
					waits = append(waits, w)
					go func() {
						w.result = ps.WaitUntilComplete(ctx)
						w.returned = true
					}()
				}
			}
		}
		started := false
		go func() {
			if err := ps.StartAll(ctx); err != nil {
				h.Fail(sig+"/start-error", "StartAll: %v", err)
			}
			started = true
			issue(0)
		}()
		answered := map[string]int{}
		n := 0
		for {
			verifrt.WaitIdle()
			if !started {
				h.Fail(sig+"/startall-returns", "StartAll has not returned in a quiescent state; live: %v", verifrt.LiveRepoGoroutines())
				return
			}
			var open []*pend
			for _, p := range tasks {
				if !p.done {
					open = append(open, p)
				}
			}
			allDone := len(open) == 0 && n == su.tasks
			for i, w := range waits {
				if w.returned && w.result && !allDone {
					h.Fail(sig+"/completes-early", "wait %d returned true after %d of %d answers (open %d)", i, n, su.tasks, len(open))
					return
				}
			}
			if cease > 0 && !allDone {
				h.Fail(sig+"/cease-early", "CeaseProcessSetTrace after %d of %d answers", n, su.tasks)
				return
			}
			for _, p := range open {
				for _, pre := range su.after[p.id] {
					if answered[pre] == 0 {
						h.Fail(sig+"/target-started-early", "%s requested before %s was answered", p.id, pre)
						return
					}
				}
			}
			counts := map[string]int{}
			for _, p := range tasks {
				counts[p.id]++
				if counts[p.id] > 1 {
					h.Fail(sig+"/once-per-throw", "%s requested %d times (stream %v)", p.id, counts[p.id], stream)
					return
				}
			}
			if len(open) == 0 {
				break
			}
			sort.Slice(open, func(i, j int) bool { return open[i].id < open[j].id })
			p := open[verifrt.Choose(len(open))]
			p.done = true
			answered[p.id]++
			n++
			p.t.Do()
			issue(n)
		}
		if n != su.tasks {
			h.Fail(sig+"/all-processes-run", "%d of %d expected task requests arrived (answered %v); stream %v; live %v", n, su.tasks, answered, stream, verifrt.LiveRepoGoroutines())
			return
		}
		issue(-1)
		verifrt.WaitIdle()
		for i, w := range waits {
			if !w.returned {
				h.Fail(sig+"/completes", "all processes completed (%d cease-flow traces) but wait %d of script %v has not returned; live %v", ceaseFlows, i, sc, verifrt.LiveRepoGoroutines())
				return
			}
			if !w.result {
				h.Fail(sig+"/completes", "wait %d returned false with a live context", i)
				return
			}
		}
		if len(waits) > 0 && cease != 1 {
			h.Fail(sig+"/cease-once", "%d CeaseProcessSetTrace after completion, want 1; stream %v", cease, stream)
			return
		}
		if errs != 0 {
			h.Fail(sig+"/error-traces", "unexpected error traces; stream %v", stream)
		}
	}
}

func init() {
	h.Register("C18", func(tier string) ([]*h.Scn, []*h.Plain) {
		var out []*h.Scn
		thorough := tier == "thorough"
		scripts := []script{{0}, {0, 0}, {-1}, {0, -1}, {-1, -1}, {0, 1, -1}}
		for _, su := range setups() {
			defs := su.set.Parse()
			for si, sc := range scripts {
				bounds := []int{0, 1}
				if thorough && si < 2 && su.tasks <= 2 {
					bounds = append(bounds, 2)
				}
				for _, d := range bounds {
					if d >= 1 && si >= 4 && !thorough {
						continue
					}
					if d >= 1 && si >= 1 && !thorough && strings.HasPrefix(su.name, "two-processes-throw") {
						continue
					}
					s := &h.Scn{Name: fmt.Sprintf("C18/%s/waits%v/d%d", su.name, []int(sc), d), Body: body(su, defs, sc), Opts: verifrt.Options{Bound: d, UseCache: true}}
					s.Weight = (1 + su.tasks) * (1 + 1500*d*d)
					if d == 1 {
						s.Split = 4
					}
					if d >= 2 {
						s.Split = 16
					}
					out = append(out, s)
				}
			}
		}
		return out, nil
	})
}
