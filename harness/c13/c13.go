// Package c13: timers never fire early and fire exactly as often as their definition says, for
// every sequence of clock jumps; a timer catch event continues once per firing it listened for.
package c13

import (
	"context"
	"fmt"
	"time"

	"github.com/olive-io/bpmn/schema"
	bpmn "github.com/olive-io/bpmn/v2"
	"github.com/olive-io/bpmn/v2/pkg/clock"
	"github.com/olive-io/bpmn/v2/pkg/event"
	"github.com/olive-io/bpmn/v2/pkg/timer"
	"github.com/olive-io/bpmn/v2/pkg/tracing"
	"github.com/olive-io/bpmn/v2/verifrt"

	"verif/harness/c11"
	"verif/harness/drv"
	"verif/harness/h"
)

var base = time.Date(2024, 1, 1, 0, 0, 0, 0, time.UTC)

const hour = time.Hour

// tdef is a timer definition with the parameters of its reference model.
type tdef struct {
	name  string
	sub   string // timeDate | timeDuration | timeCycle
	text  string
	cycle bool
	n     int // repetitions, -1 unbounded
	start time.Time
	iv    time.Duration
	end   *time.Time
}

func ts(t time.Time) string { return t.Format("2006-01-02T15:04:05Z") }

func defs() []tdef {
	end230 := base.Add(2*hour + 30*time.Minute)
	end130 := base.Add(hour + 30*time.Minute)
	s030 := base.Add(30 * time.Minute)
	ds := []tdef{
		{name: "date", sub: "timeDate", text: ts(base.Add(hour)), start: base.Add(hour)},
		{name: "duration", sub: "timeDuration", text: "PT1H", start: base.Add(hour)},
	}
	for n := 0; n <= 3; n++ {
		ds = append(ds, tdef{name: fmt.Sprintf("R%d", n), sub: "timeCycle", text: fmt.Sprintf("R%d/PT1H", n), cycle: true, n: n, start: base, iv: hour})
	}
	ds = append(ds,
		tdef{name: "R", sub: "timeCycle", text: "R/PT1H", cycle: true, n: -1, start: base, iv: hour},
		tdef{name: "R2-start", sub: "timeCycle", text: "R2/" + ts(s030) + "/PT1H", cycle: true, n: 2, start: s030, iv: hour},
		tdef{name: "R3-end", sub: "timeCycle", text: "R3/PT1H/" + ts(end230), cycle: true, n: 3, start: base, iv: hour, end: &end230},
		tdef{name: "R-end", sub: "timeCycle", text: "R/PT1H/" + ts(end130), cycle: true, n: -1, start: base, iv: hour, end: &end130},
		tdef{name: "R-start-end", sub: "timeCycle", text: "R/" + ts(s030) + "/" + ts(end130), cycle: true, n: -1, start: s030, iv: hour, end: &end130},
	)
	return ds
}

// model is the timer arithmetic.
type model struct {
	d       tdef
	started bool // cycle: the start time has been reached
	due     time.Time
	left    int
	fired   int
	closed  bool
	lastAt  time.Time
}

func newModel(d tdef) *model {
	m := &model{d: d, left: d.n}
	if !d.cycle {
		m.due = d.start
		m.left = 1
	}
	return m
}

// nextDue returns the next time the clock has to reach for something to happen.
func (m *model) nextDue() (time.Time, bool) {
	if m.closed {
		return time.Time{}, false
	}
	if m.d.cycle && !m.started {
		return m.d.start, true
	}
	return m.due, true
}

// move advances the model's clock to t and returns the number of new firings.
func (m *model) move(t time.Time) int {
	if m.closed {
		return 0
	}
	n := 0
	if !m.d.cycle {
		if !t.Before(m.due) {
			n = 1
			m.fired++
			m.closed = true
		}
		return n
	}
	if !m.started {
		if t.Before(m.d.start) {
			return 0
		}
		m.started = true
		m.due = m.d.start.Add(m.d.iv)
	}
	for {
		if m.left == 0 {
			m.closed = true
			return n
		}
		if m.d.end != nil && !t.Before(*m.d.end) {
			m.closed = true // the end bound has been reached: nothing fires at or after it
			return n
		}
		if t.Before(m.due) {
			return n
		}
		n++
		m.fired++
		m.lastAt = t
		if m.left > 0 {
			m.left--
		}
		m.due = t.Add(m.d.iv)
	}
}

func parseDef(d tdef) schema.TimerEventDefinition {
	g := drv.NewGraph("c13_" + d.name)
	s, c, e := g.Add(drv.Start, "start"), g.Add(drv.Catch, "cT"), g.Add(drv.End, "end")
	c.Defs = []drv.EventDef{{Kind: "timer", Sub: d.sub, Ref: d.text}}
	g.Link(s, c, nil)
	g.Link(c, e, nil)
	ds := g.Parse()
	ce := (*(*ds.Processes())[0].IntermediateCatchEvents())[0]
	return ce.TimerEventDefinitionField[0]
}

// moves: 0 = +10m, 1 = exactly the next due time, 2 = next due + 30m, 3 = +10h, 4 = no advance,
// 5 = cancel (then one far move to see that nothing fires).
func target(m *model, now time.Time, k int) time.Time {
	due, ok := m.nextDue()
	switch k {
	case 0:
		return now.Add(10 * time.Minute)
	case 1:
		if ok && due.After(now) {
			return due
		}
		return now
	case 2:
		if ok && due.After(now) {
			return due.Add(30 * time.Minute)
		}
		return now.Add(30 * time.Minute)
	case 3:
		return now.Add(10 * hour)
	}
	return now
}

var moveNames = []string{"+10m", "=due", "due+30m", "+10h", "+0", "cancel"}

func unitBody(d tdef, steps int) func() {
	def := parseDef(d)
	return func() {
		sig := "C13/unit"
		mock := clock.NewMockAt(base)
		ctx, cancel := context.WithCancel(context.Background())
		defer cancel()
		ch, err := timer.New(ctx, mock, def)
		if err != nil {
			h.Fail(sig+"/new-error", "%s: timer.New(%q): %v", d.name, d.text, err)
			return
		}
		fired, closed := 0, false
		var at []time.Time
		go func() {
			for range ch {
				fired++
				at = append(at, mock.Now())
			}
			closed = true
		}()
		m := newModel(d)
		now := base
		var hist []string
		cancelled := false
		verifrt.WaitIdle()
		for step := 0; step < steps; step++ {
			k := verifrt.Choose(6)
			hist = append(hist, moveNames[k])
			if k == 5 {
				cancel()
				cancelled = true
				verifrt.WaitIdle()
				before := fired
				mock.Set(now.Add(100 * hour))
				verifrt.WaitIdle()
				if fired != before {
					h.Fail(sig+"/fires-after-cancel", "%s %q: fired after cancellation (moves %v)", d.name, d.text, hist)
				}
				return
			}
			t := target(m, now, k)
			now = t
			want := m.move(t)
			before := fired
			mock.Set(t)
			verifrt.WaitIdle()
			got := fired - before
			kind := "cycle"
			if !d.cycle {
				kind = "oneshot"
			}
			switch {
			case got > want && m.fired-want == 0 && want == 0 && !m.closed:
				h.Fail(sig+"/fires-early/"+kind, "%s %q: fired %d time(s) at clock %s, before its due time %s (moves %v)", d.name, d.text, got, ts(t), ts(m.due), hist)
				return
			case got > want:
				h.Fail(sig+"/fires-too-often/"+kind, "%s %q: %d firing(s) on the move to %s, the definition allows %d (total so far %d of n=%d, end=%v, moves %v)", d.name, d.text, got, ts(t), want, fired, d.n, d.end, hist)
				return
			case got < want:
				h.Fail(sig+"/does-not-fire/"+kind, "%s %q: %d firing(s) on the move to %s although the due time was reached, want %d (moves %v)", d.name, d.text, got, ts(t), want, hist)
				return
			}
			if m.closed != closed {
				if closed {
					h.Fail(sig+"/closes-early/"+kind, "%s %q: channel closed after moves %v although firings remain", d.name, d.text, hist)
				} else {
					h.Fail(sig+"/does-not-close/"+kind, "%s %q: channel still open after the last firing / the end bound (moves %v)", d.name, d.text, hist)
				}
				return
			}
		}
		_ = cancelled
		for i := 1; i < len(at); i++ {
			if at[i].Sub(at[i-1]) < d.iv {
				h.Fail(sig+"/interval-apart", "%s %q: firings at %s and %s are less than one interval apart", d.name, d.text, ts(at[i-1]), ts(at[i]))
			}
		}
	}
}

// process level: start -> catch(timer) -> t -> end
func procBody(d tdef, steps int) func() {
	g := drv.NewGraph("c13p_" + d.name)
	s, c, t, e := g.Add(drv.Start, "start"), g.Add(drv.Catch, "cT"), g.Add(drv.Task, "t"), g.Add(drv.End, "end")
	c.Defs = []drv.EventDef{{Kind: "timer", Sub: d.sub, Ref: d.text}}
	g.Link(s, c, nil)
	g.Link(c, t, nil)
	g.Link(t, e, nil)
	defs := g.Parse()
	return func() {
		sig := "C13/process"
		r := drv.Open(g, defs, drv.OpenOpts{Timer: true})
		var w *drv.Wait
		r.AfterStart = func() { w = r.WaitComplete(nil) }
		r.StartAll()
		m := newModel(d)
		now := base
		var hist []string
		verifrt.WaitIdle()
		if r.Listening["cT"] != 1 {
			h.Fail(sig+"/listening", "%s: the timer catch event is not listening after start", d.name)
			return
		}
		continued := 0
		for step := 0; step < steps; step++ {
			k := verifrt.Choose(5)
			hist = append(hist, moveNames[k])
			tt := target(m, now, k)
			now = tt
			if m.move(tt) > 0 && continued == 0 {
				continued = 1 // the token waits for one firing; later firings find nobody listening
			}
			r.Clock.Set(tt)
			verifrt.WaitIdle()
			if got := r.Requests("t"); got != continued {
				clause := "continues-too-often"
				if got < continued {
					clause = "does-not-continue"
				}
				h.Fail(sig+"/"+clause, "%s %q: after clock moves %v the task after the timer catch event was requested %d times, want %d", d.name, d.text, hist, got, continued)
				return
			}
		}
		if continued == 1 {
			r.Answer(r.Pending("t"))
			verifrt.WaitIdle()
			if w == nil || !w.Returned || !w.Result {
				h.Fail(sig+"/completes", "%s: the instance does not complete after the timer fired and the task was answered (moves %v); live: %v", d.name, hist, verifrt.LiveRepoGoroutines())
			}
		}
	}
}

// process level, richer shapes. "behind": start -> t0 -> catch(timer) -> t -> end (firings before
// the token arrives find nobody listening and are lost); "loop": start -> M -> catch(timer) -> t
// -> X -(again)-> M | end (the catch event is re-entered; the timer runs on from the creation of
// the instance, so each visit continues on the next firing it listens for). The environment
// moves the clock or answers the pending task, every choice explored.
func procBody2(d tdef, shape string, steps int) func() {
	g := drv.NewGraph("c13q_" + shape + "_" + d.name)
	s, c, t, e := g.Add(drv.Start, "start"), g.Add(drv.Catch, "cT"), g.Add(drv.Task, "t"), g.Add(drv.End, "end")
	c.Defs = []drv.EventDef{{Kind: "timer", Sub: d.sub, Ref: d.text}}
	switch shape {
	case "behind":
		t0 := g.Add(drv.Task, "t0")
		g.Link(s, t0, nil)
		g.Link(t0, c, nil)
		g.Link(c, t, nil)
		g.Link(t, e, nil)
	case "loop":
		m, x := g.Add(drv.XOR, "M"), g.Add(drv.XOR, "X")
		t.Results, t.RTypes = []string{"again"}, []string{"boolean"}
		g.Link(s, m, nil)
		g.Link(m, c, nil)
		g.Link(c, t, nil)
		g.Link(t, x, nil)
		g.Link(x, m, drv.Var("again"))
		g.LinkDefault(x, e)
	}
	defs := g.Parse()
	return func() {
		sig := "C13/process-" + shape
		r := drv.Open(g, defs, drv.OpenOpts{Timer: true, Vars: map[string]any{"again": false}})
		var w *drv.Wait
		r.AfterStart = func() { w = r.WaitComplete(nil) }
		r.StartAll()
		m := newModel(d)
		now := base
		var hist []string
		pos := "catch"
		if shape == "behind" {
			pos = "t0"
		}
		wantT, visits := 0, 0
		for step := 0; step <= steps; step++ {
			verifrt.WaitIdle()
			if !r.StartReturned {
				h.Fail(sig+"/startall-returns", "%s: StartAll has not returned", d.name)
				return
			}
			var pend []string
			if pos == "t0" || pos == "t" {
				pend = []string{pos}
			}
			if got := r.PendingIDs(); fmt.Sprint(got) != fmt.Sprint(pend) {
				clause := "continues-too-often"
				if len(got) < len(pend) {
					clause = "does-not-continue"
				}
				h.Fail(sig+"/"+clause, "%s %q: after %v the unanswered requests are %v, want %v (the task behind the timer has been requested %d times, want %d)", d.name, d.text, hist, got, pend, r.Requests("t"), wantT)
				return
			}
			if got := r.Requests("t"); got != wantT {
				h.Fail(sig+"/continues-too-often", "%s %q: after %v the task behind the timer catch event was requested %d times, want %d", d.name, d.text, hist, got, wantT)
				return
			}
			if step == steps {
				break
			}
			k := verifrt.Choose(6)
			if k == 5 {
				if len(pend) == 0 {
					k = 4
				} else {
					hist = append(hist, "answer "+pos)
					pt := r.Pending(pos)
					switch {
					case pos == "t0":
						r.Answer(pt)
						pos = "catch"
					case shape == "loop" && visits < 2:
						visits++
						r.Answer(pt, bpmn.DoWithResults(map[string]any{"again": true}))
						pos = "catch"
					case shape == "loop":
						r.Answer(pt, bpmn.DoWithResults(map[string]any{"again": false}))
						pos = "done"
					default:
						r.Answer(pt)
						pos = "done"
					}
					continue
				}
			}
			hist = append(hist, moveNames[k])
			tt := target(m, now, k)
			now = tt
			if m.move(tt) > 0 && pos == "catch" {
				pos = "t"
				wantT++
			}
			r.Clock.Set(tt)
		}
		if pos == "done" && (w == nil || !w.Returned || !w.Result) {
			h.Fail(sig+"/completes", "%s: every token is gone after %v but WaitUntilComplete has not returned true; live: %v", d.name, hist, verifrt.LiveRepoGoroutines())
		}
		if len(r.Grammar) > 0 {
			h.Fail("C09/engine/causal-order", "%s", r.Grammar[0])
		}
	}
}

// two instances of one parsed model, created at different clock times, share one mock clock,
// one fan-out and one timer definition-instance builder (one engine serving several instances).
// Each instance's timer catch event (a duration) is due one hour after *that instance* was
// created: it must not continue earlier, and must continue once the clock has reached it.
func twoInstancesBody() func() {
	g := drv.NewGraph("c13two")
	s, c, t, e := g.Add(drv.Start, "start"), g.Add(drv.Catch, "cT"), g.Add(drv.Task, "t"), g.Add(drv.End, "end")
	c.Defs = []drv.EventDef{{Kind: "timer", Sub: "timeDuration", Ref: "PT1H"}}
	g.Link(s, c, nil)
	g.Link(c, t, nil)
	g.Link(t, e, nil)
	defs := g.Parse()
	return func() {
		sig := "C13/two-instances"
		gap := []time.Duration{0, 40 * time.Minute, 70 * time.Minute}[verifrt.Choose(3)]
		ctx0, cancel := context.WithCancel(context.Background())
		defer cancel()
		mock := clock.NewMockAt(base)
		ctx := clock.ToContext(ctx0, mock)
		fan := event.NewFanOut()
		trB := tracing.NewTracer(ctx)
		builder := event.DefinitionInstanceBuildingChain(timer.EventDefinitionInstanceBuilder(ctx, fan, trB), event.WrappingDefinitionInstanceBuilder)
		requested := [2]int{}
		mk := func(i int) *bpmn.Process {
			tr := tracing.NewTracer(ctx)
			p, err := bpmn.NewProcess(&(*defs.Processes())[0], defs, bpmn.WithContext(ctx), bpmn.WithTracer(tr),
				bpmn.WithIdGenerator(drv.NewCounterGen(fmt.Sprintf("i%d_", i))), bpmn.WithProcessEventDefinitionInstanceBuilder(builder),
				bpmn.WithEventEgress(fan), bpmn.WithEventIngress(fan))
			if err != nil {
				panic(err)
			}
			sub := tr.SubscribeChannel(make(chan tracing.ITrace, 1))
			go func() {
				for raw := range sub {
					if _, ok := tracing.Unwrap(raw).(bpmn.TaskTrace); ok {
						requested[i]++
					}
				}
			}()
			go p.StartAll(ctx)
			return p
		}
		created := [2]time.Time{base, base.Add(gap)}
		check := func(when string) bool {
			now := mock.Now()
			for i := 0; i < 2; i++ {
				want := 0
				if !now.Before(created[i].Add(hour)) {
					want = 1
				}
				if requested[i] != want {
					clause := "/fires-early"
					if requested[i] < want {
						clause = "/does-not-continue"
					}
					h.Fail(sig+clause, "%s (clock %s, second instance created %v after the first): instance %d, created at %s with a PT1H timer catch event, has requested the task behind it %d times, want %d", when, ts(now), gap, i+1, ts(created[i]), requested[i], want)
					return false
				}
			}
			return true
		}
		mk(0)
		verifrt.WaitIdle()
		// the clock moves on in steps of 10 minutes; the second instance is created on the way
		second := false
		for m := 0; m <= 200; m += 10 {
			now := base.Add(time.Duration(m) * time.Minute)
			mock.Set(now)
			verifrt.WaitIdle()
			if !second && !now.Before(created[1]) {
				second = true
				mk(1)
				verifrt.WaitIdle()
			}
			if second && !check(fmt.Sprintf("after the move to +%dm", m)) {
				return
			}
		}
	}
}

// burst (seed c13-5): the timer catch event is listening; n signals that match nothing are handed
// to the instance back-to-back and the clock is moved past the due time, either right behind them
// from the same goroutine or from a second goroutine at once (the node's inbox holds 3 messages).
// The firing the token was listening for must still make it continue, exactly once.
func burstBody(d tdef, n int, concurrent bool) func() {
	g := drv.NewGraph(fmt.Sprintf("c13b_%s", d.name))
	s, c, t, e := g.Add(drv.Start, "start"), g.Add(drv.Catch, "cT"), g.Add(drv.Task, "t"), g.Add(drv.End, "end")
	c.Defs = []drv.EventDef{{Kind: "timer", Sub: d.sub, Ref: d.text}}
	g.Link(s, c, nil)
	g.Link(c, t, nil)
	g.Link(t, e, nil)
	defs := g.Parse()
	return func() {
		sig := "C13/burst"
		r := drv.Open(g, defs, drv.OpenOpts{Timer: true})
		var w *drv.Wait
		r.AfterStart = func() { w = r.WaitComplete(nil) }
		r.StartAll()
		verifrt.WaitIdle()
		if r.Listening["cT"] != 1 {
			h.Fail(sig+"/listening", "%s: the timer catch event is not listening after start", d.name)
			return
		}
		done := 0
		due := base.Add(hour + time.Minute)
		if concurrent {
			go func() { r.Clock.Set(due); done++ }()
		}
		go func() {
			for i := 0; i < n; i++ {
				r.Signal("unrelated")
			}
			if !concurrent {
				r.Clock.Set(due)
			}
			done++
		}()
		verifrt.WaitIdle()
		want := 1
		if concurrent {
			want = 2
		}
		if done != want {
			h.Fail(sig+"/delivery-returns", "%s: %d of %d environment goroutines (signals, clock) have returned", d.name, done, want)
			return
		}
		if got := r.Requests("t"); got != 1 {
			clause := "continues-too-often"
			if got < 1 {
				clause = "does-not-continue"
			}
			h.Fail(sig+"/"+clause, "%s %q: %d unrelated signals were delivered around the moment the clock reached the due time; the task after the timer catch event was requested %d times, want 1", d.name, d.text, n, got)
			return
		}
		r.Answer(r.Pending("t"))
		verifrt.WaitIdle()
		if w == nil || !w.Returned || !w.Result {
			h.Fail(sig+"/completes", "%s: the instance does not complete after the timer fired and the task was answered; live: %v", d.name, verifrt.LiveRepoGoroutines())
		}
	}
}

func init() {
	h.Register("C13", func(tier string) ([]*h.Scn, []*h.Plain) {
		var out []*h.Scn
		thorough := tier == "thorough"
		steps := 4
		if thorough {
			steps = 6
		}
		for _, d := range defs() {
			d := d
			out = append(out, &h.Scn{Name: fmt.Sprintf("C13/unit/%s/moves<=%d/d0", d.name, steps), Body: unitBody(d, steps), Opts: verifrt.Options{Bound: 0, UseCache: true}, Weight: 100})
			out = append(out, &h.Scn{Name: fmt.Sprintf("C13/unit/%s/moves<=3/d1", d.name), Body: unitBody(d, 3), Opts: verifrt.Options{Bound: 1, UseCache: true}, Weight: 300, Split: 2})
			if thorough {
				out = append(out, &h.Scn{Name: fmt.Sprintf("C13/unit/%s/moves<=3/d2", d.name), Body: unitBody(d, 3), Opts: verifrt.Options{Bound: 2, UseCache: true}, Weight: 3000, Split: 8})
			}
		}
		for _, name := range []string{"date", "duration", "R2", "R-end"} {
			for _, d := range defs() {
				if d.name != name {
					continue
				}
				d := d
				out = append(out, &h.Scn{Name: fmt.Sprintf("C13/process/%s/moves<=3/d0", d.name), Body: procBody(d, 3), Opts: verifrt.Options{Bound: 0, UseCache: true}, Weight: 200})
				if thorough {
					out = append(out, &h.Scn{Name: fmt.Sprintf("C13/process/%s/moves<=2/d1", d.name), Body: procBody(d, 2), Opts: verifrt.Options{Bound: 1, UseCache: true}, Weight: 2000, Split: 8})
				}
			}
		}
		for _, d := range []int{0, 1} {
			// two tokens at one cycle-timer catch event, the second arriving while a firing for
			// the first is being delivered (the body is C11's, with the clock as the deliverer)
			body := c11.StaggeredBody("timer", func(r *drv.Run) { r.Clock.Add(hour) }, drv.EventDef{Kind: "timer", Sub: "timeCycle", Ref: "R/PT1H"}, true)
			out = append(out, &h.Scn{Name: fmt.Sprintf("C13/staggered/timer-cycle/d%d", d), Body: body, Opts: verifrt.Options{Bound: d, UseCache: true}, Weight: 50 * (1 + 30*d), Split: 1 + 3*d})
		}
		for _, d := range defs() {
			d := d
			if d.name != "duration" && d.name != "date" && d.name != "R1" {
				continue
			}
			for _, n := range []int{3, 4, 6} {
				for _, conc := range []bool{false, true} {
					for _, b := range []int{0, 1} {
						if b == 1 && (n == 3 || (d.name != "duration" && !thorough)) {
							continue
						}
						out = append(out, &h.Scn{Name: fmt.Sprintf("C13/burst/%s/n%d/concurrent=%v/d%d", d.name, n, conc, b), Body: burstBody(d, n, conc), Opts: verifrt.Options{Bound: b, UseCache: true}, Weight: 100 * (1 + 20*b), Split: 1 + 3*b})
					}
				}
			}
		}
		for _, d := range []int{0, 1} {
			out = append(out, &h.Scn{Name: fmt.Sprintf("C13/two-instances/d%d", d), Body: twoInstancesBody(), Opts: verifrt.Options{Bound: d, UseCache: true}, Weight: 300 * (1 + 10*d), Split: 1 + 3*d})
		}
		for _, shape := range []string{"behind", "loop"} {
			for _, d := range defs() {
				d := d
				if shape == "loop" && !d.cycle {
					continue // a one-shot timer has nothing left for a second visit
				}
				if !thorough && (d.name == "R0" || d.name == "R1" || d.name == "R-start-end") {
					continue
				}
				n := 5
				if thorough {
					n = 7
				}
				out = append(out, &h.Scn{Name: fmt.Sprintf("C13/process-%s/%s/steps<=%d/d0", shape, d.name, n), Body: procBody2(d, shape, n), Opts: verifrt.Options{Bound: 0, UseCache: true}, Weight: 400})
				if thorough || d.name == "R2" || d.name == "duration" {
					out = append(out, &h.Scn{Name: fmt.Sprintf("C13/process-%s/%s/steps<=3/d1", shape, d.name), Body: procBody2(d, shape, 3), Opts: verifrt.Options{Bound: 1, UseCache: true}, Weight: 3000, Split: 8})
				}
			}
		}
		return out, nil
	})
}
