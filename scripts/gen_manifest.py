#!/usr/bin/env python3
"""Generates MANIFEST.json from scripts/checks.json (one entry per claimed property)."""
import json, os
root = "/verif"
checks = json.load(open(f"{root}/scripts/checks.json"))
props = [json.loads(l) for l in open(f"{root}/properties.jsonl")]
claimed = {c["property_id"] for c in checks["checks"]}
out = {
    "version": 1,
    "setup_cmd": "./scripts/setup.sh",
    "hooks": {
        "guard": "none: /repo is not modified for instrumentation; /verif/instr rewrites /repo's working tree into an overlay (go build -overlay) at every check",
        "enable": "./vcheck run <id>: instr -> overlay.json -> go build -overlay of verif/harness/cmd/worker",
        "baseline_off_cmd": "./scripts/baseline_off.sh",
        "source_commits": [],
        "add_only": True,
    },
    "engines": checks["engines"],
    "checks": [],
    "notes": checks["notes"],
    "not_applicable": [],
}
for c in checks["checks"]:
    pid = c["property_id"]
    out["checks"].append({
        "property_id": pid,
        "quick_cmd": f"./vcheck run {pid} --tier quick",
        "thorough_cmd": f"./vcheck run {pid} --tier thorough",
        "evidence_file": f"/verif/evidence/{pid}.json",
        "replay_cmd_template": "./vcheck replay {path}",
        "engine": c.get("engine", "verifrt-explorer"),
        "level_claimed": {"category": "model_checking", "text": c["text"], "design_ref": c["design_ref"]},
        "level_note": c["note"],
        "technique": c["technique"],
    })
for p in props:
    if p["id"] not in claimed:
        out["not_applicable"].append({"property_id": p["id"], "reason": checks["pending"].get(p["id"], "check not built yet; will be claimed when its harness exists")})
json.dump(out, open(f"{root}/MANIFEST.json", "w"), indent=1)
print("claimed", sorted(claimed), "not_applicable", len(out["not_applicable"]))
