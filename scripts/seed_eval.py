#!/usr/bin/env python3
"""Evaluates one seeded defect: confirms the demonstration (fails with the change, passes without)
in a scratch worktree, then applies the change to /repo, runs the property's check(s), and reverts.
usage: seed_eval.py <seed-dir> <property> [<other-property> ...]   (seed-dir holds patch.diff, demo_test.go, meta.json)
Writes <seed-dir>/eval.json."""
import json, os, re, subprocess, sys, shutil, time
env = dict(os.environ, GOPROXY="off", GOSUMDB="off", GOTOOLCHAIN="local")
def run(cmd, cwd=None, timeout=900):
    try:
        p = subprocess.run(cmd, cwd=cwd, shell=True, capture_output=True, text=True, timeout=timeout, env=env)
        return p.returncode, (p.stdout + p.stderr)
    except subprocess.TimeoutExpired as e:
        return 124, "timeout"
seed = os.path.abspath(sys.argv[1]); props = sys.argv[2:]
name = os.path.basename(seed)
demo = open(os.path.join(seed, "demo_test.go")).read()
pkg = re.search(r"^package (\w+)", demo, re.M).group(1)
sub = {"tracing": "pkg/tracing", "tracing_test": "pkg/tracing", "logic": "pkg/logic", "logic_test": "pkg/logic",
       "schema": "schema", "schema_test": "schema", "id": "pkg/id", "id_test": "pkg/id", "timer": "pkg/timer", "timer_test": "pkg/timer",
       "data": "pkg/data", "data_test": "pkg/data", "clock": "pkg/clock", "clock_test": "pkg/clock"}.get(pkg, ".")
tests = "|".join(re.findall(r"^func (Test\w+)\(", demo, re.M))
wt = f"/tmp/sv-{name}"
run(f"git -C /repo worktree remove --force {wt}"); shutil.rmtree(wt, ignore_errors=True)
rc, out = run(f"git -C /repo worktree add -q {wt} HEAD")
res = {"seed": name, "properties": props, "demo_package_dir": sub, "demo_tests": tests}
try:
    shutil.copy(os.path.join(seed, "demo_test.go"), os.path.join(wt, sub, "zz_seed_demo_test.go"))
    race = "-race " if "C17" in props else ""
    gocmd = f"go test {race}-vet=off -count=1 -timeout 300s -run '^({tests})$' ."
    rc0, out0 = run(gocmd, cwd=os.path.join(wt, sub))
    res["demo_passes_without_change"] = rc0 == 0
    rc, out = run(f"git apply {seed}/patch.diff", cwd=wt)
    res["patch_applies"] = rc == 0
    rcb, outb = run("go build ./... && (cd schema && go build ./...)", cwd=wt)
    res["builds_with_change"] = rcb == 0
    rc1, out1 = run(gocmd, cwd=os.path.join(wt, sub))
    res["demo_fails_with_change"] = rc1 != 0
    res["demo_output_with_change"] = out1[-1500:]
    os.remove(os.path.join(wt, sub, "zz_seed_demo_test.go"))
    # existing tests of the touched module(s)
    touched_schema = "schema/" in open(os.path.join(seed, "patch.diff")).read()
    tcmd = "(cd schema && go test -vet=off -count=1 ./...)" if touched_schema else "go test -vet=off -count=1 -timeout 240s ./..."
    rct, outt = run(tcmd, cwd=wt, timeout=600)
    if rct != 0:
        # a few event / process-set tests of the repository fail or hang in ~2 % of runs on the
        # pristine tree as well: one retry, as scripts/baseline_off.sh does
        res["existing_tests_first_attempt"] = "fail: " + "; ".join(re.findall(r"--- FAIL: (\w+)", outt))[:300]
        rct, outt = run(tcmd, cwd=wt, timeout=600)
    res["existing_tests_with_change"] = "pass" if rct == 0 else ("fail: " + "; ".join(re.findall(r"--- FAIL: (\w+)", outt))[:300] + (" (timeout)" if rct == 124 else ""))
finally:
    run(f"git -C /repo worktree remove --force {wt}"); shutil.rmtree(wt, ignore_errors=True)
# detection by the checks; exclusive lock: no other check may build from /repo while the seed is applied
import fcntl
lockf = open("/dev/shm/verif-repo.lock", "a+")
fcntl.flock(lockf, fcntl.LOCK_EX)
env["VERIF_NOLOCK"] = "1"
assert run("git -C /repo status --porcelain")[1].strip() == "", "/repo is not clean"
rc, out = run(f"git -C /repo apply {seed}/patch.diff")
assert rc == 0, out
res["repo_head"] = run("git -C /repo rev-parse --short HEAD")[1].strip()
res["checks"] = {}
try:
    for p in props:
        t0 = time.time()
        rc, out = run(f"./vcheck run {p} --tier quick", cwd="/verif", timeout=1200)
        viol = [l for l in out.splitlines() if l.startswith("VIOLATION") or l.strip().startswith("signature=")]
        res["checks"][p] = {"exit": rc, "detected": rc == 1, "first": viol[:4], "wall_s": round(time.time() - t0, 1), "summary": out.strip().splitlines()[-1][:300] if out.strip() else ""}
finally:
    run("git -C /repo checkout -- .")
    assert run("git -C /repo status --porcelain")[1].strip() == ""
    # evidence and replay files written by the seeded runs do not describe the real tree
    run("git -C /verif checkout -- evidence; git -C /verif clean -fdq replays")
fcntl.flock(lockf, fcntl.LOCK_UN)
json.dump(res, open(os.path.join(seed, "eval.json"), "w"), indent=1)
print(json.dumps({k: v for k, v in res.items() if k != "demo_output_with_change"}, indent=1))
