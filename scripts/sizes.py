#!/usr/bin/env python3
"""Rewrites the table of measured sizes in DESIGN.md (between the SIZES markers) from evidence/*.json."""
import json, glob, os, re
root = os.path.dirname(os.path.dirname(os.path.abspath(__file__)))
rows = []
for f in sorted(glob.glob(f"{root}/evidence/C*.json")):
    e = json.load(open(f)); c = e["coverage"]
    rows.append("| %s | %s | %d | %s | %s | %s | %s..%s | %s | %.0f s |" % (
        e["property_id"], e["tier"], c.get("scenarios", c.get("programs", 0)) or 0,
        f'{c.get("evaluations",0):,}', f'{c.get("states",0):,}', f'{c.get("transitions",0):,}',
        c.get("bound_completed_min", 0), c.get("bound_completed_max", 0), c.get("exhaustive"), e["wall_s"]))
table = "| property | tier | scenario jobs | executions | states | scheduling steps | bounds completed | exhaustive | wall |\n|---|---|---|---|---|---|---|---|---|\n" + "\n".join(rows)
p = f"{root}/DESIGN.md"
s = open(p).read()
s = re.sub(r"<!-- SIZES -->.*?<!-- /SIZES -->", "<!-- SIZES -->\n" + table + "\n<!-- /SIZES -->", s, flags=re.S)
open(p, "w").write(s)
print(table)
