#!/bin/sh
# Runs the repository's own test suite (no instrumentation, no build tag: /verif adds none to
# /repo) on a scratch copy, so that `go` in workspace mode does not touch /repo/go.work.sum.
# A package that fails is run once more: a few tests of the repository (event-based gateway,
# boundary events, pkg/event's concurrent fan-out test) fail or crash in a few percent of runs
# on the pristine snapshot as well. Exit status 1 if a package fails twice.
set -e
S=$(mktemp -d /dev/shm/verif-baseline-XXXXXX 2>/dev/null || mktemp -d)
trap 'rm -rf "$S"' EXIT
rsync -a --exclude .git /repo/ "$S/repo/"
export GOPROXY=off GOSUMDB=off GOTOOLCHAIN=local
rc=0
for m in . ./schema; do
  (cd "$S/repo/$m" && go test -json -vet=off -count=1 -timeout 12m ./...) > "$S/out.json" || true
  cat "$S/out.json"
  failed=$(python3 - "$S/out.json" <<'PY'
import json,sys
bad=set()
for l in open(sys.argv[1]):
    try: e=json.loads(l)
    except Exception: continue
    if not e.get('Test') and e.get('Action')=='fail': bad.add(e['Package'])
print(' '.join(sorted(bad)))
PY
)
  for p in $failed; do
    echo "baseline_off: package $p failed, running it once more" >&2
    (cd "$S/repo/$m" && go test -json -vet=off -count=1 -timeout 12m "$p") || rc=1
  done
done
exit $rc
