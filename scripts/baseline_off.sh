#!/bin/sh
# Runs the repository's own test suite (no instrumentation, no build tag: /verif adds none to
# /repo) on a scratch copy, so that `go` in workspace mode does not touch /repo/go.work.sum.
set -e
S=$(mktemp -d /dev/shm/verif-baseline-XXXXXX 2>/dev/null || mktemp -d)
trap 'rm -rf "$S"' EXIT
rsync -a --exclude .git /repo/ "$S/repo/"
export GOPROXY=off GOSUMDB=off GOTOOLCHAIN=local
for m in . ./schema; do
  (cd "$S/repo/$m" && go test -json -vet=off -count=1 -timeout 12m ./...) || true
done
