#!/usr/bin/env python3
"""Re-run only the detection step of an already confirmed seed at the current /repo HEAD:
apply seeded/<id>/patch.diff to /repo under the exclusive lock, run the quick check(s), revert.
usage: seed_recheck.py seeded/<id> Cnn [Cmm...]   -> prints one line, appends to seeded/<id>/recheck.json"""
import fcntl, json, os, subprocess, sys, time
seed, props = sys.argv[1].rstrip("/"), sys.argv[2:]
def run(cmd, cwd=None, timeout=None, env=None):
    p = subprocess.run(cmd, shell=True, cwd=cwd, capture_output=True, text=True, timeout=timeout, env=env)
    return p.returncode, p.stdout + p.stderr
env = dict(os.environ, VERIF_NOLOCK="1")
lockf = open("/dev/shm/verif-repo.lock", "a+")
fcntl.flock(lockf, fcntl.LOCK_EX)
res = {"seed": os.path.basename(seed), "repo_head": run("git -C /repo rev-parse --short HEAD")[1].strip(), "checks": {}}
try:
    assert run("git -C /repo status --porcelain")[1].strip() == "", "/repo is not clean"
    rc, out = run(f"git -C /repo apply {os.path.abspath(seed)}/patch.diff")
    if rc != 0:
        res["applies"] = False
    else:
        res["applies"] = True
        for p in props:
            t0 = time.time()
            rc, out = run(f"./vcheck run {p} --tier quick", cwd="/verif", timeout=1500, env=env)
            viol = [l.strip() for l in out.splitlines() if l.strip().startswith("signature=")]
            res["checks"][p] = {"exit": rc, "detected": rc == 1, "first": viol[:2], "wall_s": round(time.time() - t0, 1)}
finally:
    run("git -C /repo checkout -- .")
    assert run("git -C /repo status --porcelain")[1].strip() == ""
    run("git -C /verif checkout -- evidence; git -C /verif clean -fdq replays")
    fcntl.flock(lockf, fcntl.LOCK_UN)
json.dump(res, open(os.path.join(seed, "recheck.json"), "w"), indent=1)
print(res["seed"], "applies" if res.get("applies") else "NOAPPLY", {p: (c["detected"], c["first"][:1]) for p, c in res["checks"].items()})
