#!/bin/sh
# Builds the framework from files on disk only and pre-warms the Go build cache.
set -e
cd "$(dirname "$0")/.." || exit 2
VERIF_DIR=$(pwd); export VERIF_DIR
export GOFLAGS=-mod=mod GOPROXY=off GOSUMDB=off GOTOOLCHAIN=local GOWORK=off GODEBUG=goindex=0
mkdir -p bin evidence replays
(cd instr && go build -o ../bin/instr .)
go build -o bin/vcheck ./cmd/vcheck
# one instrumented build of the worker warms the cache for every check
S=$(mktemp -d /dev/shm/verif-setup-XXXXXX 2>/dev/null || mktemp -d)
trap 'rm -rf "$S"' EXIT
bin/instr -out "$S" -rt "$VERIF_DIR/rt" -dir "$VERIF_DIR" github.com/olive-io/bpmn/v2 github.com/olive-io/bpmn/v2/pkg/... github.com/olive-io/bpmn/v2/model github.com/muyo/sno github.com/muyo/sno/internal verif/harness/...
go build -overlay "$S/overlay.json" -o "$S/worker" ./harness/cmd/worker
# the same in race mode (C17): warms the -race cache
go build -race -gcflags=github.com/olive-io/bpmn/v2/verifrt=-race=false -overlay "$S/overlay.json" -o "$S/worker-race" ./harness/cmd/worker
rm -rf "$S"
# conformance suite of the controlled runtime (pseudo-property RT), in normal and in race mode:
# a failure here is a framework error and fails the set-up
./vcheck run RT --tier quick
VERIF_RACE=1 ./vcheck run RT --tier quick
echo setup ok
