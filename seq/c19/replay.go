package c19

import (
	"encoding/json"

	"verif/harness/rep"
)

// ReplayPlain re-evaluates the "input" of a replay file written by r.Violation: either a Spec
// (builder call sequence, optional layouts) or a reuse scenario.
func ReplayPlain(file []byte) *rep.Plain {
	return &rep.Plain{Name: "replay", Weight: 1, Run: func(r *rep.Report) {
		var doc struct {
			Input json.RawMessage `json:"input"`
		}
		if err := json.Unmarshal(file, &doc); err != nil || len(doc.Input) == 0 {
			r.Cap("replay file has no input")
			return
		}
		var probe struct {
			Scenario *string `json:"scenario"`
		}
		_ = json.Unmarshal(doc.Input, &probe)
		t := &tally{}
		defer func() { r.AddStates(t.cases, t.calls) }()
		if probe.Scenario != nil {
			var in reuseInput
			if err := json.Unmarshal(doc.Input, &in); err != nil {
				r.Cap("bad reuse input: " + err.Error())
				return
			}
			reuseCase(r, in.First, in.Layout, t)
			return
		}
		var spec Spec
		if err := json.Unmarshal(doc.Input, &spec); err != nil {
			r.Cap("bad spec input: " + err.Error())
			return
		}
		if len(spec.Layouts) > 1 {
			// a sequence of layouts applied to one open builder
			layoutDef(r, Spec{Procs: spec.Procs, Reuse: spec.Reuse}, spec.Layouts, t)
			return
		}
		evalSpec(r, spec, t)
	}}
}
