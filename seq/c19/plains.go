package c19

import (
	"fmt"
	"sort"
	"strings"

	"verif/harness/rep"

	"github.com/olive-io/bpmn/schema"
)

// Search space (every Plain enumerates its part completely, simplest first; sizes for quick/thorough):
//
//	full/*      all AddActivity sequences of length <= 2 (thorough <= 3) over the 20-symbol alphabet
//	            {10 stored activity types} x {generated id, preset id}: 421 (8421) sequences, each in 10
//	            variants: {1 process; 2 and 3 processes with fresh builders; 2 and 3 processes with ONE
//	            ProcessBuilder reused after Out()} x {no layout, AutoLayout(default)}.
//	            Processes 2 and 3 of a variant are reverse(s) and the first half of s.
//	twoA/*      all sequences of length <= 8 (thorough <= 12) over {Task, ServiceTask#}: 511 (8191) x 10 variants
//	twoB/*      the same over {UserTask#, SubProcess}
//	multi/*     all 2- and 3-tuples of sequences of length <= 2 (thorough <= 3) over {UserTask#, SubProcess}
//	            as the processes of one definitions, fresh/reused builder, AutoLayout(default)
//	ext/*       sequences of length <= 2 over 26 symbols (all 13 ActivityInterface implementers) that contain
//	            at least one of Transaction/AdHocSubProcess/Activity (accepted by AddActivity's signature
//	            but not stored by its type switch): 282 sequences x {no layout, default layout} (thorough: x {1,2,3 processes})
//	reuse/*     Out() twice / continued use of both builders after Out(): earlier results stay intact
//	layout/*    3^5 (thorough 5^5) AutoLayoutConfig grid x the 200 smallest and 50 largest definitions of
//	            the universe {sequences over {UserTask#, SubProcess} of length <= 8 (12)} x {1,2,3 processes}
//
// nontrivial(case) = the definitions contains >= 2 activities in total.
// states = distinct terminal builder states reached (= cases), transitions = builder API calls executed.

type variant struct {
	k      int
	reuse  bool
	layout bool
}

var variants = func() []variant {
	var v []variant
	for _, lay := range []bool{false, true} {
		v = append(v, variant{1, false, lay}, variant{2, false, lay}, variant{2, true, lay}, variant{3, false, lay}, variant{3, true, lay})
	}
	return v
}()

var defaultLayout = Layout{StartX: 96, StartY: 96, ColumnGap: 180, RowGap: 120, ProcessGap: 180}

type tally struct {
	cases, calls int64
}

// reported: this signature already has its witness in the current scenario (r.Violation keeps the
// first one only), so messages and confirmations need not be computed again.
func reported(r *rep.Report, sig string) bool {
	for _, v := range r.Violations {
		if v.Sig == sig && v.Scenario == r.CurName {
			return true
		}
	}
	return false
}

func panicClass(where string) string {
	if i := strings.IndexByte(where, '('); i >= 0 {
		where = where[:i]
	}
	return where
}

// evalSpec runs one spec through the builders and all oracles.
func evalSpec(r *rep.Report, spec Spec, t *tally) {
	emit := func(sig, msg string) {
		if !reported(r, sig) {
			r.Violation(sig, msg+" | calls: "+spec.callText(), spec)
		}
	}
	b, where, p := build(spec)
	if b != nil {
		t.calls += b.Calls
	}
	t.cases++
	r.Case(spec.Key(), spec.activities() >= 2)
	if p != "" {
		emit("C19/builder/panic/"+panicClass(where), where+" panicked: "+p)
		return
	}
	checkBuilt(emit, spec, b)
}

func checkBuilt(emit sink, spec Spec, b *Built) {
	if p := guard(func() {
		info, intact := checkDefs(emit, b.Defs, b, len(spec.Procs))
		if !intact {
			return
		}
		checkRoundTrip(emit, b.Defs, info)
		switch {
		case len(spec.Layouts) > 0:
			l := spec.Layouts[len(spec.Layouts)-1]
			checkLayout(emit, b.Defs, info, &l)
		case spec.Default:
			l := defaultLayout
			checkLayout(emit, b.Defs, info, &l)
		default:
			if b.Defs.DiagramField != nil {
				emit("C19/layout/unrequested-diagram", "definitions has a diagram although AutoLayout was not called")
			}
		}
	}); p != "" {
		emit("C19/builder/panic/accessors", "reading the output through the schema accessors panicked: "+p)
	}
}

func specFor(s []Sym, v variant) Spec {
	return Spec{Procs: companions(s, v.k), Reuse: v.reuse, Default: v.layout}
}

// seqPlain enumerates seqs x variants.
func seqPlain(name string, seqs func() [][]Sym, weight int) *rep.Plain {
	return &rep.Plain{Name: name, Weight: weight, Run: func(r *rep.Report) {
		list := seqs()
		t := &tally{}
		total := len(list) * len(variants)
		defer func() { r.AddStates(t.cases, t.calls) }()
		for i, s := range list {
			for _, v := range variants {
				if r.Expired() {
					r.Cap(fmt.Sprintf("time budget: %d of %d cases (%d sequences x %d variants) evaluated", t.cases, total, len(list), len(variants)))
					return
				}
				spec := specFor(s, v)
				evalSpec(r, spec, t)
				if i == len(list)/2 && v.k == 3 && v.layout && v.reuse {
					r.Sample(spec)
				}
			}
		}
	}}
}

func lenRange(alpha []Sym, lo, hi int) func() [][]Sym {
	return func() [][]Sym { return allSeqs(alpha, lo, hi) }
}

// withPrefix: all sequences of length n over alpha whose first len(prefix) symbols are prefix.
func withPrefix(alpha []Sym, n int, prefix []Sym) func() [][]Sym {
	return func() [][]Sym {
		var out [][]Sym
		seqsOfLen(alpha, n-len(prefix), func(rest []Sym) bool {
			out = append(out, append(append([]Sym(nil), prefix...), rest...))
			return true
		})
		return out
	}
}

func pow(b, e int) int {
	n := 1
	for i := 0; i < e; i++ {
		n *= b
	}
	return n
}

// Plains returns the enumerations of the given tier ("quick" or "thorough").
func Plains(tier string) []*rep.Plain {
	thorough := tier == "thorough"
	var out []*rep.Plain
	full := fullAlphabet(nSupported)

	// full alphabet
	out = append(out, seqPlain("full/len0-1", lenRange(full, 0, 1), 1))
	for half := 0; half < 2; half++ {
		h := half
		out = append(out, seqPlain(fmt.Sprintf("full/len2/part%d", h), func() [][]Sym {
			var l [][]Sym
			for _, first := range full[h*10 : h*10+10] {
				l = append(l, withPrefix(full, 2, []Sym{first})()...)
			}
			return l
		}, 6))
	}
	if thorough {
		for fi, first := range full { // part i = sequences whose first symbol is full[i]
			f := first
			out = append(out, seqPlain(fmt.Sprintf("full/len3/part%02d", fi), withPrefix(full, 3, []Sym{f}), 16))
		}
	}

	// two-symbol alphabets
	maxTwo := 8
	if thorough {
		maxTwo = 12
	}
	for _, ab := range []struct {
		name  string
		alpha []Sym
	}{{"twoA", alphaA}, {"twoB", alphaB}} {
		out = append(out, seqPlain(ab.name+"/len0-6", lenRange(ab.alpha, 0, 6), 6))
		for n := 7; n <= maxTwo; n++ {
			parts := 1
			if n >= 10 {
				parts = pow(2, n-9) // 10:2 11:4 12:8 -> 512 sequences per part
			}
			if parts == 1 {
				out = append(out, seqPlain(fmt.Sprintf("%s/len%d", ab.name, n), lenRange(ab.alpha, n, n), pow(2, n)*n/100+1))
				continue
			}
			bits := n - 9
			for pidx := 0; pidx < parts; pidx++ {
				prefix := make([]Sym, bits)
				for b := 0; b < bits; b++ {
					prefix[b] = ab.alpha[(pidx>>(bits-1-b))&1]
				}
				// part i = sequences whose first n-9 symbols spell i in binary over the alphabet
				out = append(out, seqPlain(fmt.Sprintf("%s/len%d/part%d", ab.name, n, pidx), withPrefix(ab.alpha, n, prefix), 512*n/100+1))
			}
		}
	}

	out = append(out, multiPlains(thorough)...)
	out = append(out, extPlain(thorough))
	out = append(out, reusePlain(thorough))
	out = append(out, layoutPlains(thorough)...)
	return out
}

// ---- multi: full products of short sequences as the processes of one definitions ----

func multiPlains(thorough bool) []*rep.Plain {
	maxLen := 2
	if thorough {
		maxLen = 3
	}
	mk := func(name string, k int, firsts func(n int) (lo, hi int), weight int) *rep.Plain {
		return &rep.Plain{Name: name, Weight: weight, Run: func(r *rep.Report) {
			seqs := allSeqs(alphaB, 0, maxLen)
			lo, hi := firsts(len(seqs))
			t := &tally{}
			defer func() { r.AddStates(t.cases, t.calls) }()
			idx := make([]int, k)
			var rec func(d int) bool
			rec = func(d int) bool {
				if d == k {
					for _, reuse := range []bool{false, true} {
						if r.Expired() {
							r.Cap(fmt.Sprintf("time budget: stopped after %d cases", t.cases))
							return false
						}
						procs := make([][]Sym, k)
						for i := range idx {
							procs[i] = seqs[idx[i]]
						}
						spec := Spec{Procs: procs, Reuse: reuse, Default: true}
						evalSpec(r, spec, t)
						if t.cases == 100 {
							r.Sample(spec)
						}
					}
					return true
				}
				a, b := 0, len(seqs)
				if d == 0 {
					a, b = lo, hi
				}
				for i := a; i < b; i++ {
					idx[d] = i
					if !rec(d + 1) {
						return false
					}
				}
				return true
			}
			rec(0)
		}}
	}
	all := func(n int) (int, int) { return 0, n }
	out := []*rep.Plain{mk("multi/k2", 2, all, 2)}
	if !thorough {
		return append(out, mk("multi/k3", 3, all, 4))
	}
	for part := 0; part < 3; part++ {
		p := part
		out = append(out, mk(fmt.Sprintf("multi/k3/part%d", p), 3, func(n int) (int, int) { return p * n / 3, (p + 1) * n / 3 }, 12))
	}
	return out
}

// ---- ext: activity types AddActivity accepts but does not store ----

func extPlain(thorough bool) *rep.Plain {
	return &rep.Plain{Name: "ext/unstored-types/len1-2", Weight: 2, Run: func(r *rep.Report) {
		t := &tally{}
		defer func() { r.AddStates(t.cases, t.calls) }()
		// the bare schema.Activity is the abstract base of the activity types (a process has no
		// element to hold it); "every activity type" is read as every concrete type
		all := fullAlphabet(len(typeNames) - 1)
		ks := []int{1}
		if thorough {
			ks = []int{1, 2, 3}
		}
		for _, s := range allSeqs(all, 1, 2) {
			hasExt := false
			for _, sym := range s {
				if sym.Type >= nSupported {
					hasExt = true
				}
			}
			if !hasExt {
				continue
			}
			for _, k := range ks {
				for _, lay := range []bool{false, true} {
					if r.Expired() {
						r.Cap(fmt.Sprintf("time budget: stopped after %d cases", t.cases))
						return
					}
					spec := specFor(s, variant{k, false, lay})
					evalSpec(r, spec, t)
					if t.cases == 1 {
						r.Sample(spec)
					}
				}
			}
		}
	}}
}

// ---- reuse: Out() twice, continued use after Out() ----

// The doc comment of both Out() methods says the builder is reset, so reusing a builder is part of
// the API. A result handed out earlier is still "definitions produced by the builders", hence it
// must remain well-formed: it is re-checked, and its fingerprint (ids, graph, diagram) must not
// change, after the same builders went on to produce further outputs. The later outputs are
// checked like any other.
func reusePlain(thorough bool) *rep.Plain {
	return &rep.Plain{Name: "reuse/out-twice-and-continue", Weight: 2, Run: func(r *rep.Report) {
		maxLen := 3
		if thorough {
			maxLen = 5
		}
		t := &tally{}
		defer func() { r.AddStates(t.cases, t.calls) }()
		for _, alpha := range [][]Sym{alphaA, alphaB} {
			for _, s := range allSeqs(alpha, 0, maxLen) {
				for _, lay := range []bool{false, true} {
					if r.Expired() {
						r.Cap(fmt.Sprintf("time budget: stopped after %d cases", t.cases))
						return
					}
					reuseCase(r, s, lay, t)
				}
			}
		}
	}}
}

type reuseInput struct {
	Scenario string `json:"scenario"`
	First    []Sym  `json:"first"`
	Second   []Sym  `json:"second"`
	Layout   bool   `json:"defaultLayout"`
}

func reuseCase(r *rep.Report, s []Sym, lay bool, t *tally) {
	second := companions(s, 2)[1]
	in := reuseInput{
		Scenario: "pb,db := New..; pb.Add(first); db.AddProcess(*pb.Out()); [db.AutoLayout(default)]; d1 := db.Out(); " +
			"pb.Add(second); db.AddProcess(*pb.Out()); [db.AutoLayout(default)]; d2 := db.Out(); db.AddProcess(*pb.Out()); d3 := db.Out(); d4 := db.Out()",
		First: s, Second: second, Layout: lay,
	}
	key := "reuse " + seqString(s) + " ; " + seqString(second)
	if lay {
		key += " /layout=default"
	}
	emit := func(sig, msg string) {
		if !reported(r, sig) {
			r.Violation(sig, msg+" | "+key+" | "+in.Scenario, in)
		}
	}
	t.cases++
	r.Case(key, len(s) >= 1)

	var db *schema.DefinitionBuilder
	var pb *schema.ProcessBuilder
	var d1, d2, d3, d4 *schema.Definitions
	b1, b2, b3 := &Built{}, &Built{}, &Built{}
	where := ""
	add := func(b *Built, pi int, seq []Sym) {
		var ids, want []string
		var types []int
		for j, sym := range seq {
			act := newAct(sym.Type)
			if sym.Preset {
				act.SetId(schema.NewStringP(presetID(pi, j)))
				want = append(want, presetID(pi, j))
			} else {
				want = append(want, "")
			}
			where = "ProcessBuilder.AddActivity"
			pb.AddActivity(act)
			t.calls++
			id, _ := act.Id()
			if id != nil {
				ids = append(ids, *id)
			} else {
				ids = append(ids, "")
			}
			types = append(types, sym.Type)
		}
		b.Acts = append(b.Acts, ids)
		b.Types = append(b.Types, types)
		b.Want = append(b.Want, want)
		where = "ProcessBuilder.Out"
		p := pb.Out()
		where = "DefinitionBuilder.AddProcess"
		db.AddProcess(*p)
		t.calls += 2
	}
	var fp1 string
	if p := guard(func() {
		where = "New*Builder"
		db, pb = schema.NewDefinitionsBuilder(), schema.NewProcessBuilder()
		t.calls += 2
		add(b1, 0, s)
		if lay {
			where = "DefinitionBuilder.AutoLayout"
			db.AutoLayout(schema.DefaultAutoLayoutConfig())
			t.calls++
		}
		where = "DefinitionBuilder.Out"
		d1 = db.Out()
		t.calls++
		fp1 = fingerprint(d1)
		// presets of the second process use process index 1 so that they differ from the first
		add(b2, 1, second)
		if lay {
			where = "DefinitionBuilder.AutoLayout"
			db.AutoLayout(schema.DefaultAutoLayoutConfig())
			t.calls++
		}
		where = "DefinitionBuilder.Out"
		d2 = db.Out()
		add(b3, 2, nil) // pb.Out() right after pb.Out(): an empty start->end process
		where = "DefinitionBuilder.Out"
		d3 = db.Out()
		d4 = db.Out() // Out() twice in a row: an empty definitions
		t.calls += 3
	}); p != "" {
		emit("C19/builder/panic/"+panicClass(where), where+" panicked on a reused builder: "+p)
		return
	}
	b1.Defs, b2.Defs, b3.Defs = d1, d2, d3
	// b2's preset ids were generated with process index 1 but sit in process 0 of d2: checkDefs only
	// compares ids, which is what add() recorded.
	spec := func(seq []Sym) Spec { return Spec{Procs: [][]Sym{seq}, Default: lay} }
	if fingerprint(d1) != fp1 {
		emit("C19/builder/out-not-stable", "the definitions returned by the first db.Out() changed while the builders were used again")
	}
	tag := func(which string) sink {
		return func(sig, msg string) { emit(sig, which+": "+msg) }
	}
	checkBuilt(tag("first output after reuse"), spec(s), b1)
	checkBuilt(tag("second output"), spec(second), b2)
	checkBuilt(tag("third output (pb.Out() twice)"), Spec{Procs: [][]Sym{nil}}, b3)
	if d4 == nil {
		emit("C19/builder/out-twice-nil", "second db.Out() in a row returned nil")
	} else if len(d4.ProcessField) != 0 {
		emit("C19/builder/out-not-reset", "db.Out() right after db.Out() still contains processes")
	}
}

// ---- layout grid ----

func grid(thorough bool) []Layout {
	xs := []float64{-1000, 0, 96}
	ys := []float64{-1000, 0, 96}
	cs := []float64{0, 120, 180}
	rs := []float64{0, 100, 120}
	ps := []float64{0, 100, 180}
	if thorough {
		xs = []float64{-1e12, -1000, 0, 96, 1e12}
		ys = []float64{-1e12, -1000, 0, 96, 1e12}
		cs = []float64{-180, 0, 100, 120, 180}
		rs = []float64{-120, 0, 80, 100, 120}
		ps = []float64{-180, 0, 80, 100, 180}
	}
	var out []Layout
	for _, x := range xs {
		for _, y := range ys {
			for _, c := range cs {
				for _, rr := range rs {
					for _, p := range ps {
						out = append(out, Layout{x, y, c, rr, p})
					}
				}
			}
		}
	}
	// simplest first: the documented default configuration leads
	sort.SliceStable(out, func(i, j int) bool { return out[i] == defaultLayout && out[j] != defaultLayout })
	return out
}

// layoutDefs: the 200 smallest and 50 largest definitions of the universe
// {sequences over alphaB, length <= maxLen} x {1,2,3 processes} (fresh builders), by flow-node count.
func layoutDefs(thorough bool) []Spec {
	maxLen := 8
	if thorough {
		maxLen = 12
	}
	type item struct {
		spec Spec
		size int
	}
	var uni []item
	for _, s := range allSeqs(alphaB, 0, maxLen) {
		for k := 1; k <= 3; k++ {
			sp := Spec{Procs: companions(s, k)}
			uni = append(uni, item{sp, sp.activities() + 2*k})
		}
	}
	sort.SliceStable(uni, func(i, j int) bool { return uni[i].size < uni[j].size })
	var out []Spec
	for i := 0; i < 200 && i < len(uni); i++ {
		out = append(out, uni[i].spec)
	}
	// the largest: all definitions of maximal size, 50 of them evenly strided (more variety than the last 50)
	maxSize := uni[len(uni)-1].size
	first := len(uni)
	for first > 200 && uni[first-1].size == maxSize {
		first--
	}
	top := uni[first:]
	if len(top) < 50 {
		f := len(uni) - 50
		if f < 200 {
			f = 200
		}
		top = uni[f:]
	}
	n := 50
	if len(top) < n {
		n = len(top)
	}
	for i := 0; i < n; i++ {
		out = append(out, top[i*len(top)/n].spec)
	}
	return out
}

func layoutPlains(thorough bool) []*rep.Plain {
	parts := 4
	if thorough {
		parts = 16
	}
	var out []*rep.Plain
	for part := 0; part < parts; part++ {
		p := part
		w := 15
		if thorough {
			w = 60
		}
		out = append(out, &rep.Plain{Name: fmt.Sprintf("layout/grid/part%d", p), Weight: w, Run: func(r *rep.Report) {
			defs := layoutDefs(thorough)
			cfgs := grid(thorough)
			t := &tally{}
			defer func() { r.AddStates(t.cases, t.calls) }()
			mine := 0
			for di := range defs {
				if di%parts == p {
					mine++
				}
			}
			done := 0
			for di, spec := range defs {
				if di%parts != p {
					continue
				}
				if !layoutDef(r, spec, cfgs, t) {
					r.Cap(fmt.Sprintf("time budget: %d of %d definitions x %d configurations evaluated", done, mine, len(cfgs)))
					return
				}
				done++
				if done == mine/2 {
					r.Sample(map[string]any{"definitions": spec, "configurations": len(cfgs), "first": cfgs[0], "last": cfgs[len(cfgs)-1]})
				}
			}
		}})
	}
	return out
}

// layoutDef builds one definitions and applies every configuration in turn to the open builder
// (AutoLayout replaces the whole diagram each time - README shows calling it repeatedly), checking the
// diagram after each call; finally Out() must carry the last diagram. A violation is re-confirmed on a
// fresh builder with that single configuration so that the replay input is minimal.
func layoutDef(r *rep.Report, spec Spec, cfgs []Layout, t *tally) bool {
	b, where, p := buildOpen(spec)
	if b != nil {
		t.calls += b.Calls
	}
	if p != "" {
		r.Violation("C19/builder/panic/"+panicClass(where), where+" panicked: "+p+" | calls: "+spec.callText(), spec)
		return true
	}
	var info []procInfo
	if p := guard(func() { info = extract(b.DB.Definitions) }); p != "" {
		r.Violation("C19/builder/panic/accessors", "reading the process graph panicked: "+p, spec)
		return true
	}
	nontrivial := spec.activities() >= 2
	for ci := range cfgs {
		if ci%64 == 0 && r.Expired() {
			return false
		}
		cfg := cfgs[ci]
		one := Spec{Procs: spec.Procs, Layouts: []Layout{cfg}}
		t.cases++
		t.calls++
		r.Case(one.Key(), nontrivial)
		emit := func(sig, msg string) {
			if reported(r, sig) || reported(r, sig+"/only-after-earlier-layouts") {
				return
			}
			// confirm on a fresh builder
			var sigs []string
			if fb, _, fp := build(one); fp == "" {
				if finfo, intact := checkDefs(func(string, string) {}, fb.Defs, fb, len(one.Procs)); intact {
					checkLayout(func(s, _ string) { sigs = append(sigs, s) }, fb.Defs, finfo, &cfg)
				}
			} else {
				sigs = append(sigs, sig)
			}
			for _, s := range sigs {
				if s == sig {
					r.Violation(sig, msg+" | calls: "+one.callText(), one)
					return
				}
			}
			seq := Spec{Procs: spec.Procs, Layouts: cfgs[:ci+1]}
			r.Violation(sig+"/only-after-earlier-layouts", msg+" | only when the earlier configurations were applied to the same builder first", seq)
		}
		c := cfg.cfg()
		if p := guard(func() { b.DB.AutoLayout(c) }); p != "" {
			emit("C19/layout/panic", "AutoLayout panicked: "+p)
			return true
		}
		if p := guard(func() { checkLayout(emit, b.DB.Definitions, info, &cfg) }); p != "" {
			emit("C19/layout/panic/accessors", "reading the diagram panicked: "+p)
		}
	}
	// Out() hands out the last diagram unchanged
	before := fingerprint(b.DB.Definitions)
	var defs *schema.Definitions
	if p := guard(func() { defs = b.DB.Out() }); p != "" || defs == nil {
		r.Violation("C19/builder/panic/DefinitionBuilder.Out", "DefinitionBuilder.Out panicked or returned nil: "+p, spec)
		return true
	}
	t.calls++
	if fingerprint(defs) != before {
		r.Violation("C19/layout/out-loses-diagram", "db.Out() differs from the builder's definitions after the last AutoLayout | calls: "+spec.callText(), spec)
	}
	return true
}
