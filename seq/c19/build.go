// Package c19 is the sequential, bounded-exhaustive checker for property C19:
//
//	"Builder output is well-formed, executable, and laid out without overlap."
//
// It drives the real schema.ProcessBuilder / schema.DefinitionBuilder over every call sequence
// of a finite, explicitly counted space (simplest first) and evaluates the well-formedness,
// XML round-trip and AutoLayout clauses on every output. The engine-execution clause is not
// evaluated here; Corpus exports builder outputs for the harness that does.
//
// Interpretation choices are documented next to the oracle that implements them (oracle.go).
package c19

import (
	"fmt"
	"strings"

	"github.com/olive-io/bpmn/schema"
)

// ---- alphabet ----

// Activity types. Indices 0..9 are the ten types ProcessBuilder.AddActivity stores
// (builder.go type switch); 10..12 are the remaining implementers of schema.ActivityInterface,
// which AddActivity accepts by signature but does not store ("ext" alphabet, separate Plain).
var typeNames = []string{
	"Task", "BusinessRuleTask", "UserTask", "CallActivity", "ManualTask",
	"SendTask", "ScriptTask", "ServiceTask", "ReceiveTask", "SubProcess",
	"Transaction", "AdHocSubProcess", "Activity",
}

// short codes used in case keys (Spec.Key); '#' marks a preset id
var typeCodes = []string{"T", "BR", "U", "CA", "M", "SN", "SC", "SV", "R", "SP", "TX", "AH", "A"}

const nSupported = 10

func newAct(t int) schema.ActivityInterface {
	switch t {
	case 0:
		return &schema.Task{}
	case 1:
		return &schema.BusinessRuleTask{}
	case 2:
		return &schema.UserTask{}
	case 3:
		return &schema.CallActivity{}
	case 4:
		return &schema.ManualTask{}
	case 5:
		return &schema.SendTask{}
	case 6:
		return &schema.ScriptTask{}
	case 7:
		return &schema.ServiceTask{}
	case 8:
		return &schema.ReceiveTask{}
	case 9:
		if populateSub {
			return populatedSubProcess()
		}
		return &schema.SubProcess{}
	case 10:
		return &schema.Transaction{}
	case 11:
		return &schema.AdHocSubProcess{}
	case 12:
		return &schema.Activity{}
	}
	panic("c19: bad type index")
}

// populateSub makes newAct hand the builder sub-processes that have a content of their own
// (start event -> end event), as a user who wants the output to be executable would: the engine
// rejects a sub-process without a start event by design (SubProcessError), and the statement
// does not say that an empty one is executable. Used by Corpus only.
var (
	populateSub bool
	subCounter  int
)

func populatedSubProcess() *schema.SubProcess {
	subCounter++
	sid, eid, fid := fmt.Sprintf("SubStart_%d", subCounter), fmt.Sprintf("SubEnd_%d", subCounter), fmt.Sprintf("SubFlow_%d", subCounter)
	sp := &schema.SubProcess{}
	st, en, fl := schema.StartEvent{}, schema.EndEvent{}, schema.SequenceFlow{}
	st.SetId(&sid)
	en.SetId(&eid)
	fl.SetId(&fid)
	fl.SetSourceRef(schema.IdRef(sid))
	fl.SetTargetRef(schema.IdRef(eid))
	st.SetOutgoings([]schema.QName{schema.QName(fid)})
	en.SetIncomings([]schema.QName{schema.QName(fid)})
	sp.SetStartEvents([]schema.StartEvent{st})
	sp.SetEndEvents([]schema.EndEvent{en})
	sp.SetSequenceFlows([]schema.SequenceFlow{fl})
	return sp
}

// goTypeName is the dynamic type name of a flow node ("Task", "StartEvent", ...).
func goTypeName(v any) string {
	s := fmt.Sprintf("%T", v)
	if i := strings.LastIndexByte(s, '.'); i >= 0 {
		s = s[i+1:]
	}
	return s
}

// Sym is one AddActivity call: the activity type and whether the caller presets the id.
type Sym struct {
	Type   int  `json:"type"`
	Preset bool `json:"preset"`
}

func (s Sym) String() string {
	if s.Preset {
		return typeNames[s.Type] + "#"
	}
	return typeNames[s.Type]
}

// MarshalJSON makes replay inputs readable: "Task" (generated id) / "Task#" (preset id).
func (s Sym) MarshalJSON() ([]byte, error) { return []byte(`"` + s.String() + `"`), nil }

func (s *Sym) UnmarshalJSON(b []byte) error {
	str := strings.Trim(string(b), `"`)
	s.Preset = strings.HasSuffix(str, "#")
	str = strings.TrimSuffix(str, "#")
	for i, n := range typeNames {
		if n == str {
			s.Type = i
			return nil
		}
	}
	return fmt.Errorf("c19: unknown activity symbol %q", str)
}

func fullAlphabet(nTypes int) []Sym {
	var out []Sym
	for t := 0; t < nTypes; t++ {
		out = append(out, Sym{t, false}, Sym{t, true})
	}
	return out
}

// Two-symbol alphabets (two different activity types, one generated id, one preset id).
var (
	alphaA = []Sym{{0, false}, {7, true}} // Task, ServiceTask#
	alphaB = []Sym{{2, true}, {9, false}} // UserTask#, SubProcess (the only type with another node size)
)

// Layout is one AutoLayout configuration (mirrors schema.AutoLayoutConfig).
type Layout struct {
	StartX     float64 `json:"startX"`
	StartY     float64 `json:"startY"`
	ColumnGap  float64 `json:"columnGap"`
	RowGap     float64 `json:"rowGap"`
	ProcessGap float64 `json:"processGap"`
}

func (l Layout) cfg() *schema.AutoLayoutConfig {
	return &schema.AutoLayoutConfig{StartX: l.StartX, StartY: l.StartY, ColumnGap: l.ColumnGap, RowGap: l.RowGap, ProcessGap: l.ProcessGap}
}

func (l Layout) String() string {
	return fmt.Sprintf("x%g,y%g,c%g,r%g,p%g", l.StartX, l.StartY, l.ColumnGap, l.RowGap, l.ProcessGap)
}

// Spec is one replayable builder call sequence:
//
//	db := NewDefinitionsBuilder()
//	for each process i: pb (fresh, or the one reused after Out()); AddActivity(...)*; db.AddProcess(*pb.Out())
//	[db.AutoLayout(cfg) for each layout]; db.Out()
type Spec struct {
	Procs   [][]Sym  `json:"procs"`             // 1..3 processes, each a sequence of AddActivity calls
	Reuse   bool     `json:"reuse,omitempty"`   // one ProcessBuilder for all processes (Out() resets it) instead of a fresh one each
	Default bool     `json:"default,omitempty"` // AutoLayout(DefaultAutoLayoutConfig()) before Out()
	Layouts []Layout `json:"layouts,omitempty"` // explicit configurations, applied in order (each replaces the diagram)
}

func seqString(seq []Sym) string {
	if len(seq) == 0 {
		return "-"
	}
	parts := make([]string, len(seq))
	for i, s := range seq {
		parts[i] = s.String()
	}
	return strings.Join(parts, ",")
}

// Key identifies the case compactly, e.g. "T,SV#|SV#,T /reuse /layout=default" (codes: typeCodes).
func (s Spec) Key() string {
	var sb strings.Builder
	for i, p := range s.Procs {
		if i > 0 {
			sb.WriteByte('|')
		}
		if len(p) == 0 {
			sb.WriteByte('-')
		}
		for j, sym := range p {
			if j > 0 {
				sb.WriteByte(',')
			}
			sb.WriteString(typeCodes[sym.Type])
			if sym.Preset {
				sb.WriteByte('#')
			}
		}
	}
	k := sb.String()
	if s.Reuse {
		k += " /reuse"
	}
	if s.Default {
		k += " /layout=default"
	}
	for _, l := range s.Layouts {
		k += " /layout=" + l.String()
	}
	return k
}

func (s Spec) activities() int {
	n := 0
	for _, p := range s.Procs {
		n += len(p)
	}
	return n
}

// callText renders the spec as the Go call sequence (for violation messages).
func (s Spec) callText() string {
	var b strings.Builder
	b.WriteString("db:=NewDefinitionsBuilder(); ")
	for i, p := range s.Procs {
		if i == 0 || !s.Reuse {
			b.WriteString("pb:=NewProcessBuilder(); ")
		}
		for j, sym := range p {
			if sym.Preset {
				fmt.Fprintf(&b, "pb.AddActivity(&%s{id:%q}); ", typeNames[sym.Type], presetID(i, j))
			} else {
				fmt.Fprintf(&b, "pb.AddActivity(&%s{}); ", typeNames[sym.Type])
			}
		}
		b.WriteString("db.AddProcess(*pb.Out()); ")
	}
	if s.Default {
		b.WriteString("db.AutoLayout(DefaultAutoLayoutConfig()); ")
	}
	for _, l := range s.Layouts {
		fmt.Fprintf(&b, "db.AutoLayout(&%+v); ", l)
	}
	b.WriteString("db.Out()")
	return b.String()
}

func presetID(proc, idx int) string { return fmt.Sprintf("Act_p%d_n%d", proc, idx) }

// Built is the outcome of executing a Spec against the real builders.
type Built struct {
	DB    *schema.DefinitionBuilder // only set by buildOpen (before Out())
	Defs  *schema.Definitions
	Procs []*schema.Process // what pb.Out() returned, in order
	Acts  [][]string        // per process: activity ids in insertion order (as left on the caller's objects)
	Types [][]int           // per process: activity type index in insertion order
	Want  [][]string        // per process: the preset id of each activity ("" = generated by the builder)
	Calls int64             // builder API calls made
}

// guard runs f and converts a panic into a message (every repository call goes through it).
func guard(f func()) (panicked string) {
	defer func() {
		if x := recover(); x != nil {
			panicked = fmt.Sprint(x)
		}
	}()
	f()
	return ""
}

// build executes the spec up to and including db.Out(). where names the call that panicked.
func build(s Spec) (b *Built, where, panicked string) {
	b, where, panicked = buildOpen(s)
	if panicked != "" {
		return
	}
	for _, l := range s.Layouts {
		where = "DefinitionBuilder.AutoLayout"
		cfg := l.cfg()
		if panicked = guard(func() { b.DB.AutoLayout(cfg) }); panicked != "" {
			return
		}
		b.Calls++
	}
	where = "DefinitionBuilder.Out"
	if panicked = guard(func() { b.Defs = b.DB.Out() }); panicked != "" {
		return
	}
	b.Calls++
	return b, "", ""
}

// buildOpen executes the spec up to (excluding) the explicit layouts and db.Out(); b.DB stays open.
func buildOpen(s Spec) (b *Built, where, panicked string) {
	b = &Built{}
	where = "NewDefinitionsBuilder"
	if panicked = guard(func() { b.DB = schema.NewDefinitionsBuilder() }); panicked != "" {
		return
	}
	b.Calls++
	var pb *schema.ProcessBuilder
	for i, seq := range s.Procs {
		if i == 0 || !s.Reuse {
			where = "NewProcessBuilder"
			if panicked = guard(func() { pb = schema.NewProcessBuilder() }); panicked != "" {
				return
			}
			b.Calls++
		}
		var ids, want []string
		var types []int
		for j, sym := range seq {
			act := newAct(sym.Type)
			if sym.Preset {
				act.SetId(schema.NewStringP(presetID(i, j)))
				want = append(want, presetID(i, j))
			} else {
				want = append(want, "")
			}
			where = "ProcessBuilder.AddActivity(" + sym.String() + ")"
			if panicked = guard(func() { pb.AddActivity(act) }); panicked != "" {
				return
			}
			b.Calls++
			id := ""
			if p, ok := act.Id(); ok && p != nil {
				id = *p
			}
			ids = append(ids, id)
			types = append(types, sym.Type)
		}
		var p *schema.Process
		where = "ProcessBuilder.Out"
		if panicked = guard(func() { p = pb.Out() }); panicked != "" {
			return
		}
		b.Calls++
		if p == nil {
			return b, where, "returned nil *Process"
		}
		where = "DefinitionBuilder.AddProcess"
		if panicked = guard(func() { b.DB.AddProcess(*p) }); panicked != "" {
			return
		}
		b.Calls++
		b.Procs = append(b.Procs, p)
		b.Acts = append(b.Acts, ids)
		b.Types = append(b.Types, types)
		b.Want = append(b.Want, want)
	}
	if s.Default {
		where = "DefinitionBuilder.AutoLayout"
		if panicked = guard(func() { b.DB.AutoLayout(schema.DefaultAutoLayoutConfig()) }); panicked != "" {
			return
		}
		b.Calls++
	}
	return b, "", ""
}

// ---- sequence enumeration ----

// seqsOfLen enumerates all sequences of exactly n symbols over alpha, in lexicographic order.
func seqsOfLen(alpha []Sym, n int, f func([]Sym) bool) bool {
	cur := make([]Sym, n)
	var rec func(i int) bool
	rec = func(i int) bool {
		if i == n {
			return f(append([]Sym(nil), cur...))
		}
		for _, s := range alpha {
			cur[i] = s
			if !rec(i + 1) {
				return false
			}
		}
		return true
	}
	return rec(0)
}

func allSeqs(alpha []Sym, minLen, maxLen int) [][]Sym {
	var out [][]Sym
	for n := minLen; n <= maxLen; n++ {
		seqsOfLen(alpha, n, func(s []Sym) bool { out = append(out, s); return true })
	}
	return out
}

// companions derives the k-process variant of a base sequence s deterministically:
// process 0 = s, process 1 = reverse(s), process 2 = first half of s (different lengths and orders).
func companions(s []Sym, k int) [][]Sym {
	out := [][]Sym{s}
	if k >= 2 {
		r := make([]Sym, len(s))
		for i := range s {
			r[len(s)-1-i] = s[i]
		}
		out = append(out, r)
	}
	if k >= 3 {
		out = append(out, append([]Sym(nil), s[:len(s)/2]...))
	}
	return out
}

// ---- corpus for the engine-execution harness ----

// Doc is one builder output together with the ids of the added activities in insertion order.
type Doc struct {
	Name       string
	Defs       *schema.Definitions
	Activities []string /* ids in insertion order */
}

// Corpus returns single-process builder outputs for the engine-execution clause of C19 (not
// checked here): all sequences of length <= 2 over the ten supported types x {generated, preset id}
// (421) and all sequences of length 3..6 (thorough: 3..8) over the two-symbol alphabet
// {Task, ServiceTask#}. Sub-processes are given a content (start -> end). No AutoLayout is applied. Outputs whose construction panics are omitted
// (Plains reports those).
func Corpus(tier string) []Doc {
	populateSub, subCounter = true, 0
	defer func() { populateSub = false }()
	seqs := allSeqs(fullAlphabet(nSupported), 0, 2)
	maxTwo := 6
	if tier == "thorough" {
		maxTwo = 8
	}
	// lengths <= 2 over alphaA are already contained in the full-alphabet part
	seqs = append(seqs, allSeqs(alphaA, 3, maxTwo)...)
	docs := make([]Doc, 0, len(seqs))
	for _, s := range seqs {
		spec := Spec{Procs: [][]Sym{s}}
		b, _, p := build(spec)
		if p != "" || b == nil || b.Defs == nil {
			continue
		}
		docs = append(docs, Doc{Name: spec.Key(), Defs: b.Defs, Activities: b.Acts[0]})
	}
	return docs
}
