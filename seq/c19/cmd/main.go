// Stand-alone runner for the C19 sequential checker.
//
//	go run ./seq/c19/cmd -tier quick|thorough [-only substring] [-budget 10m] [-replay file.json]
package main

import (
	"encoding/json"
	"flag"
	"fmt"
	"os"
	"strings"
	"time"

	"verif/harness/rep"
	"verif/seq/c19"
)

func main() {
	tier := flag.String("tier", "quick", "quick or thorough")
	only := flag.String("only", "", "run only Plains whose name contains this substring")
	budget := flag.Duration("budget", 30*time.Minute, "time budget")
	replay := flag.String("replay", "", "re-evaluate the input of a replay file written by a previous run")
	list := flag.Bool("list", false, "list Plains and weights")
	flag.Parse()

	t0 := time.Now()
	r := rep.New("C19", *tier, "/tmp/c19-replays", t0.Add(*budget))

	if *replay != "" {
		data, err := os.ReadFile(*replay)
		if err != nil {
			fmt.Fprintln(os.Stderr, err)
			os.Exit(2)
		}
		r.RunPlain(c19.ReplayPlain(data))
	} else {
		for _, p := range c19.Plains(*tier) {
			if *only != "" && !strings.Contains(p.Name, *only) {
				continue
			}
			if *list {
				fmt.Printf("%-40s weight %d\n", p.Name, p.Weight)
				continue
			}
			r.RunPlain(p)
		}
	}
	r.Finish(t0)

	per := r.PerScenario
	r.PerScenario = nil
	out, _ := json.MarshalIndent(r, "", " ")
	fmt.Println(string(out))
	for _, l := range per {
		fmt.Println(l)
	}
	for _, v := range r.Violations {
		fmt.Printf("VIOLATION %s [%s]\n  %s\n  replay: %s\n", v.Sig, v.Scenario, v.Msg, v.Replay)
	}
	fmt.Printf("C19 %s: scenarios=%d exhaustive=%v evals=%d nontrivial=%d distinct=%d states=%d calls=%d violations=%d wall=%.1fs\n",
		*tier, r.Scenarios, r.Exhaustive, r.Evals, r.Nontrivial, len(r.Distinct), r.States, r.Steps, len(r.Violations), r.WallS)
	if len(r.Violations) > 0 {
		os.Exit(1)
	}
}
