package c19

import (
	"sort"
	"strings"
	"testing"

	"github.com/olive-io/bpmn/schema"
)

// Oracle sensitivity: corrupt a correct builder output the way a defective builder would and
// require the matching signature (and none on the uncorrupted output).

func sigsOf(t *testing.T, spec Spec, mutate func(b *Built)) []string {
	t.Helper()
	b, where, p := build(spec)
	if p != "" {
		t.Fatalf("%s panicked: %s", where, p)
	}
	if mutate != nil {
		mutate(b)
	}
	set := map[string]bool{}
	checkBuilt(func(sig, msg string) { set[sig] = true }, spec, b)
	var out []string
	for s := range set {
		out = append(out, s)
	}
	sort.Strings(out)
	return out
}

func has(sigs []string, want string) bool {
	for _, s := range sigs {
		if s == want {
			return true
		}
	}
	return false
}

func TestOracleSensitivity(t *testing.T) {
	base := Spec{Procs: [][]Sym{{{0, false}, {9, true}}, {{7, true}}}, Default: true}
	if got := sigsOf(t, base, nil); len(got) != 0 {
		t.Fatalf("clean output flagged: %v", got)
	}
	plane := func(b *Built) *schema.BPMNPlane { return b.Defs.DiagramField.BPMNPlaneField }
	cases := []struct {
		name   string
		want   string
		mutate func(b *Built)
	}{
		{"start copy not updated", "C19/builder/flow-not-listed-in-outgoing", func(b *Built) { b.Defs.ProcessField[0].StartEventField[0].OutgoingField = nil }},
		{"start copy not updated (2)", "C19/builder/node-without-outgoing", func(b *Built) { b.Defs.ProcessField[0].StartEventField[0].OutgoingField = nil }},
		{"end not linked", "C19/builder/flow-not-listed-in-incoming", func(b *Built) { b.Defs.ProcessField[0].EndEventField[0].IncomingField = nil }},
		{"listed twice", "C19/builder/flow-listed-twice-in-outgoing", func(b *Built) {
			n := &b.Defs.ProcessField[0].TaskField[0]
			n.OutgoingField = append(n.OutgoingField, n.OutgoingField[0])
		}},
		{"duplicate id", "C19/builder/duplicate-id", func(b *Built) {
			b.Defs.ProcessField[1].StartEventField[0].IdField = b.Defs.ProcessField[1].EndEventField[0].IdField
		}},
		{"duplicate id across processes", "C19/builder/duplicate-id", func(b *Built) {
			b.Defs.ProcessField[1].IdField = b.Defs.ProcessField[0].IdField
		}},
		{"dangling target", "C19/builder/flow-target-missing", func(b *Built) { b.Defs.ProcessField[0].SequenceFlowField[1].TargetRefField = "nope" }},
		{"target in other process", "C19/builder/flow-target-in-other-process", func(b *Built) {
			b.Defs.ProcessField[0].SequenceFlowField[2].TargetRefField = *b.Defs.ProcessField[1].EndEventField[0].IdField
		}},
		{"start has incoming", "C19/builder/start-has-incoming", func(b *Built) {
			b.Defs.ProcessField[0].StartEventField[0].IncomingField = []schema.QName{"x"}
		}},
		{"end has outgoing", "C19/builder/end-has-outgoing", func(b *Built) {
			b.Defs.ProcessField[0].EndEventField[0].OutgoingField = []schema.QName{"x"}
		}},
		{"order swapped", "C19/builder/chain/order", func(b *Built) { b.Acts[0][0], b.Acts[0][1] = b.Acts[0][1], b.Acts[0][0] }},
		{"second end event", "C19/builder/chain/end-count", func(b *Built) {
			p := &b.Defs.ProcessField[0]
			e := schema.DefaultEndEvent()
			e.IdField = schema.NewStringP("extra")
			p.EndEventField = append(p.EndEventField, e)
		}},
		{"participant missing", "C19/builder/participant-process-ref", func(b *Built) {
			c := &b.Defs.CollaborationField[0]
			c.ParticipantField = c.ParticipantField[:1]
		}},
		{"id not xml-safe", "C19/builder/roundtrip/node-ids", func(b *Built) {
			// an id that does not survive encoding (invalid UTF-8 is replaced by U+FFFD)
			p := &b.Defs.ProcessField[0]
			old := *p.TaskField[0].IdField
			bad := "bad\xff"
			p.TaskField[0].IdField = &bad
			b.Acts[0][0] = bad
			for i := range p.SequenceFlowField {
				if string(p.SequenceFlowField[i].SourceRefField) == old {
					p.SequenceFlowField[i].SourceRefField = bad
				}
				if string(p.SequenceFlowField[i].TargetRefField) == old {
					p.SequenceFlowField[i].TargetRefField = bad
				}
			}
			b.Defs.DiagramField = nil
		}},
		{"shape missing", "C19/layout/shape-count/missing", func(b *Built) { pl := plane(b); pl.BPMNShapeFields = pl.BPMNShapeFields[1:] }},
		{"shape duplicated", "C19/layout/shape-count/duplicate", func(b *Built) {
			pl := plane(b)
			pl.BPMNShapeFields = append(pl.BPMNShapeFields, pl.BPMNShapeFields[0])
		}},
		{"edge missing", "C19/layout/edge-count", func(b *Built) { pl := plane(b); pl.BPMNEdgeFields = pl.BPMNEdgeFields[1:] }},
		{"edge ref wrong", "C19/layout/edge-ref-dangling", func(b *Built) {
			pl := plane(b)
			pl.BPMNEdgeFields[0].BpmnElementField = pl.BPMNEdgeFields[0].SourceElementField
		}},
		{"shape ref wrong", "C19/layout/shape-ref-dangling", func(b *Built) {
			plane(b).BPMNShapeFields[0].BpmnElementField = schema.NewQName("nope")
		}},
		{"waypoint off source", "C19/layout/edge-not-on-source-shape", func(b *Built) {
			w := &plane(b).BPMNEdgeFields[0].WaypointField[0]
			w.SetX(w.X() + 1)
		}},
		{"waypoint off target", "C19/layout/edge-not-on-target-shape", func(b *Built) {
			wf := plane(b).BPMNEdgeFields[0].WaypointField
			w := &wf[len(wf)-1]
			w.SetX(w.X() - 0.5)
		}},
		{"non finite", "C19/layout/non-finite", func(b *Built) {
			bb := plane(b).BPMNShapeFields[0].Bounds()
			bb.SetX(bb.X() / 0 * 0)
		}},
		{"overlap in a process", "C19/layout/overlap/same-process", func(b *Built) {
			pl := plane(b)
			x := pl.BPMNShapeFields[1].Bounds().X()
			y := pl.BPMNShapeFields[1].Bounds().Y()
			pl.BPMNShapeFields[0].Bounds().SetX(x + 1)
			pl.BPMNShapeFields[0].Bounds().SetY(y + 1)
		}},
		{"plane ref", "C19/layout/plane-ref", func(b *Built) { plane(b).BpmnElementField = schema.NewQName(*b.Defs.ProcessField[0].IdField) }},
	}
	for _, c := range cases {
		got := sigsOf(t, base, c.mutate)
		if !has(got, c.want) {
			t.Errorf("%s: want %s, got %v", c.name, c.want, got)
		}
	}
}

func TestTouchingIsNotOverlap(t *testing.T) {
	a, b := rect{0, 0, 100, 80}, rect{100, 0, 100, 80}
	if overlap(a, b) {
		t.Fatal("rectangles sharing a border must not count as overlapping")
	}
	if !overlap(a, rect{99, 79, 10, 10}) {
		t.Fatal("interiors intersect")
	}
	if !a.contains(100, 40) || a.contains(100.1, 40) {
		t.Fatal("border inclusive, outside exclusive")
	}
}

func TestSpaceSizes(t *testing.T) {
	if n := len(allSeqs(fullAlphabet(nSupported), 0, 2)); n != 421 {
		t.Fatal(n)
	}
	if n := len(allSeqs(alphaA, 0, 8)); n != 511 {
		t.Fatal(n)
	}
	if n := len(grid(false)); n != 243 || grid(false)[0] != defaultLayout {
		t.Fatal(n, grid(false)[0])
	}
	if n := len(grid(true)); n != 3125 || grid(true)[0] != defaultLayout {
		t.Fatal(n)
	}
	for _, th := range []bool{false, true} {
		d := layoutDefs(th)
		if len(d) != 250 {
			t.Fatal(len(d))
		}
		seen := map[string]bool{}
		for _, s := range d {
			if seen[s.Key()] {
				t.Fatal("duplicate definitions in the layout universe: " + s.Key())
			}
			seen[s.Key()] = true
		}
	}
	if c := Corpus("quick"); len(c) != 421+(8+16+32+64) {
		t.Fatal(len(c))
	} else {
		for _, d := range c {
			if strings.Contains(d.Name, "|") || len(d.Defs.ProcessField) != 1 {
				t.Fatal("corpus documents are single-process")
			}
		}
	}
}
