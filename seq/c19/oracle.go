package c19

import (
	"encoding/xml"
	"fmt"
	"math"
	"reflect"
	"sort"
	"strings"

	"github.com/olive-io/bpmn/schema"
)

// sink receives a violation (signature at clause granularity, id-free message).
type sink func(sig, msg string)

// ---- structural view of a definitions ----

type nodeInfo struct {
	id  string
	typ string // Go type name: StartEvent, EndEvent, Task, ...
	in  []string
	out []string
}

type flowInfo struct{ id, src, tgt string }

type procInfo struct {
	id      string
	nodes   []nodeInfo // FlowElements() order, flow nodes only
	nodeIdx map[string]int
	flows   []flowInfo // SequenceFlowField order
	flowIdx map[string]int
	noID    int // flow nodes / flows without id
}

func strs(q *[]schema.QName) []string {
	if q == nil {
		return nil
	}
	out := make([]string, len(*q))
	for i, v := range *q {
		out[i] = string(v)
	}
	return out
}

// extract reads the process graphs through the schema accessors only (FlowElements, Id,
// Incomings, Outgoings, SequenceFlowField) - the same view the engine and the XML encoder have.
func extract(defs *schema.Definitions) []procInfo {
	out := make([]procInfo, 0, len(defs.ProcessField))
	for pi := range defs.ProcessField {
		p := &defs.ProcessField[pi]
		info := procInfo{nodeIdx: map[string]int{}, flowIdx: map[string]int{}}
		if p.IdField != nil {
			info.id = *p.IdField
		}
		for _, fe := range p.FlowElements() {
			fn, ok := fe.(schema.FlowNodeInterface)
			if !ok {
				continue
			}
			n := nodeInfo{typ: goTypeName(fn), in: strs(fn.Incomings()), out: strs(fn.Outgoings())}
			if id, present := fn.Id(); present && id != nil && *id != "" {
				n.id = *id
			} else {
				info.noID++
			}
			if _, dup := info.nodeIdx[n.id]; !dup {
				info.nodeIdx[n.id] = len(info.nodes)
			}
			info.nodes = append(info.nodes, n)
		}
		for i := range p.SequenceFlowField {
			f := &p.SequenceFlowField[i]
			fi := flowInfo{src: string(f.SourceRefField), tgt: string(f.TargetRefField)}
			if f.IdField != nil && *f.IdField != "" {
				fi.id = *f.IdField
			} else {
				info.noID++
			}
			if _, dup := info.flowIdx[fi.id]; !dup {
				info.flowIdx[fi.id] = len(info.flows)
			}
			info.flows = append(info.flows, fi)
		}
		out = append(out, info)
	}
	return out
}

// nodeName describes a node without using generated ids: "p0:Task[3]" = process 0, 4th flow node
// in FlowElements order.
func nodeName(pi int, p *procInfo, id string) string {
	if i, ok := p.nodeIdx[id]; ok {
		return fmt.Sprintf("p%d:%s[%d]", pi, p.nodes[i].typ, i)
	}
	return fmt.Sprintf("p%d:<no such node>", pi)
}

func count(list []string, v string) int {
	n := 0
	for _, x := range list {
		if x == v {
			n++
		}
	}
	return n
}

// ---- ids ----

type idOcc struct{ id, owner string }

var schemaPkg = reflect.TypeOf(schema.Definitions{}).PkgPath()

// collectIDs walks the whole definitions value and returns every non-nil `IdField` (BaseElement,
// DiagramElement, Definitions ...) with the name of the outermost schema struct that owns it.
func collectIDs(defs *schema.Definitions) []idOcc {
	var out []idOcc
	var walk func(v reflect.Value, owner string)
	walk = func(v reflect.Value, owner string) {
		switch v.Kind() {
		case reflect.Ptr, reflect.Interface:
			if !v.IsNil() {
				walk(v.Elem(), owner)
			}
		case reflect.Slice:
			if v.Type().Elem().Kind() == reflect.String || v.Type().Elem().Kind() == reflect.Uint8 {
				return
			}
			for i := 0; i < v.Len(); i++ {
				walk(v.Index(i), "")
			}
		case reflect.Struct:
			t := v.Type()
			if t.PkgPath() != schemaPkg {
				return
			}
			if owner == "" {
				owner = t.Name()
			}
			for i := 0; i < t.NumField(); i++ {
				f := t.Field(i)
				fv := v.Field(i)
				if f.Name == "IdField" && fv.Kind() == reflect.Ptr && fv.Type().Elem().Kind() == reflect.String {
					if !fv.IsNil() {
						out = append(out, idOcc{fv.Elem().String(), owner})
					}
					continue
				}
				if f.Anonymous {
					walk(fv, owner) // embedded base struct: same element
				} else {
					walk(fv, "")
				}
			}
		}
	}
	walk(reflect.ValueOf(defs), "")
	return out
}

// ---- well-formedness ----

// checkDefs evaluates the well-formedness clauses of C19 on a builder output.
//
// Interpretation choices:
//   - "ids are unique": every id attribute anywhere in the definitions (definitions, collaboration,
//     participants, processes, flow nodes, sequence flows, diagram, plane, shapes, edges) is distinct.
//     Preset ids are chosen distinct by the harness, so a duplicate is always the builder's.
//   - "both ends of every sequence flow exist": sourceRef/targetRef name a flow node of the SAME
//     process; "list it among their outgoing and incoming flows": exactly once.
//   - "start events have no incoming and end events no outgoing flow".
//   - executable shape (from "run to completion requesting the added activities once each in
//     insertion order"): every node but the start has an incoming and every node but the end an
//     outgoing flow, every incoming/outgoing entry names a flow of the process that really ends/starts
//     there, and the graph is the single chain start -> activities in insertion order -> end with
//     the activity ids and types the caller added.
//   - "with ... preset ids": an activity added with a preset id keeps it (it is "the added activity").
//   - README "If multiple processes are added, participants are generated under one collaboration":
//     one collaboration whose participants reference the processes one-to-one (k >= 2).
//
// b may be nil (then the chain is only checked for shape, not for ids/types). It returns false
// if an added activity is missing from a process (dependent clauses are then skipped for it).
func checkDefs(emit sink, defs *schema.Definitions, b *Built, wantProcs int) (info []procInfo, intact bool) {
	intact = true
	info = extract(defs)

	// ids unique
	seen := map[string]string{}
	for _, occ := range collectIDs(defs) {
		if occ.id == "" {
			emit("C19/builder/empty-id", fmt.Sprintf("%s has an empty id", occ.owner))
			continue
		}
		if prev, dup := seen[occ.id]; dup {
			emit("C19/builder/duplicate-id", fmt.Sprintf("a %s and a %s share one id", prev, occ.owner))
			continue
		}
		seen[occ.id] = occ.owner
	}
	if defs.IdField == nil || *defs.IdField == "" {
		emit("C19/builder/missing-id", "definitions has no id")
	}

	if len(info) != wantProcs {
		emit("C19/builder/process-count", fmt.Sprintf("%d processes added, %d in the definitions", wantProcs, len(info)))
	}

	// which process owns which node (for the "same process" clause)
	owner := map[string]int{}
	for pi := range info {
		for _, n := range info[pi].nodes {
			if _, ok := owner[n.id]; !ok && n.id != "" {
				owner[n.id] = pi
			}
		}
	}

	for pi := range info {
		p := &info[pi]
		if p.id == "" {
			emit("C19/builder/missing-id", fmt.Sprintf("process %d has no id", pi))
		}
		if p.noID > 0 {
			emit("C19/builder/missing-id", fmt.Sprintf("process %d: %d flow nodes/sequence flows without id", pi, p.noID))
		}

		// every added activity must be present as a flow node
		dropped := map[string]bool{}
		if b != nil && pi < len(b.Acts) {
			for j, id := range b.Acts[pi] {
				if id == "" {
					emit("C19/builder/missing-id", fmt.Sprintf("process %d: AddActivity #%d left the activity without id", pi, j))
					continue
				}
				if pi < len(b.Want) && b.Want[pi][j] != "" && id != b.Want[pi][j] {
					emit("C19/builder/preset-id-changed", fmt.Sprintf("process %d: AddActivity #%d replaced the id preset by the caller", pi, j))
				}
				if _, ok := p.nodeIdx[id]; !ok {
					dropped[id] = true
					intact = false
					emit("C19/builder/activity-dropped/"+typeNames[b.Types[pi][j]],
						fmt.Sprintf("process %d: activity #%d (%s) passed to AddActivity is not a flow node of the process", pi, j, typeNames[b.Types[pi][j]]))
				}
			}
		}
		suffix := func(id string) string {
			if dropped[id] {
				return "/dropped-activity"
			}
			return ""
		}

		for fi, f := range p.flows {
			// source end
			if si, ok := p.nodeIdx[f.src]; !ok || f.src == "" {
				if op, other := owner[f.src]; other && f.src != "" {
					emit("C19/builder/flow-source-in-other-process", fmt.Sprintf("process %d flow #%d: sourceRef is a node of process %d", pi, fi, op))
				} else {
					emit("C19/builder/flow-source-missing"+suffix(f.src), fmt.Sprintf("process %d flow #%d: sourceRef names no flow node", pi, fi))
				}
			} else {
				switch c := count(p.nodes[si].out, f.id); {
				case c == 0:
					emit("C19/builder/flow-not-listed-in-outgoing", fmt.Sprintf("process %d flow #%d: source %s does not list it in outgoing %d-entry list", pi, fi, nodeName(pi, p, f.src), len(p.nodes[si].out)))
				case c > 1:
					emit("C19/builder/flow-listed-twice-in-outgoing", fmt.Sprintf("process %d flow #%d: source %s lists it %d times", pi, fi, nodeName(pi, p, f.src), c))
				}
			}
			// target end
			if ti, ok := p.nodeIdx[f.tgt]; !ok || f.tgt == "" {
				if op, other := owner[f.tgt]; other && f.tgt != "" {
					emit("C19/builder/flow-target-in-other-process", fmt.Sprintf("process %d flow #%d: targetRef is a node of process %d", pi, fi, op))
				} else {
					emit("C19/builder/flow-target-missing"+suffix(f.tgt), fmt.Sprintf("process %d flow #%d: targetRef names no flow node", pi, fi))
				}
			} else {
				switch c := count(p.nodes[ti].in, f.id); {
				case c == 0:
					emit("C19/builder/flow-not-listed-in-incoming", fmt.Sprintf("process %d flow #%d: target %s does not list it in incoming %d-entry list", pi, fi, nodeName(pi, p, f.tgt), len(p.nodes[ti].in)))
				case c > 1:
					emit("C19/builder/flow-listed-twice-in-incoming", fmt.Sprintf("process %d flow #%d: target %s lists it %d times", pi, fi, nodeName(pi, p, f.tgt), c))
				}
			}
		}

		starts, ends := 0, 0
		for ni, n := range p.nodes {
			name := fmt.Sprintf("p%d:%s[%d]", pi, n.typ, ni)
			isStart, isEnd := n.typ == "StartEvent", n.typ == "EndEvent"
			if isStart {
				starts++
				if len(n.in) > 0 {
					emit("C19/builder/start-has-incoming", name+" has incoming flows")
				}
			} else if len(n.in) == 0 {
				emit("C19/builder/node-without-incoming", name+" has no incoming flow")
			}
			if isEnd {
				ends++
				if len(n.out) > 0 {
					emit("C19/builder/end-has-outgoing", name+" has outgoing flows")
				}
			} else if len(n.out) == 0 {
				emit("C19/builder/node-without-outgoing", name+" has no outgoing flow")
			}
			for _, fid := range n.in {
				if fi, ok := p.flowIdx[fid]; !ok {
					emit("C19/builder/incoming-entry-dangling", name+" lists an incoming flow that is not a sequence flow of the process")
				} else if p.flows[fi].tgt != n.id {
					emit("C19/builder/incoming-entry-mismatch", name+" lists an incoming flow whose targetRef is another node")
				}
			}
			for _, fid := range n.out {
				if fi, ok := p.flowIdx[fid]; !ok {
					emit("C19/builder/outgoing-entry-dangling", name+" lists an outgoing flow that is not a sequence flow of the process")
				} else if p.flows[fi].src != n.id {
					emit("C19/builder/outgoing-entry-mismatch", name+" lists an outgoing flow whose sourceRef is another node")
				}
			}
		}

		if len(dropped) > 0 {
			continue // chain clauses are consequences of the dropped activity
		}

		// single chain start -> activities in insertion order -> end
		if starts != 1 {
			emit("C19/builder/chain/start-count", fmt.Sprintf("process %d has %d start events", pi, starts))
			continue
		}
		if ends != 1 {
			emit("C19/builder/chain/end-count", fmt.Sprintf("process %d has %d end events", pi, ends))
			continue
		}
		var chainIDs, chainTypes []string
		cur := -1
		for ni, n := range p.nodes {
			if n.typ == "StartEvent" {
				cur = ni
			}
		}
		broken := false
		for steps := 0; ; steps++ {
			n := p.nodes[cur]
			if n.typ == "EndEvent" {
				break
			}
			if steps > len(p.nodes) {
				emit("C19/builder/chain/cycle", fmt.Sprintf("process %d: following outgoing flows from the start event never reaches the end event", pi))
				broken = true
				break
			}
			if len(n.out) != 1 {
				emit("C19/builder/chain/branch", fmt.Sprintf("process %d: p%d:%s[%d] has %d outgoing flows", pi, pi, n.typ, cur, len(n.out)))
				broken = true
				break
			}
			fi, ok := p.flowIdx[n.out[0]]
			if !ok {
				broken = true // reported above as outgoing-entry-dangling
				break
			}
			next, ok := p.nodeIdx[p.flows[fi].tgt]
			if !ok {
				broken = true // reported above as flow-target-missing
				break
			}
			if n.typ != "StartEvent" {
				chainIDs = append(chainIDs, n.id)
				chainTypes = append(chainTypes, n.typ)
			}
			cur = next
		}
		if broken {
			continue
		}
		if b != nil && pi < len(b.Acts) {
			want := b.Acts[pi]
			if len(chainIDs) != len(want) {
				emit("C19/builder/chain/length", fmt.Sprintf("process %d: %d activities added, chain start..end visits %d", pi, len(want), len(chainIDs)))
			} else {
				for j := range want {
					if chainIDs[j] != want[j] {
						emit("C19/builder/chain/order", fmt.Sprintf("process %d: chain position %d is not the activity added by call #%d", pi, j, j))
						break
					}
					if chainTypes[j] != typeNames[b.Types[pi][j]] {
						emit("C19/builder/chain/type", fmt.Sprintf("process %d: chain position %d is a %s, added a %s", pi, j, chainTypes[j], typeNames[b.Types[pi][j]]))
						break
					}
				}
			}
			if len(p.nodes) != len(want)+2 {
				emit("C19/builder/chain/node-count", fmt.Sprintf("process %d: %d flow nodes, expected %d", pi, len(p.nodes), len(want)+2))
			}
			if len(p.flows) != len(want)+1 {
				emit("C19/builder/chain/flow-count", fmt.Sprintf("process %d: %d sequence flows, expected %d", pi, len(p.flows), len(want)+1))
			}
		} else {
			if len(p.nodes) != len(chainIDs)+2 || len(p.flows) != len(chainIDs)+1 {
				emit("C19/builder/chain/node-count", fmt.Sprintf("process %d: %d nodes and %d flows outside the chain", pi, len(p.nodes)-len(chainIDs)-2, len(p.flows)-len(chainIDs)-1))
			}
		}
	}

	// collaboration / participants (README)
	if len(info) >= 2 {
		if len(defs.CollaborationField) != 1 {
			emit("C19/builder/participant-process-ref", fmt.Sprintf("%d processes but %d collaborations", len(info), len(defs.CollaborationField)))
		} else {
			parts := defs.CollaborationField[0].ParticipantField
			refs := map[string]int{}
			for i := range parts {
				if parts[i].ProcessRefField != nil {
					refs[string(*parts[i].ProcessRefField)]++
				}
			}
			ok := len(parts) == len(info)
			for pi := range info {
				if refs[info[pi].id] != 1 {
					ok = false
				}
			}
			if !ok {
				emit("C19/builder/participant-process-ref", fmt.Sprintf("%d processes, %d participants, not one participant per process", len(info), len(parts)))
			}
		}
	}
	return info, intact
}

// fingerprint is a canonical dump of ids and graph structure (used to detect that a result handed
// out earlier is changed by later builder calls).
func fingerprint(defs *schema.Definitions) string {
	var b strings.Builder
	if defs.IdField != nil {
		b.WriteString(*defs.IdField)
	}
	for _, p := range extract(defs) {
		fmt.Fprintf(&b, "\nP %s", p.id)
		for _, n := range p.nodes {
			fmt.Fprintf(&b, "\nN %s %s in=%v out=%v", n.typ, n.id, n.in, n.out)
		}
		for _, f := range p.flows {
			fmt.Fprintf(&b, "\nF %s %s->%s", f.id, f.src, f.tgt)
		}
	}
	for _, c := range defs.CollaborationField {
		for _, pt := range c.ParticipantField {
			if pt.ProcessRefField != nil {
				fmt.Fprintf(&b, "\nPT %s", string(*pt.ProcessRefField))
			}
		}
	}
	for _, s := range diagramDump(defs) {
		b.WriteString("\nD " + s)
	}
	return b.String()
}

// ---- XML round trip ----

// checkRoundTrip: xml.Marshal(defs) then schema.Parse must succeed and yield the same process ids,
// node ids (and element types), flow ids, source/target refs and incoming/outgoing lists; for a
// laid-out definitions also the same shapes/edges (bpmnElement, bounds, waypoints).
func checkRoundTrip(emit sink, defs *schema.Definitions, orig []procInfo) {
	var data []byte
	var err error
	if p := guard(func() { data, err = xml.Marshal(defs) }); p != "" {
		emit("C19/builder/panic/xml.Marshal", "xml.Marshal(definitions) panicked: "+p)
		return
	}
	if err != nil {
		emit("C19/builder/roundtrip/marshal-error", "xml.Marshal(definitions): "+err.Error())
		return
	}
	var back *schema.Definitions
	if p := guard(func() { back, err = schema.Parse(data) }); p != "" {
		emit("C19/builder/panic/schema.Parse", "schema.Parse(xml.Marshal(definitions)) panicked: "+p)
		return
	}
	if err != nil || back == nil {
		emit("C19/builder/roundtrip/parse-error", fmt.Sprintf("schema.Parse(xml.Marshal(definitions)): %v", err))
		return
	}
	got := extract(back)
	if len(got) != len(orig) {
		emit("C19/builder/roundtrip/process-count", fmt.Sprintf("%d processes before, %d after", len(orig), len(got)))
		return
	}
	str := func(p *string) string {
		if p == nil {
			return "<nil>"
		}
		return *p
	}
	if str(defs.IdField) != str(back.IdField) {
		emit("C19/builder/roundtrip/definitions-id", "definitions id changed")
	}
	for pi := range orig {
		a, b := &orig[pi], &got[pi]
		if a.id != b.id {
			emit("C19/builder/roundtrip/process-id", fmt.Sprintf("process %d id changed", pi))
		}
		an, bn := sortedNodes(a.nodes), sortedNodes(b.nodes)
		same := len(an) == len(bn)
		for i := 0; same && i < len(an); i++ {
			same = an[i].id == bn[i].id && an[i].typ == bn[i].typ
		}
		if !same {
			emit("C19/builder/roundtrip/node-ids", fmt.Sprintf("process %d: %d typed flow nodes before, %d after or different ids/types", pi, len(an), len(bn)))
		} else {
			for i := range an {
				if !reflect.DeepEqual(norm(an[i].in), norm(bn[i].in)) || !reflect.DeepEqual(norm(an[i].out), norm(bn[i].out)) {
					emit("C19/builder/roundtrip/incoming-outgoing", fmt.Sprintf("process %d: incoming/outgoing lists of a %s changed (in %d->%d, out %d->%d entries)", pi, an[i].typ, len(an[i].in), len(bn[i].in), len(an[i].out), len(bn[i].out)))
					break
				}
			}
		}
		same = len(a.flows) == len(b.flows)
		for i := 0; same && i < len(a.flows); i++ {
			same = a.flows[i].id == b.flows[i].id
		}
		if !same {
			emit("C19/builder/roundtrip/flow-ids", fmt.Sprintf("process %d: %d flows before, %d after or different ids", pi, len(a.flows), len(b.flows)))
		} else {
			for i := range a.flows {
				if a.flows[i] != b.flows[i] {
					emit("C19/builder/roundtrip/flow-refs", fmt.Sprintf("process %d flow #%d: sourceRef/targetRef changed", pi, i))
					break
				}
			}
		}
	}
	da, db := diagramDump(defs), diagramDump(back)
	if !reflect.DeepEqual(da, db) {
		emit("C19/layout/roundtrip/diagram", fmt.Sprintf("diagram changed: %d shape/edge records before, %d after, or different refs/coordinates", len(da), len(db)))
	}
}

func norm(s []string) []string {
	if len(s) == 0 {
		return nil
	}
	return s
}

func sortedNodes(n []nodeInfo) []nodeInfo {
	out := append([]nodeInfo(nil), n...)
	sort.SliceStable(out, func(i, j int) bool { return out[i].id < out[j].id })
	return out
}

func q(p *schema.QName) string {
	if p == nil {
		return "<nil>"
	}
	return string(*p)
}

// diagramDump lists plane reference, shapes and edges with references and coordinates.
func diagramDump(defs *schema.Definitions) []string {
	if defs.DiagramField == nil {
		return nil
	}
	out := []string{"diagram"}
	plane := defs.DiagramField.BPMNPlaneField
	if plane == nil {
		return out
	}
	out = append(out, "plane "+q(plane.BpmnElementField))
	for i := range plane.BPMNShapeFields {
		s := &plane.BPMNShapeFields[i]
		line := "shape " + q(s.BpmnElementField)
		if bb := s.Bounds(); bb != nil {
			line += fmt.Sprintf(" %v %v %v %v", bb.X(), bb.Y(), bb.Width(), bb.Height())
		}
		out = append(out, line)
	}
	for i := range plane.BPMNEdgeFields {
		e := &plane.BPMNEdgeFields[i]
		line := "edge " + q(e.BpmnElementField) + " " + q(e.SourceElementField) + " " + q(e.TargetElementField)
		for _, w := range e.WaypointField {
			line += fmt.Sprintf(" (%v,%v)", w.X(), w.Y())
		}
		out = append(out, line)
	}
	return out
}

// ---- layout ----

const eps = 1e-9

type rect struct{ x, y, w, h float64 }

func finite(vs ...float64) bool {
	for _, v := range vs {
		if math.IsNaN(v) || math.IsInf(v, 0) {
			return false
		}
	}
	return true
}

func (r rect) contains(px, py float64) bool {
	return px >= r.x-eps && px <= r.x+r.w+eps && py >= r.y-eps && py <= r.y+r.h+eps
}

// overlap: the open interiors intersect (by more than the tolerance in both axes).
func overlap(a, b rect) bool {
	return a.x+eps < b.x+b.w && b.x+eps < a.x+a.w && a.y+eps < b.y+b.h && b.y+eps < a.y+a.h
}

// checkLayout evaluates the AutoLayout clauses on defs.DiagramField for the graph `info`.
//
// Interpretation choices:
//   - "exactly one shape per flow node and one edge per sequence flow": the plane's BPMNShape list
//     references each flow node of every process exactly once and nothing else; same for BPMNEdge and
//     sequence flows (participants get no shape - the statement asks for none).
//   - "finite coordinates": x, y, width, height of every Bounds and x, y of every waypoint are
//     neither NaN nor +-Inf (the grid contains no value that overflows float64 by itself).
//   - "edge starts on its source shape": first waypoint inside or on the border of the bounds of the
//     shape of the flow's sourceRef (inclusive, tolerance 1e-9); last waypoint likewise for targetRef.
//   - "no two shapes overlapping whenever the configured gaps are at least the node sizes": premise =
//     ColumnGap >= widest emitted shape AND RowGap >= tallest emitted shape AND ProcessGap >= tallest
//     emitted shape; conclusion = no two shape rectangles have intersecting open interiors.
//     cfg == nil means "premise unknown" (overlap not evaluated) - used for nothing at present.
func checkLayout(emit sink, defs *schema.Definitions, info []procInfo, cfg *Layout) {
	if defs.DiagramField == nil || defs.DiagramField.BPMNPlaneField == nil {
		emit("C19/layout/no-diagram", "AutoLayout left no BPMNDiagram/BPMNPlane")
		return
	}
	plane := defs.DiagramField.BPMNPlaneField

	// plane reference resolves
	wantPlane := ""
	if len(info) >= 2 && len(defs.CollaborationField) > 0 && defs.CollaborationField[0].IdField != nil {
		wantPlane = *defs.CollaborationField[0].IdField
	} else if len(info) >= 1 {
		wantPlane = info[0].id
	}
	if plane.BpmnElementField == nil || string(*plane.BpmnElementField) != wantPlane || wantPlane == "" {
		emit("C19/layout/plane-ref", "plane bpmnElement does not reference the process (1 process) / the collaboration (2+ processes)")
	}

	type nodeRef struct{ pi, ni int }
	nodes := map[string]nodeRef{}
	flows := map[string]nodeRef{}
	nNodes, nFlows := 0, 0
	for pi := range info {
		for ni, n := range info[pi].nodes {
			nodes[n.id] = nodeRef{pi, ni}
			nNodes++
		}
		for fi, f := range info[pi].flows {
			flows[f.id] = nodeRef{pi, fi}
			nFlows++
		}
	}

	shapeOf := map[string]rect{}
	shapeCount := map[string]int{}
	type placed struct {
		r    rect
		pi   int
		name string
	}
	var all []placed
	maxW, maxH := 0.0, 0.0
	for i := range plane.BPMNShapeFields {
		s := &plane.BPMNShapeFields[i]
		ref := q(s.BpmnElementField)
		nr, ok := nodes[ref]
		if !ok || s.BpmnElementField == nil {
			emit("C19/layout/shape-ref-dangling", fmt.Sprintf("shape #%d: bpmnElement names no flow node", i))
			continue
		}
		shapeCount[ref]++
		bb := s.Bounds()
		if bb == nil {
			emit("C19/layout/shape-without-bounds", fmt.Sprintf("shape #%d has no bounds", i))
			continue
		}
		r := rect{bb.X(), bb.Y(), bb.Width(), bb.Height()}
		name := nodeName(nr.pi, &info[nr.pi], ref)
		if !finite(r.x, r.y, r.w, r.h) {
			emit("C19/layout/non-finite", fmt.Sprintf("shape of %s has bounds %+v", name, r))
			continue
		}
		if r.w <= 0 || r.h <= 0 {
			emit("C19/layout/empty-shape", fmt.Sprintf("shape of %s has size %gx%g", name, r.w, r.h))
		}
		if _, dup := shapeOf[ref]; !dup {
			shapeOf[ref] = r
		}
		all = append(all, placed{r, nr.pi, name})
		maxW, maxH = math.Max(maxW, r.w), math.Max(maxH, r.h)
	}
	if len(plane.BPMNShapeFields) != nNodes {
		emit("C19/layout/shape-count", fmt.Sprintf("%d flow nodes, %d shapes", nNodes, len(plane.BPMNShapeFields)))
	}
	for pi := range info {
		for ni, n := range info[pi].nodes {
			switch c := shapeCount[n.id]; {
			case c == 0:
				emit("C19/layout/shape-count/missing", fmt.Sprintf("p%d:%s[%d] has no shape", pi, n.typ, ni))
			case c > 1:
				emit("C19/layout/shape-count/duplicate", fmt.Sprintf("p%d:%s[%d] has %d shapes", pi, n.typ, ni, c))
			}
		}
	}

	edgeCount := map[string]int{}
	for i := range plane.BPMNEdgeFields {
		e := &plane.BPMNEdgeFields[i]
		ref := q(e.BpmnElementField)
		fr, ok := flows[ref]
		if !ok || e.BpmnElementField == nil {
			emit("C19/layout/edge-ref-dangling", fmt.Sprintf("edge #%d: bpmnElement names no sequence flow", i))
			continue
		}
		edgeCount[ref]++
		f := info[fr.pi].flows[fr.ni]
		name := fmt.Sprintf("edge of p%d flow #%d", fr.pi, fr.ni)
		if (e.SourceElementField != nil && string(*e.SourceElementField) != f.src) || (e.TargetElementField != nil && string(*e.TargetElementField) != f.tgt) {
			emit("C19/layout/edge-source-target-ref", name+": sourceElement/targetElement differ from the flow's sourceRef/targetRef")
		}
		wp := e.WaypointField
		okFinite := true
		for _, w := range wp {
			if !finite(w.X(), w.Y()) {
				okFinite = false
			}
		}
		if !okFinite {
			emit("C19/layout/non-finite", name+" has a non-finite waypoint")
			continue
		}
		if len(wp) < 2 {
			emit("C19/layout/edge-waypoints", fmt.Sprintf("%s has %d waypoints", name, len(wp)))
			continue
		}
		if sr, ok := shapeOf[f.src]; ok {
			if !sr.contains(wp[0].X(), wp[0].Y()) {
				emit("C19/layout/edge-not-on-source-shape", fmt.Sprintf("%s: first waypoint (%g,%g) outside source bounds %+v", name, wp[0].X(), wp[0].Y(), sr))
			}
		}
		if tr, ok := shapeOf[f.tgt]; ok {
			last := wp[len(wp)-1]
			if !tr.contains(last.X(), last.Y()) {
				emit("C19/layout/edge-not-on-target-shape", fmt.Sprintf("%s: last waypoint (%g,%g) outside target bounds %+v", name, last.X(), last.Y(), tr))
			}
		}
	}
	if len(plane.BPMNEdgeFields) != nFlows {
		emit("C19/layout/edge-count", fmt.Sprintf("%d sequence flows, %d edges", nFlows, len(plane.BPMNEdgeFields)))
	}
	for pi := range info {
		for fi, f := range info[pi].flows {
			switch c := edgeCount[f.id]; {
			case c == 0:
				emit("C19/layout/edge-count/missing", fmt.Sprintf("p%d flow #%d has no edge", pi, fi))
			case c > 1:
				emit("C19/layout/edge-count/duplicate", fmt.Sprintf("p%d flow #%d has %d edges", pi, fi, c))
			}
		}
	}

	if cfg != nil && cfg.ColumnGap >= maxW && cfg.RowGap >= maxH && cfg.ProcessGap >= maxH {
		for i := 0; i < len(all); i++ {
			for j := i + 1; j < len(all); j++ {
				if overlap(all[i].r, all[j].r) {
					kind := "same-process"
					if all[i].pi != all[j].pi {
						kind = "cross-process"
					}
					emit("C19/layout/overlap/"+kind, fmt.Sprintf("%s %+v overlaps %s %+v (gaps c=%g r=%g p=%g >= node sizes %gx%g)",
						all[i].name, all[i].r, all[j].name, all[j].r, cfg.ColumnGap, cfg.RowGap, cfg.ProcessGap, maxW, maxH))
					return
				}
			}
		}
	}
}
