// Stand-alone runner for the C14 sequential checker.
//
//	go run ./seq/c14/cmd -tier quick|thorough [-only substr] [-budget 600s]
//	go run ./seq/c14/cmd -replay /tmp/c14-replays/C14-xxxx.json
package main

import (
	"encoding/json"
	"flag"
	"fmt"
	"os"
	"strings"
	"time"

	"verif/harness/rep"
	"verif/seq/c14"
)

func main() {
	tier := flag.String("tier", "quick", "quick or thorough")
	only := flag.String("only", "", "run only Plains whose name contains this")
	budget := flag.Duration("budget", 30*time.Minute, "time budget")
	replay := flag.String("replay", "", "replay file written by a previous run")
	list := flag.Bool("list", false, "list Plains and weights")
	flag.Parse()

	if *replay != "" {
		doReplay(*replay)
		return
	}
	plains := c14.Plains(*tier)
	if *list {
		for _, p := range plains {
			fmt.Printf("%-40s weight=%d\n", p.Name, p.Weight)
		}
		return
	}
	t0 := time.Now()
	r := rep.New("C14", *tier, "/tmp/c14-replays", t0.Add(*budget))
	for _, p := range plains {
		if *only != "" && !strings.Contains(p.Name, *only) {
			continue
		}
		s0, st0 := r.States, r.Steps
		r.RunPlain(p)
		if r.States != s0 || r.Steps != st0 {
			r.PerScenario[len(r.PerScenario)-1] += fmt.Sprintf(" states=%d transitions=%d", r.States-s0, r.Steps-st0)
		}
	}
	r.Finish(t0)
	per := r.PerScenario
	r.PerScenario = nil
	b, _ := json.MarshalIndent(r, "", " ")
	fmt.Println(string(b))
	for _, l := range per {
		fmt.Println(l)
	}
	for _, v := range r.Violations {
		fmt.Printf("VIOLATION %s [%s]\n    %s\n    replay: %s\n", v.Sig, v.Scenario, v.Msg, v.Replay)
	}
	if len(r.Violations) > 0 {
		os.Exit(1)
	}
}

func doReplay(path string) {
	b, err := os.ReadFile(path)
	if err != nil {
		fmt.Fprintln(os.Stderr, err)
		os.Exit(2)
	}
	var f struct {
		Signature string `json:"signature"`
		Input     struct {
			Kind    string `json:"kind"`
			N       int    `json:"n"`
			Flavour string `json:"flavour"`
			History []int  `json:"history"`
		} `json:"input"`
	}
	if err := json.Unmarshal(b, &f); err != nil {
		fmt.Fprintln(os.Stderr, err)
		os.Exit(2)
	}
	steps, finding := c14.Replay(f.Input.Kind, f.Input.N, f.Input.Flavour, f.Input.History)
	for i, s := range steps {
		fmt.Printf("step %d: %-12s satisfied=%-5v chain=%2d counts=%v fired=%d %s\n", i, s.Event, s.Satisfied, s.Chain, s.Counts, s.Fired, s.Panic)
	}
	if finding == "" {
		fmt.Println("no finding (recorded: " + f.Signature + ")")
		return
	}
	fmt.Println("FINDING " + finding)
	os.Exit(1)
}
