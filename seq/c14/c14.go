// Package c14 is the bounded-exhaustive checker for property C14:
//
//	A catch event with several event definitions fires on any single matching event unless it is
//	parallel-multiple, in which case it fires only when every definition has been matched. Over
//	any history of events a parallel-multiple catch never fires more often than its least-matched
//	definition has been matched, has fired exactly k times whenever every definition has been
//	matched exactly k times, and an event matching no definition changes nothing.
//
// It drives the real logic.CatchEventSatisfier / logic.ThrowEventSatisfier objects of the
// repository (nothing of them is re-implemented) against a reference model that only counts.
//
// Two kinds of enumeration, both deterministic and exhaustive within their bound:
//
//  1. enum/...: every history of length 1..L over the alphabet {n matching events, 1 event that
//     matches no definition}, n = 1..4, by increasing length (so the first witness of a
//     signature is a shortest one). Every history is replayed on a fresh satisfier and the
//     oracle is evaluated after every prefix.
//  2. bfs/...: explicit-state breadth-first search to depth 12. A state is represented by the
//     shortest, lexicographically first history reaching it; a successor is computed by
//     replaying that history plus one event on a fresh satisfier (the objects are not copyable).
//
// The throw-event counterpart: schema.ThrowEventInterface has no parallelMultiple attribute and
// ThrowEventSatisfier.Satisfy (pkg/logic/throw_event.go) is the catch algorithm with the
// parallel-multiple branch always taken (fires on every match for one definition, otherwise
// only when every definition was matched). Its analogous contract therefore is the
// parallel-multiple contract, and that is what class "throw" checks.
package c14

import (
	"fmt"
	"reflect"
	"strconv"
	"strings"

	"github.com/olive-io/bpmn/schema"
	"github.com/olive-io/bpmn/v2/pkg/event"
	"github.com/olive-io/bpmn/v2/pkg/logic"

	"verif/harness/rep"
)

// ---------------------------------------------------------------------------------------------
// fixtures: the real objects under test
// ---------------------------------------------------------------------------------------------

const (
	kParallel = "parallel" // CatchEventSatisfier, parallelMultiple=true
	kPlain    = "plain"    // CatchEventSatisfier, parallelMultiple=false (plain multiple)
	kThrow    = "throw"    // ThrowEventSatisfier
)

const (
	fSig = "sig" // all definitions are signal event definitions d0..d(n-1); non-matching = signal "nomatch"
	fMix = "mix" // even labels are signals, odd labels are messages (so that EventDefinitions()
	// order differs from label order); non-matching = MESSAGE event named like signal d0
	fOp = "op" // all definitions are message event definitions of ONE message "m", told apart by
	// their operationRef: label 1 names no operation, label i != 1 names "op<i>"; an event matches
	// a definition iff message and operation agree (both absent, or equal); non-matching = message
	// "m" with an operation no definition names (n=1: with no operation)
)

// satisfier is the common surface of the two real satisfiers.
type satisfier interface {
	Satisfy(ev event.IEvent) (matched bool, chain int)
}

// fixture describes one (kind, n, flavour) configuration. events[0..n-1] match definition
// label i and nothing else; events[n] matches no definition.
type fixture struct {
	kind    string
	n       int
	flavour string
	events  []event.IEvent
	mk      func() satisfier
}

func defName(i int) string { return "d" + strconv.Itoa(i) }

func newFixture(kind string, n int, flavour string) *fixture {
	f := &fixture{kind: kind, n: n, flavour: flavour}
	var sigs []schema.SignalEventDefinition
	var msgs []schema.MessageEventDefinition
	for i := 0; i < n; i++ {
		name := schema.QName(defName(i))
		if flavour == fOp {
			m := schema.QName("m")
			d := schema.DefaultMessageEventDefinition()
			d.SetMessageRef(&m)
			var op *string
			if i != 1 {
				o := "op" + strconv.Itoa(i)
				q := schema.QName(o)
				d.SetOperationRef(&q)
				op = &o
			}
			msgs = append(msgs, d)
			f.events = append(f.events, event.NewMessageEvent("m", op))
			continue
		}
		if flavour == fMix && i%2 == 1 {
			d := schema.DefaultMessageEventDefinition()
			d.SetMessageRef(&name)
			msgs = append(msgs, d)
			f.events = append(f.events, event.NewMessageEvent(defName(i), nil))
		} else {
			d := schema.DefaultSignalEventDefinition()
			d.SetSignalRef(&name)
			sigs = append(sigs, d)
			f.events = append(f.events, event.NewSignalEvent(defName(i)))
		}
	}
	if flavour == fOp {
		if n == 1 {
			f.events = append(f.events, event.NewMessageEvent("m", nil))
		} else {
			other := "other"
			f.events = append(f.events, event.NewMessageEvent("m", &other))
		}
	} else if flavour == fMix {
		// same name as signal definition d0 but the wrong event type: matches nothing
		f.events = append(f.events, event.NewMessageEvent(defName(0), nil))
	} else {
		f.events = append(f.events, event.NewSignalEvent("nomatch"))
	}
	switch kind {
	case kParallel, kPlain:
		f.mk = func() satisfier {
			ce := schema.DefaultCatchEvent()
			if kind == kParallel {
				t := true
				ce.SetParallelMultiple(&t)
			} else if flavour == fMix {
				fl := false // explicit false; flavour sig leaves the attribute unset (default false)
				ce.SetParallelMultiple(&fl)
			}
			if len(msgs) > 0 {
				ce.SetMessageEventDefinitions(append([]schema.MessageEventDefinition(nil), msgs...))
			}
			ce.SetSignalEventDefinitions(append([]schema.SignalEventDefinition(nil), sigs...))
			return logic.NewCatchEventSatisfier(&ce, event.WrappingDefinitionInstanceBuilder)
		}
	case kThrow:
		f.mk = func() satisfier {
			te := schema.DefaultThrowEvent()
			if len(msgs) > 0 {
				te.SetMessageEventDefinitions(append([]schema.MessageEventDefinition(nil), msgs...))
			}
			te.SetSignalEventDefinitions(append([]schema.SignalEventDefinition(nil), sigs...))
			return logic.NewThrowEventSatisfier(&te, event.WrappingDefinitionInstanceBuilder)
		}
	default:
		panic("c14: unknown kind " + kind)
	}
	return f
}

// step is what one Satisfy call returned.
type step struct {
	sat    bool
	chain  int
	panicv string // non-empty: the repository code panicked
}

func safeSatisfy(s satisfier, ev event.IEvent) (st step) {
	defer func() {
		if p := recover(); p != nil {
			st = step{panicv: fmt.Sprint(p)}
		}
	}()
	m, c := s.Satisfy(ev)
	return step{sat: m, chain: c}
}

// replay runs hist on a fresh satisfier. out must have len(hist) room. It returns the satisfier
// (for state snapshots) and the number of steps executed (shorter than len(hist) after a panic,
// or 0 with a panic in out[0] if construction panicked).
func (f *fixture) replay(hist []int8, out []step) (s satisfier, done int) {
	defer func() {
		if p := recover(); p != nil {
			if len(out) > 0 {
				out[0] = step{panicv: "constructor: " + fmt.Sprint(p)}
			}
			s, done = nil, 0
		}
	}()
	s = f.mk()
	for i, e := range hist {
		out[i] = safeSatisfy(s, f.events[e])
		done = i + 1
		if out[i].panicv != "" {
			return s, done
		}
	}
	return s, done
}

// ---------------------------------------------------------------------------------------------
// reference model and oracle
// ---------------------------------------------------------------------------------------------

// finding is one oracle complaint; clause is the last component of the signature.
type finding struct {
	clause string
	at     int // index of the offending step in the history
	msg    string
}

// model is the boring reference: how often each definition was matched, how often the real
// object fired, plus a mirror of the documented chain bookkeeping (the way
// model/start_event_consumer.go mirrors it) used for the chain-index clause only.
type model struct {
	n        int
	counts   [4]int
	fired    int
	mirror   []uint8 // per open chain: bit set of definition labels filed under that chain index
	mirrorOK bool
}

func (m *model) reset(n int) {
	m.n = n
	m.counts = [4]int{}
	m.fired = 0
	m.mirror = m.mirror[:0]
	m.mirrorOK = true
}

func (m *model) minCount() int {
	mn := m.counts[0]
	for i := 1; i < m.n; i++ {
		if m.counts[i] < mn {
			mn = m.counts[i]
		}
	}
	return mn
}

func (m *model) allEqual() (int, bool) {
	for i := 1; i < m.n; i++ {
		if m.counts[i] != m.counts[0] {
			return 0, false
		}
	}
	return m.counts[0], true
}

// check evaluates the oracle over a replayed history, after every prefix. It stops at the first
// finding (the enumeration is by increasing length, so that is a shortest witness).
func (f *fixture) check(m *model, hist []int8, res []step, done int) *finding {
	m.reset(f.n)
	n := f.n
	full := uint8(1)<<uint(n) - 1
	if done < len(hist) && done == 0 && len(res) > 0 && res[0].panicv != "" {
		return &finding{"panic", 0, "panic in repository code: " + res[0].panicv}
	}
	for i := 0; i < done; i++ {
		e, r := int(hist[i]), res[i]
		if r.panicv != "" {
			return &finding{"panic", i, fmt.Sprintf("Satisfy panicked at step %d (event %s): %s", i, f.evName(e), r.panicv)}
		}
		if e == n { // the event that matches no definition
			if r.sat {
				return &finding{"nonmatching-fires", i, fmt.Sprintf("step %d: an event matching no definition returned satisfied=true", i)}
			}
			if r.chain != logic.EventDidNotMatch {
				return &finding{"chain-index", i, fmt.Sprintf("step %d: an event matching no definition returned chain=%d, documented EventDidNotMatch (-1)", i, r.chain)}
			}
			continue
		}
		m.counts[e]++
		if f.kind == kPlain {
			if !r.sat {
				return &finding{"fires-on-match", i, fmt.Sprintf("step %d: plain multiple catch did not fire on matching event %s", i, f.evName(e))}
			}
			if r.chain != 0 {
				return &finding{"chain-index", i, fmt.Sprintf("step %d: plain multiple catch returned chain=%d on a match, documented 0", i, r.chain)}
			}
			continue
		}
		// parallel-multiple contract (classes parallel and throw)
		if r.sat {
			m.fired++
		}
		if mn := m.minCount(); m.fired > mn {
			return &finding{"fires-more-than-min", i, fmt.Sprintf("after step %d: fired %d times but the least-matched definition was matched only %d times (counts %v)", i, m.fired, mn, m.counts[:n])}
		}
		if k, ok := m.allEqual(); ok && m.fired != k {
			return &finding{"fires-exactly-k", i, fmt.Sprintf("after step %d: every definition matched exactly %d times but fired %d times", i, k, m.fired)}
		}
		// chain index, as documented on Satisfy (and relied upon by model/start_event_consumer.go)
		if r.chain < 0 {
			return &finding{"chain-index", i, fmt.Sprintf("step %d: matching event %s returned chain=%d", i, f.evName(e), r.chain)}
		}
		if n == 1 {
			if r.chain != 0 {
				return &finding{"chain-index", i, fmt.Sprintf("step %d: single-definition satisfier returned chain=%d, documented 0", i, r.chain)}
			}
			continue
		}
		if m.mirrorOK {
			if r.chain > len(m.mirror) {
				return &finding{"chain-index", i, fmt.Sprintf("step %d: chain=%d skips an index (%d chains open in the mirror)", i, r.chain, len(m.mirror))}
			}
			if r.chain == len(m.mirror) {
				m.mirror = append(m.mirror, 0)
			}
			bit := uint8(1) << uint(e)
			if m.mirror[r.chain]&bit != 0 {
				return &finding{"chain-index", i, fmt.Sprintf("step %d: event %s filed under chain %d which already holds that definition (chains implied by the returned indices so far: %s)", i, f.evName(e), r.chain, mirrorString(m.mirror))}
			}
			m.mirror[r.chain] |= bit
			isFull := m.mirror[r.chain] == full
			if r.sat && !isFull {
				return &finding{"chain-index", i, fmt.Sprintf("step %d: fired on chain %d which by the returned indices holds only %s", i, r.chain, mirrorString(m.mirror[r.chain:r.chain+1]))}
			}
			if !r.sat && isFull {
				return &finding{"chain-index", i, fmt.Sprintf("step %d: chain %d is complete in the mirror but Satisfy did not fire", i, r.chain)}
			}
			if r.sat {
				last := len(m.mirror) - 1
				m.mirror[r.chain] = m.mirror[last]
				m.mirror = m.mirror[:last]
			}
		}
	}
	return nil
}

func mirrorString(m []uint8) string {
	var b strings.Builder
	b.WriteByte('[')
	for j, c := range m {
		if j > 0 {
			b.WriteByte(' ')
		}
		b.WriteByte('{')
		first := true
		for i := 0; i < 8; i++ {
			if c&(1<<uint(i)) != 0 {
				if !first {
					b.WriteByte(',')
				}
				first = false
				b.WriteString(defName(i))
			}
		}
		b.WriteByte('}')
	}
	b.WriteByte(']')
	return b.String()
}

func (f *fixture) evName(e int) string {
	if e == f.n {
		return "X(no match)"
	}
	return defName(e)
}

func (f *fixture) histString(h []int8) string {
	var b strings.Builder
	for i, e := range h {
		if i > 0 {
			b.WriteByte(' ')
		}
		if int(e) == f.n {
			b.WriteByte('X')
		} else {
			b.WriteString(defName(int(e)))
		}
	}
	return b.String()
}

func (f *fixture) input(h []int8) map[string]any {
	hi := make([]int, len(h))
	for i, e := range h {
		hi[i] = int(e)
	}
	return map[string]any{"kind": f.kind, "n": f.n, "flavour": f.flavour, "history": hi,
		"legend": fmt.Sprintf("0..%d = event matching definition d<i>; %d = event matching no definition", f.n-1, f.n)}
}

func (f *fixture) report(r *rep.Report, fd *finding, h []int8, where string) {
	sig := "C14/" + f.kind + "/" + fd.clause
	r.Violation(sig, fmt.Sprintf("%s n=%d %s, shortest failing history [%s] (%s): %s", f.kind, f.n, f.flavour, f.histString(h), where, fd.msg), f.input(h))
}

// ---------------------------------------------------------------------------------------------
// 1. exhaustive history enumeration
// ---------------------------------------------------------------------------------------------

func (f *fixture) tag() string {
	return string(f.kind[:2]) + strconv.Itoa(f.n) + f.flavour[:1] + ":"
}

func (f *fixture) enumerate(r *rep.Report, maxLen int) {
	n := f.n
	base := int8(n + 1)
	var m model
	hist := make([]int8, maxLen)
	res := make([]step, maxLen)
	filt := make([]int8, maxLen)
	fres := make([]step, maxLen)
	pos := make([]int, maxLen)
	keyBuf := make([]byte, 0, 32)
	tag := f.tag()
	var cases int64
	for L := 1; L <= maxLen; L++ {
		h := hist[:L]
		for i := range h {
			h[i] = 0
		}
		for {
			cases++
			if cases&4095 == 0 && r.Expired() {
				r.Cap(fmt.Sprintf("time budget: stopped in length %d of %d after %d histories", L, maxLen, cases))
				return
			}
			// ---- evaluate one history
			_, done := f.replay(h, res[:L])
			fd := f.check(&m, h, res[:L], done)
			if fd != nil {
				f.report(r, fd, h[:fd.at+1], "history enumeration")
			}
			// differential clause: removing the non-matching events changes nothing
			nf, distinct := 0, uint8(0)
			for i, e := range h {
				if int(e) != n {
					filt[nf] = e
					pos[nf] = i
					nf++
					distinct |= 1 << uint(e)
				}
			}
			if nf < L && (fd == nil || fd.clause != "panic") {
				_, fdone := f.replay(filt[:nf], fres[:nf])
				for j := 0; j < nf; j++ {
					var a, b step
					if pos[j] < done {
						a = res[pos[j]]
					} else {
						a = step{panicv: "not reached"}
					}
					if j < fdone {
						b = fres[j]
					} else {
						b = step{panicv: "not reached"}
					}
					if a != b {
						d := &finding{"nonmatching-changes-state", pos[j], fmt.Sprintf(
							"step %d (event %s) returned (satisfied=%v, chain=%d) but the same history with the non-matching events removed returns (satisfied=%v, chain=%d) at the corresponding step %d",
							pos[j], f.evName(int(h[pos[j]])), a.sat, a.chain, b.sat, b.chain, j)}
						f.report(r, d, h[:pos[j]+1], "history enumeration, differential")
						break
					}
				}
			}
			nd := 0
			for b := distinct; b != 0; b &= b - 1 {
				nd++
			}
			nontrivial := nd >= 2 || (n == 1 && nd == 1 && L >= 2)
			keyBuf = append(keyBuf[:0], tag...)
			for _, e := range h {
				keyBuf = append(keyBuf, byte('0'+e))
			}
			r.Case(string(keyBuf), nontrivial)
			if nontrivial && L >= 3 && L <= 5 && h[0] == 0 && h[L-1] == base-2 {
				r.Sample(map[string]any{"kind": f.kind, "n": n, "flavour": f.flavour, "history": f.histString(h), "results": resString(res[:done])})
			}
			// ---- next history of this length (odometer, last position fastest)
			i := L - 1
			for i >= 0 {
				h[i]++
				if h[i] < base {
					break
				}
				h[i] = 0
				i--
			}
			if i < 0 {
				break
			}
		}
	}
}

func resString(res []step) string {
	var b strings.Builder
	for i, s := range res {
		if i > 0 {
			b.WriteByte(' ')
		}
		if s.panicv != "" {
			b.WriteString("panic")
		} else if s.sat {
			fmt.Fprintf(&b, "FIRE/%d", s.chain)
		} else {
			fmt.Fprintf(&b, "-/%d", s.chain)
		}
	}
	return b.String()
}

// ---------------------------------------------------------------------------------------------
// 2. explicit-state BFS
// ---------------------------------------------------------------------------------------------

// snapshot reads the satisfier's private chain list (ordered list of bit sets) by reflection,
// read-only. ok=false if the layout is not the expected one.
func snapshot(s satisfier) (key string, ok bool) {
	defer func() {
		if recover() != nil {
			key, ok = "", false
		}
	}()
	v := reflect.ValueOf(s)
	if v.Kind() != reflect.Ptr || v.IsNil() {
		return "", false
	}
	ch := v.Elem().FieldByName("chains")
	if !ch.IsValid() || ch.Kind() != reflect.Slice {
		return "", false
	}
	var b strings.Builder
	for j := 0; j < ch.Len(); j++ {
		p := ch.Index(j)
		if p.Kind() != reflect.Ptr {
			return "", false
		}
		if p.IsNil() {
			b.WriteString("nil,")
			continue
		}
		set := p.Elem().FieldByName("set")
		if !set.IsValid() || set.Kind() != reflect.Slice {
			return "", false
		}
		for k := 0; k < set.Len(); k++ {
			fmt.Fprintf(&b, "%x.", set.Index(k).Uint())
		}
		b.WriteByte(',')
	}
	return b.String(), true
}

// stateKey is the canonical state of the history h (already replayed: s, res, model m after
// check).
//
// Justification. Satisfy is a deterministic function of (chains, event): the definitions, `len`
// and the embedded element are immutable after construction, and chains is the only field
// written. Hence two histories leaving the same ordered chain list have identical futures as far
// as the object is concerned (exact, not an abstraction). The oracle additionally depends on the
// history through count_i and fired; for the count clauses it depends on them only through the
// surplus vector count_i - fired (fired <= min  <=>  all surplus >= 0; "all counts == k =>
// fired == k"  <=>  "surplus all equal => all zero"), and for the chain-index clause through the
// mirror. So key = (surplus vector, mirror, chains) makes both the object and the oracle a
// function of the key, and de-duplicating on it loses no violation. If the private layout is not
// readable, the chain list is replaced by the results of probing with every sequence of matching
// events up to length 3 (an approximation; the Plain is then reported as capped).
func (f *fixture) stateKey(h []int8, s satisfier, m *model, probe bool) string {
	var b strings.Builder
	if f.kind != kPlain {
		for i := 0; i < f.n; i++ {
			fmt.Fprintf(&b, "%d,", m.counts[i]-m.fired)
		}
		b.WriteByte('|')
		for _, c := range m.mirror {
			fmt.Fprintf(&b, "%x,", c)
		}
		b.WriteByte('|')
	}
	if !probe {
		k, _ := snapshot(s)
		b.WriteString(k)
		return b.String()
	}
	// probing fallback
	buf := make([]int8, len(h)+3)
	copy(buf, h)
	out := make([]step, len(buf))
	var rec func(d int)
	rec = func(d int) {
		if d > 0 {
			_, done := f.replay(buf[:len(h)+d], out[:len(h)+d])
			if done == len(h)+d {
				b.WriteString(resString(out[len(h):done]))
			} else {
				b.WriteString("panic")
			}
			b.WriteByte(';')
		}
		if d == 3 {
			return
		}
		for e := 0; e < f.n; e++ {
			buf[len(h)+d] = int8(e)
			rec(d + 1)
		}
	}
	rec(0)
	return b.String()
}

// observableDifference looks for a shortest sequence of matching events (length <= n+1) that is
// answered differently after history a than after history b; "" if there is none.
func (f *fixture) observableDifference(a, b []int8) string {
	maxP := f.n + 1
	ha := append(append([]int8(nil), a...), make([]int8, maxP)...)
	hb := append(append([]int8(nil), b...), make([]int8, maxP)...)
	ra, rb := make([]step, len(ha)), make([]step, len(hb))
	p := make([]int8, maxP)
	for L := 1; L <= maxP; L++ {
		for i := 0; i < L; i++ {
			p[i] = 0
		}
		for {
			copy(ha[len(a):], p[:L])
			copy(hb[len(b):], p[:L])
			_, da := f.replay(ha[:len(a)+L], ra[:len(a)+L])
			_, db := f.replay(hb[:len(b)+L], rb[:len(b)+L])
			sa, sb := "panic", "panic"
			if da == len(a)+L {
				sa = resString(ra[len(a):da])
			}
			if db == len(b)+L {
				sb = resString(rb[len(b):db])
			}
			if sa != sb {
				return fmt.Sprintf("continuing with [%s] yields [%s] without the non-matching event but [%s] with it", f.histString(p[:L]), sa, sb)
			}
			i := L - 1
			for i >= 0 {
				p[i]++
				if int(p[i]) < f.n {
					break
				}
				p[i] = 0
				i--
			}
			if i < 0 {
				break
			}
		}
	}
	return ""
}

func (f *fixture) bfs(r *rep.Report, depth int) {
	n := f.n
	var m model
	res := make([]step, depth+1)
	// can the private state be read?
	s0, _ := f.replay(nil, nil)
	_, readable := snapshot(s0)
	probe := !readable
	if probe {
		r.Cap("private chain list not readable by reflection: states identified by probing to depth 3 (approximate)")
	}
	f.check(&m, nil, nil, 0)
	rootKey := f.stateKey(nil, s0, &m, probe)
	seen := map[string]bool{rootKey: true}
	type node struct {
		hist []int8
		key  string
	}
	frontier := []node{{nil, rootKey}}
	var states, transitions int64 = 1, 0
	var work int64
	perLevel := []int{1}
	for d := 0; d < depth && len(frontier) > 0; d++ {
		var next []node
		for _, nd := range frontier {
			for e := 0; e <= n; e++ {
				work++
				if work&1023 == 0 && r.Expired() {
					r.AddStates(states, transitions)
					r.Cap(fmt.Sprintf("time budget: BFS stopped at depth %d with %d states", d, states))
					return
				}
				h := make([]int8, len(nd.hist)+1)
				copy(h, nd.hist)
				h[len(nd.hist)] = int8(e)
				s, done := f.replay(h, res[:len(h)])
				fd := f.check(&m, h, res[:len(h)], done)
				transitions++
				tag := f.tag() + "bfs:"
				kb := make([]byte, 0, len(tag)+len(h))
				kb = append(kb, tag...)
				for _, x := range h {
					kb = append(kb, byte('0'+x))
				}
				r.Case(string(kb), true)
				if fd != nil {
					f.report(r, fd, h[:fd.at+1], "BFS")
					continue // do not expand beyond a violating transition
				}
				key := f.stateKey(h, s, &m, probe)
				if e == n && key != nd.key {
					// The private state changed. That alone is not what the property forbids
					// (it could be unobservable), so demand an observable witness: a sequence
					// of matching events answered differently with and without the X.
					if w := f.observableDifference(nd.hist, h); w != "" {
						f.report(r, &finding{"nonmatching-changes-state", len(h) - 1, fmt.Sprintf(
							"the event matching no definition changed the later behaviour (private state %q -> %q): %s", nd.key, key, w)}, h, "BFS")
					}
				}
				if !seen[key] {
					seen[key] = true
					states++
					next = append(next, node{h, key})
				}
			}
		}
		perLevel = append(perLevel, len(next))
		frontier = next
	}
	r.AddStates(states, transitions)
	r.Sample(map[string]any{"bfs": f.kind, "n": n, "depth": depth, "states": states, "transitions": transitions,
		"new_states_per_level": perLevel, "state_key": map[bool]string{false: "surplus|mirror|private chain list", true: "surplus|mirror|probe<=3"}[probe]})
}

// ---------------------------------------------------------------------------------------------
// Plains
// ---------------------------------------------------------------------------------------------

// Bounds returns (maximal history length for n definitions, BFS depth) of a tier. The property
// quantifies over histories up to length 9; quick stops one short of that for n<=4 (the BFS
// covers the rest), thorough covers it fully and goes beyond it for n<4 at similar cost.
func Bounds(tier string, n int) (maxLen, depth int) {
	if tier == "thorough" {
		return map[int]int{1: 16, 2: 13, 3: 10, 4: 9}[n], 24
	}
	return 8, 12
}

func pow(b, e int) int {
	p := 1
	for ; e > 0; e-- {
		p *= b
	}
	return p
}

// Plains returns the enumerations of the tier, one per (kind, n, flavour) so that they can run
// as independent jobs. Weight is roughly the number of Satisfy calls in units of 200k.
func Plains(tier string) []*rep.Plain {
	var out []*rep.Plain
	for _, kind := range []string{kParallel, kPlain, kThrow} {
		for n := 1; n <= 4; n++ {
			for _, fl := range []string{fSig, fMix, fOp} {
				if fl == fMix && n < 2 {
					continue
				}
				kind, n, fl := kind, n, fl
				maxLen, _ := Bounds(tier, n)
				if fl == fOp && maxLen > 7 {
					maxLen = 7 // the matching rule is per event: short histories suffice for it
				}
				w := 2*maxLen*pow(n+1, maxLen)/200000 + 1
				out = append(out, &rep.Plain{
					Name:   fmt.Sprintf("enum/%s/n%d/%s/len<=%d", kind, n, fl, maxLen),
					Weight: w,
					Run:    func(r *rep.Report) { newFixture(kind, n, fl).enumerate(r, maxLen) },
				})
			}
		}
	}
	for _, kind := range []string{kParallel, kPlain, kThrow} {
		for n := 1; n <= 4; n++ {
			kind, n := kind, n
			_, depth := Bounds(tier, n)
			w := 1
			if kind != kPlain {
				w = 1 + pow(n, 4)*depth*depth/4000
			}
			out = append(out, &rep.Plain{
				Name:   fmt.Sprintf("bfs/%s/n%d/depth%d", kind, n, depth),
				Weight: w,
				Run:    func(r *rep.Report) { newFixture(kind, n, fSig).bfs(r, depth) },
			})
		}
	}
	return out
}

// StepResult is one step of Replay.
type StepResult struct {
	Event     string `json:"event"`
	Satisfied bool   `json:"satisfied"`
	Chain     int    `json:"chain"`
	Panic     string `json:"panic,omitempty"`
	Counts    []int  `json:"counts"`
	Fired     int    `json:"fired"`
}

// Replay replays a recorded failing input (kind, n, flavour, history) on the real satisfier and
// returns the per-step results and the first oracle finding ("" if none).
func Replay(kind string, n int, flavour string, hist []int) ([]StepResult, string) {
	if flavour == "" {
		flavour = fSig
	}
	f := newFixture(kind, n, flavour)
	h := make([]int8, len(hist))
	for i, e := range hist {
		h[i] = int8(e)
	}
	res := make([]step, len(h))
	_, done := f.replay(h, res)
	var out []StepResult
	counts := make([]int, n)
	fired := 0
	for i := 0; i < done; i++ {
		if int(h[i]) < n {
			counts[h[i]]++
		}
		if res[i].sat {
			fired++
		}
		out = append(out, StepResult{f.evName(int(h[i])), res[i].sat, res[i].chain, res[i].panicv, append([]int(nil), counts...), fired})
	}
	var m model
	if fd := f.check(&m, h, res, done); fd != nil {
		return out, "C14/" + kind + "/" + fd.clause + ": " + fd.msg
	}
	return out, ""
}
