// Package c15 decides property C15 (XML round trip preserves the definitions model) by
// bounded-exhaustive enumeration of a finite document grammar plus all bundled .bpmn files.
//
// Round trip convention: m0 := Parse(xml0); xml1 := Marshal(m0); m1 := Parse(xml1).
// Required: m1 equivalent to m0; a deep copy of m0 taken before Marshal equivalent to m0 after
// Marshal; every element with an id (domain of schema.ExactId) is returned by FindBy(ExactId(id))
// in m0 and in m1, as the same kind of element (and the very element when the id is unique).
// Equivalence is a reflective deep comparison that ignores only leading/trailing white space of
// text payloads (absent == white-space-only) and nil-vs-empty slices.
//
// The clause "the engine behaves identically" is not checked here; Corpus exports the generated
// documents for a harness that runs the engine on m0 and m1.
package c15

import (
	"io/fs"
	"os"
	"path/filepath"
	"sort"
	"strings"
	"sync"

	"verif/harness/rep"
)

// RepoRoot is where the bundled .bpmn files are searched (read-only).
var RepoRoot = "/repo"

// Doc is one generated document.
type Doc struct {
	Name, XML  string
	Executable bool
}

// Stat is the per-Plain count summary kept for the stand-alone runner.
type Stat struct {
	Space          int   // size of the stated grid (documents)
	Docs           int64 // documents checked
	Elements       int64 // model elements (struct values) compared between m0 and m1
	IDs            int64 // FindBy(ExactId) look-ups (m0 and m1)
	OutsideIDs     int64 // ids on elements outside ExactId's domain (Definitions, Documentation, DI), not checked
	SelfCheckFails int64
}

var (
	statMu sync.Mutex
	statBy = map[string]Stat{}
)

// Stats returns the counts of all Plains run so far in this process.
func Stats() map[string]Stat {
	statMu.Lock()
	defer statMu.Unlock()
	out := map[string]Stat{}
	for k, v := range statBy {
		out[k] = v
	}
	return out
}

type group struct {
	name     string
	variants func(tier string) []variant
	weight   int
}

func groups() []group {
	return []group{
		{"activities", activityVariants, 30},
		{"gateways", gatewayVariants, 45},
		{"flows", flowVariants, 7},
		{"events", eventVariants, 10},
		{"subprocess", subprocessVariants, 1},
		{"data", dataVariants, 6},
		{"extensions", extensionVariants, 2},
		{"collaboration", collabVariants, 2},
		{"definitions", definitionsVariants, 1},
	}
}

type planned struct {
	v      variant
	nested bool
	weight int
}

// plan expands a group's variants into documents, simplest first. Every variant gives a flat
// document; variants that have a nested form give a second document with the body one level
// down in a sub-process (quick tier: only for variants with at most one optional feature).
func plan(g group, tier string) []planned {
	var out []planned
	for _, v := range g.variants(tier) {
		out = append(out, planned{v, false, v.weight})
		if !v.noNest && (thorough(tier) || v.weight <= 1) {
			out = append(out, planned{v, true, v.weight + 3})
		}
	}
	sort.SliceStable(out, func(i, j int) bool { return out[i].weight < out[j].weight })
	return out
}

func (p planned) name(g string) string {
	n := g + "/" + p.v.label
	if p.nested {
		n += "/nested"
	}
	return n
}

func (p planned) build() (xml0 string, exec bool, unmodelled map[triple]bool) {
	d := p.v.mk(p.nested)
	unmodelled = map[triple]bool{}
	d.root.unmodelled(unmodelled)
	return renderDoc(d.root, p.v.pretty), d.exec, unmodelled
}

// Corpus returns every generated document of the tier (all groups, in Plain order, simplest
// first within a group). Executable is true when every process of the document is marked
// isExecutable="true" and is a connected start-to-end flow graph built only from node kinds the
// engine instantiates; whether a run needs external stimuli (timers, signals, messages, user
// tasks) is visible from the name.
func Corpus(tier string) []Doc {
	var out []Doc
	for _, g := range groups() {
		for _, p := range plan(g, tier) {
			x, exec, _ := p.build()
			out = append(out, Doc{Name: p.name(g.name), XML: x, Executable: exec})
		}
	}
	return out
}

// Plains returns one enumeration per node-kind group plus one for the bundled files.
// Nontrivial rule for r.Case: the document contains anything beyond none-start event, plain
// task, none-end event and unconditional, unnamed sequence flows in a single flat process.
func Plains(tier string) []*rep.Plain {
	var ps []*rep.Plain
	for _, g := range groups() {
		g := g
		ps = append(ps, &rep.Plain{Name: "c15-" + g.name, Weight: g.weight, Run: func(r *rep.Report) { runGroup(r, g, tier) }})
	}
	ps = append(ps, &rep.Plain{Name: "c15-bundled", Weight: 1, Run: runBundled})
	return ps
}

// Extras returns enumerations outside the property's stated quantifier (other event
// definitions, lanes, artifacts, loop characteristics). They are not part of Plains.
func Extras(tier string) []*rep.Plain {
	g := group{"extras", extraVariants, 1}
	return []*rep.Plain{{Name: "c15-extras", Weight: 1, Run: func(r *rep.Report) { runGroup(r, g, tier) }}}
}

func runGroup(r *rep.Report, g group, tier string) {
	docs := plan(g, tier)
	st := &stats{}
	var selfFails int64
	var firstFail string
	sampled := 0
	done := 0
	for _, p := range docs {
		if r.Expired() {
			r.Cap("time budget: " + itoa(len(docs)-done) + " of " + itoa(len(docs)) + " documents not checked")
			break
		}
		name := p.name(g.name)
		xml0, _, unmodelled := p.build()
		oc := checkDoc(r, st, name, xml0, true)
		if oc.xml1 != "" {
			if miss := selfCheck(xml0, oc.xml1, unmodelled); len(miss) > 0 && oc.violations == 0 {
				selfFails++
				if firstFail == "" {
					firstFail = name + ": " + strings.Join(miss, "; ")
				}
			}
		}
		nontrivial := !(p.v.trivial && !p.nested)
		r.Case(name, nontrivial)
		if nontrivial && sampled < 2 && (done == 1 || done == len(docs)/2) {
			sampled++
			r.Sample(map[string]any{"name": name, "excerpt": excerpt(xml0[strings.Index(xml0, "<bpmn:process"):], 400)})
		}
		done++
	}
	if selfFails > 0 {
		r.Cap("generator self-check: " + itoa(int(selfFails)) + " documents contain items that neither reach the model nor are declared unmodelled, e.g. " + firstFail)
	}
	statMu.Lock()
	statBy["c15-"+g.name] = Stat{Space: len(docs), Docs: st.Docs, Elements: st.Elements, IDs: st.IDs, OutsideIDs: st.OutsideIDs, SelfCheckFails: selfFails}
	statMu.Unlock()
}

func itoa(n int) string {
	if n == 0 {
		return "0"
	}
	neg := n < 0
	if neg {
		n = -n
	}
	var b []byte
	for n > 0 {
		b = append([]byte{byte('0' + n%10)}, b...)
		n /= 10
	}
	if neg {
		b = append([]byte{'-'}, b...)
	}
	return string(b)
}

// BundledFiles lists every .bpmn file under RepoRoot, sorted.
func BundledFiles() []string {
	var files []string
	filepath.WalkDir(RepoRoot, func(path string, d fs.DirEntry, err error) error {
		if err != nil {
			return nil
		}
		if d.IsDir() && strings.HasPrefix(d.Name(), ".") && path != RepoRoot {
			return filepath.SkipDir
		}
		if !d.IsDir() && strings.HasSuffix(path, ".bpmn") {
			files = append(files, path)
		}
		return nil
	})
	sort.Strings(files)
	return files
}

// runBundled round-trips every bundled file. The parsed model is compared with its own round
// trip, so XML the schema does not model (foreign extension namespaces, extra diagrams) never
// enters the comparison.
func runBundled(r *rep.Report) {
	files := BundledFiles()
	st := &stats{}
	if len(files) == 0 {
		r.Cap("no .bpmn files found under " + RepoRoot)
	}
	for i, f := range files {
		if r.Expired() {
			r.Cap("time budget: " + itoa(len(files)-i) + " of " + itoa(len(files)) + " bundled files not checked")
			break
		}
		data, err := os.ReadFile(f)
		if err != nil {
			r.Cap("cannot read " + f + ": " + err.Error())
			continue
		}
		name := "bundled/" + strings.TrimPrefix(f, RepoRoot+"/")
		checkDoc(r, st, name, string(data), false)
		r.Case(name, true)
		if i == 0 {
			r.Sample(map[string]any{"name": name, "bytes": len(data)})
		}
	}
	statMu.Lock()
	statBy["c15-bundled"] = Stat{Space: len(files), Docs: st.Docs, Elements: st.Elements, IDs: st.IDs, OutsideIDs: st.OutsideIDs}
	statMu.Unlock()
}
