package c15

import (
	"fmt"
	"sort"
	"strings"
)

const (
	nsBPMN    = "http://www.omg.org/spec/BPMN/20100524/MODEL"
	nsOlive   = "http://olive.io/spec/BPMN/MODEL"
	nsXSI     = "http://www.w3.org/2001/XMLSchema-instance"
	nsXSD     = "http://www.w3.org/2001/XMLSchema"
	langExpr  = "https://github.com/expr-lang/expr"
	langXPath = "http://www.w3.org/1999/XPath"
)

// ctx collects the flow elements of one container (process or sub-process) and the root
// elements the body needs (signals, messages, ...). p is the id prefix of the container.
type ctx struct {
	p     string
	flow  []*el
	roots []*el
	have  map[string]bool
}

func (c *ctx) id(s string) string { return c.p + s }
func (c *ctx) put(e ...*el)       { c.flow = append(c.flow, e...) }

// root adds a root element once (root ids are global, never prefixed).
func (c *ctx) root(id string, mk func() *el) {
	if c.have == nil {
		c.have = map[string]bool{}
	}
	if !c.have[id] {
		c.have[id] = true
		c.roots = append(c.roots, mk())
	}
}

func (c *ctx) needSignal() {
	c.root("sig1", func() *el { return E("bpmn:signal", A("id", "sig1"), A("name", "S1")) })
}
func (c *ctx) needMessage() {
	c.root("msg1", func() *el { return E("bpmn:message", A("id", "msg1"), A("name", "M1")) })
}
func (c *ctx) needItemDef() {
	c.root("item1", func() *el { return E("bpmn:itemDefinition", A("id", "item1"), A("structureRef", "xsd:string")) })
}
func (c *ctx) needOperation() {
	c.needMessage()
	c.root("if1", func() *el {
		return E("bpmn:interface", A("id", "if1"), A("name", "I1")).add(
			E("bpmn:operation", A("id", "op1"), A("name", "O1")).add(E("bpmn:inMessageRef").txt("msg1")))
	})
}

// node builds a flow node with its incoming/outgoing children (ids already prefixed).
func (c *ctx) node(tag, id string, in, out []string, attrs ...attr) *el {
	e := E(tag, A("id", c.id(id))).with(attrs...)
	for _, i := range in {
		e.add(E("bpmn:incoming").txt(c.id(i)))
	}
	for _, o := range out {
		e.add(E("bpmn:outgoing").txt(c.id(o)))
	}
	return e
}

func (c *ctx) seq(id, src, dst string, attrs ...attr) *el {
	return E("bpmn:sequenceFlow", A("id", c.id(id)), A("sourceRef", c.id(src)), A("targetRef", c.id(dst))).with(attrs...)
}

func ss(s ...string) []string { return s }

// chain puts start -> mid -> end with flows f1, f2 into the container.
func (c *ctx) chain(mid *el) (f1, f2 *el) {
	f1, f2 = c.seq("f1", "start", "x"), c.seq("f2", "x", "end")
	c.put(c.node("bpmn:startEvent", "start", nil, ss("f1")), mid, c.node("bpmn:endEvent", "end", ss("f2"), nil), f1, f2)
	return
}

// fixRefs rewrites attribute values that refer to ids of the same container.
func (c *ctx) fixRefs(attrs []attr, keys ...string) []attr {
	out := append([]attr{}, attrs...)
	for i := range out {
		for _, k := range keys {
			if out[i].k == k {
				out[i].v = c.id(out[i].v)
			}
		}
	}
	return out
}

// ---- expressions ----

type exprVar struct {
	label  string
	weight int
	mk     func(tag string) *el // nil: no expression
	formal bool
}

// text with every character XML escapes in element content; valid XPath (the default language of
// the generated documents) and true: an invalid expression makes the un-instrumented third-party
// parser print a map-ordered error text, which differs between two runs of the same model
const trickyText = `2 > 1 and 1 < 2 and "a&&b" = "a&&b"`

// text whose inner white space matters: a string literal with two blanks, a tab and a line break
// inside the payload (only *surrounding* white space is outside the comparison)
// (valid XPath, the default language of the generated documents, and true)
const spacedText = "\"a  b\" = \"a  b\" and\n\t1 = 1"

func exprVariants(full bool) []exprVar {
	mk := func(text string, attrs ...attr) func(string) *el {
		return func(tag string) *el { return E(tag, attrs...).txt(text) }
	}
	formalT := A("xsi:type", "bpmn:tFormalExpression")
	vs := []exprVar{
		{"none", 0, nil, false},
		{"informal", 1, mk("true"), false},
		{"formal", 1, mk("true", formalT), true},
		{"formal+expr", 2, mk("true", formalT, A("language", langExpr)), true},
		{"formal-inner-whitespace", 2, mk(spacedText, formalT), true},
	}
	if full {
		vs = append(vs,
			exprVar{"informal+lang", 2, mk("true", attr{"language", langExpr, true}), false},
			exprVar{"informal-explicit", 2, mk("true", A("xsi:type", "bpmn:tExpression")), false},
			exprVar{"informal-escaped", 2, mk(trickyText), false},
			exprVar{"formal+xpath", 2, mk("1=1", formalT, A("language", langXPath)), true},
			exprVar{"formal-unprefixed", 2, mk("true", A("xsi:type", "tFormalExpression")), true},
			exprVar{"formal-escaped", 2, mk(trickyText, formalT), true},
			exprVar{"formal+evaluatesTo", 2, mk("true", formalT, A("evaluatesToTypeRef", "xsd:boolean")), true},
		)
	}
	return vs
}

// ---- variants ----

// gdoc is one generated document before rendering.
type gdoc struct {
	root *el
	exec bool
}

// variant is one point of a Plain's grid. mk(nested) builds the document with the body placed
// directly in the process or one level down inside a sub-process.
type variant struct {
	label   string
	weight  int
	trivial bool
	pretty  bool
	mk      func(nested bool) gdoc
	noNest  bool // the variant has no nested form
}

func definitions(attrs ...attr) *el {
	base := []attr{
		A("xmlns:bpmn", nsBPMN), A("xmlns:olive", nsOlive), A("xmlns:xsi", nsXSI), A("xmlns:xsd", nsXSD),
		A("id", "defs"), A("targetNamespace", "http://bpmn.io/schema/bpmn"),
	}
	return E("bpmn:definitions", append(base, attrs...)...)
}

// procDoc wraps a body into a one-process document, flat or nested.
func procDoc(nested bool, body func(c *ctx)) gdoc {
	proc := E("bpmn:process", A("id", "proc"), A("isExecutable", "true"))
	var roots []*el
	if !nested {
		c := &ctx{}
		body(c)
		proc.add(c.flow...)
		roots = c.roots
	} else {
		in := &ctx{p: "n_"}
		body(in)
		out := &ctx{}
		sub := out.node("bpmn:subProcess", "x", ss("f1"), ss("f2")).add(in.flow...)
		out.chain(sub)
		proc.add(out.flow...)
		roots = in.roots
	}
	return gdoc{root: definitions().add(roots...).add(proc), exec: true}
}

func bodyVariant(label string, weight int, body func(c *ctx)) variant {
	return variant{label: label, weight: weight, mk: func(n bool) gdoc { return procDoc(n, body) }}
}

func sortVariants(vs []variant) []variant {
	sort.SliceStable(vs, func(i, j int) bool { return vs[i].weight < vs[j].weight })
	return vs
}

func thorough(tier string) bool { return tier == "thorough" }

// ---- group: activities ----

type kindSpec struct {
	tag  string
	opts []opt
}

func activityKinds(tier string) []kindSpec {
	common := []opt{O("name", "Task A")}
	if thorough(tier) {
		common = append(common, O("isForCompensation", boolVals...), O("startQuantity", "2"), O("completionQuantity", "1"), O("default", "f2"))
	}
	impl := O("implementation", "##WebService")
	cat := func(a []opt, b ...opt) []opt { return append(append([]opt{}, a...), b...) }
	return []kindSpec{
		{"bpmn:task", common},
		{"bpmn:serviceTask", cat(common, impl, O("operationRef", "op1"))},
		{"bpmn:userTask", cat(common, impl)},
		{"bpmn:scriptTask", cat(common, O("scriptFormat", "text/x-groovy"), O("#script", "1+1"))},
		{"bpmn:sendTask", cat(common, impl, O("messageRef", "msg1"), O("operationRef", "op1"))},
		{"bpmn:receiveTask", cat(common, impl, O("instantiate", boolVals...), O("messageRef", "msg1"), O("operationRef", "op1"))},
		{"bpmn:manualTask", common},
		{"bpmn:businessRuleTask", cat(common, impl)},
		{"bpmn:callActivity", cat(common, O("calledElement", "other_process"))},
	}
}

// activityEl builds the activity from a pick; pseudo-attributes starting with # are children.
func activityEl(c *ctx, tag string, p pick) *el {
	var attrs []attr
	var script string
	for _, a := range p.attrs {
		switch a.k {
		case "#script":
			script = a.v
		case "default":
			attrs = append(attrs, A("default", c.id(a.v)))
		case "messageRef":
			c.needMessage()
			attrs = append(attrs, a)
		case "operationRef":
			c.needOperation()
			attrs = append(attrs, a)
		default:
			attrs = append(attrs, a)
		}
	}
	e := c.node(tag, "x", ss("f1"), ss("f2"), attrs...)
	if script != "" {
		e.add(E("bpmn:script").txt(script))
	}
	return e
}

func activityVariants(tier string) []variant {
	var vs []variant
	for _, k := range activityKinds(tier) {
		k := k
		for _, p := range grid(k.opts) {
			p := p
			v := bodyVariant(local(k.tag)+"["+p.label+"]", p.weight, func(c *ctx) { c.chain(activityEl(c, k.tag, p)) })
			v.trivial = k.tag == "bpmn:task" && p.weight == 0
			vs = append(vs, v)
		}
	}
	return sortVariants(vs)
}

// ---- group: gateways ----

func gatewayBody(tag string, p pick, ca, cb exprVar) func(c *ctx) {
	return func(c *ctx) {
		attrs := c.fixRefs(p.attrs, "default")
		g := c.node(tag, "x", ss("f1"), ss("fa", "fb"), attrs...)
		fa, fb := c.seq("fa", "x", "a"), c.seq("fb", "x", "b")
		if ca.mk != nil {
			fa.add(ca.mk("bpmn:conditionExpression"))
		}
		if cb.mk != nil {
			fb.add(cb.mk("bpmn:conditionExpression"))
		}
		var a, b *el
		if tag == "bpmn:eventBasedGateway" {
			c.needSignal()
			a = c.node("bpmn:intermediateCatchEvent", "a", ss("fa"), ss("fc")).add(E("bpmn:signalEventDefinition", A("id", c.id("sd")), A("signalRef", "sig1")))
			b = c.node("bpmn:intermediateCatchEvent", "b", ss("fb"), ss("fd")).add(
				E("bpmn:timerEventDefinition", A("id", c.id("td"))).add(E("bpmn:timeDuration").txt("PT1S")))
		} else {
			a = c.node("bpmn:task", "a", ss("fa"), ss("fc"))
			b = c.node("bpmn:task", "b", ss("fb"), ss("fd"))
		}
		c.put(c.node("bpmn:startEvent", "start", nil, ss("f1")), g, a, b,
			c.node("bpmn:endEvent", "end", ss("fc", "fd"), nil),
			c.seq("f1", "start", "x"), fa, fb, c.seq("fc", "a", "end"), c.seq("fd", "b", "end"))
	}
}

func gatewayVariants(tier string) []variant {
	full := thorough(tier)
	var vs []variant
	none := exprVariants(false)[0]
	dirs := O("gatewayDirection", "Diverging")
	allDirs := O("gatewayDirection", "Unspecified", "Converging", "Diverging", "Mixed")
	for _, tag := range []string{"bpmn:exclusiveGateway", "bpmn:inclusiveGateway"} {
		tag := tag
		def := O("default", "fa")
		if full {
			def = O("default", "fa", "fb")
		}
		for _, p := range grid([]opt{O("name", "G"), dirs, def}) {
			for _, ca := range exprVariants(full) {
				for _, cb := range exprVariants(full) {
					p, ca, cb := p, ca, cb
					vs = append(vs, bodyVariant(fmt.Sprintf("%s[%s|fa:%s|fb:%s]", local(tag), p.label, ca.label, cb.label),
						p.weight+ca.weight+cb.weight, gatewayBody(tag, p, ca, cb)))
				}
			}
		}
	}
	pd := dirs
	if full {
		pd = allDirs
	}
	for _, p := range grid([]opt{O("name", "G"), pd}) {
		p := p
		vs = append(vs, bodyVariant("parallelGateway["+p.label+"]", p.weight, gatewayBody("bpmn:parallelGateway", p, none, none)))
	}
	eo := []opt{O("name", "G"), O("instantiate", boolVals...), O("eventGatewayType", "Exclusive", "Parallel")}
	if full {
		eo = append(eo, dirs)
	}
	for _, p := range grid(eo) {
		p := p
		vs = append(vs, bodyVariant("eventBasedGateway["+p.label+"]", p.weight, gatewayBody("bpmn:eventBasedGateway", p, none, none)))
	}
	// fork/join pair of each routing kind
	for _, tag := range []string{"bpmn:exclusiveGateway", "bpmn:inclusiveGateway", "bpmn:parallelGateway"} {
		tag := tag
		vs = append(vs, bodyVariant(local(tag)+"[fork-join]", 2, func(c *ctx) {
			c.put(c.node("bpmn:startEvent", "start", nil, ss("f1")),
				c.node(tag, "x", ss("f1"), ss("fa", "fb"), A("gatewayDirection", "Diverging")),
				c.node("bpmn:task", "a", ss("fa"), ss("fc")), c.node("bpmn:task", "b", ss("fb"), ss("fd")),
				c.node(tag, "j", ss("fc", "fd"), ss("f2"), A("gatewayDirection", "Converging")),
				c.node("bpmn:endEvent", "end", ss("f2"), nil),
				c.seq("f1", "start", "x"), c.seq("fa", "x", "a"), c.seq("fb", "x", "b"),
				c.seq("fc", "a", "j"), c.seq("fd", "b", "j"), c.seq("f2", "j", "end"))
		}))
	}
	return sortVariants(vs)
}

// ---- group: sequence flows ----

func flowVariants(tier string) []variant {
	full := thorough(tier)
	var vs []variant
	fo := []opt{O("name", "F")}
	if full {
		fo = append(fo, O("isImmediate", boolVals...))
	}
	for _, p := range grid(fo) {
		for _, c1 := range exprVariants(full) {
			for _, c2 := range exprVariants(full) {
				p, c1, c2 := p, c1, c2
				v := bodyVariant(fmt.Sprintf("flow[%s|f1:%s|f2:%s]", p.label, c1.label, c2.label), p.weight+c1.weight+c2.weight, func(c *ctx) {
					f1, f2 := c.chain(c.node("bpmn:task", "x", ss("f1"), ss("f2")))
					f1.with(p.attrs...)
					if c1.mk != nil {
						f1.add(c1.mk("bpmn:conditionExpression"))
					}
					if c2.mk != nil {
						f2.add(c2.mk("bpmn:conditionExpression"))
					}
				})
				v.trivial = v.weight == 0
				vs = append(vs, v)
			}
		}
	}
	return sortVariants(vs)
}

// ---- group: events ----

type defVar struct {
	label  string
	weight int
	add    func(c *ctx, ev *el)
}

func timerDef(c *ctx, n int, kind string, ev exprVar) *el {
	return E("bpmn:timerEventDefinition", A("id", fmt.Sprintf("%std%d", c.p, n))).add(ev.mk("bpmn:" + kind))
}

var timerText = map[string]string{"timeDate": "2030-01-01T00:00:00Z", "timeDuration": "PT1S", "timeCycle": "R3/PT1S"}

func timerExprVariants(full bool) []exprVar {
	formalT := A("xsi:type", "bpmn:tFormalExpression")
	mk := func(attrs ...attr) func(string) *el {
		return func(tag string) *el { return E(tag, attrs...).txt(timerText[local(tag)]) }
	}
	vs := []exprVar{{"informal", 0, mk(), false}, {"formal", 1, mk(formalT), true}}
	if full {
		vs = append(vs, exprVar{"formal+expr", 2, mk(formalT, A("language", langExpr)), true},
			exprVar{"formal-unprefixed", 2, mk(A("xsi:type", "tFormalExpression")), true})
	}
	return vs
}

func signalDef(ref bool) func(c *ctx, ev *el) {
	return func(c *ctx, ev *el) {
		d := E("bpmn:signalEventDefinition", A("id", c.id("sd")))
		if ref {
			c.needSignal()
			d.with(A("signalRef", "sig1"))
		}
		ev.add(d)
	}
}

func messageDef(ref bool) func(c *ctx, ev *el) {
	return func(c *ctx, ev *el) {
		d := E("bpmn:messageEventDefinition", A("id", c.id("md")))
		if ref {
			c.needMessage()
			d.with(A("messageRef", "msg1"))
		}
		ev.add(d)
	}
}

func defVariants(tier string, catching bool) []defVar {
	full := thorough(tier)
	vs := []defVar{{"none", 0, func(*ctx, *el) {}}}
	if catching {
		for _, k := range []string{"timeDate", "timeDuration", "timeCycle"} {
			for _, ev := range timerExprVariants(full) {
				k, ev := k, ev
				vs = append(vs, defVar{k + ":" + ev.label, 1 + ev.weight, func(c *ctx, e *el) { e.add(timerDef(c, 1, k, ev)) }})
			}
		}
	}
	vs = append(vs, defVar{"signal", 2, signalDef(true)}, defVar{"message", 2, messageDef(true)})
	if full {
		vs = append(vs, defVar{"signal-noref", 1, signalDef(false)}, defVar{"message-noref", 1, messageDef(false)})
	}
	vs = append(vs, defVar{"signal+message", 4, func(c *ctx, e *el) { signalDef(true)(c, e); messageDef(true)(c, e) }})
	if catching {
		vs = append(vs, defVar{"timer+signal", 3, func(c *ctx, e *el) {
			e.add(timerDef(c, 1, "timeDuration", timerExprVariants(false)[0]))
			signalDef(true)(c, e)
		}})
		if full {
			vs = append(vs, defVar{"timer+timer", 3, func(c *ctx, e *el) {
				e.add(timerDef(c, 1, "timeDuration", timerExprVariants(false)[0]), timerDef(c, 2, "timeCycle", timerExprVariants(false)[1]))
			}})
		}
	}
	return vs
}

func eventVariants(tier string) []variant {
	full := thorough(tier)
	var vs []variant
	name := O("name", "E")
	pm := O("parallelMultiple", "true")
	ca := O("cancelActivity", "false")
	ii := O("isInterrupting", "false")
	if full {
		pm, ca, ii = O("parallelMultiple", boolVals...), O("cancelActivity", boolVals...), O("isInterrupting", boolVals...)
	}
	type pos struct {
		label    string
		opts     []opt
		catching bool
		body     func(p pick, d defVar) func(c *ctx)
	}
	positions := []pos{
		{"startEvent", []opt{name, pm, ii}, true, func(p pick, d defVar) func(c *ctx) {
			return func(c *ctx) {
				st := c.node("bpmn:startEvent", "start", nil, ss("f1"), p.attrs...)
				d.add(c, st)
				c.put(st, c.node("bpmn:task", "x", ss("f1"), ss("f2")), c.node("bpmn:endEvent", "end", ss("f2"), nil),
					c.seq("f1", "start", "x"), c.seq("f2", "x", "end"))
			}
		}},
		{"intermediateCatchEvent", []opt{name, pm}, true, func(p pick, d defVar) func(c *ctx) {
			return func(c *ctx) {
				ev := c.node("bpmn:intermediateCatchEvent", "x", ss("f1"), ss("f2"), p.attrs...)
				d.add(c, ev)
				c.chain(ev)
			}
		}},
		{"boundaryEvent", []opt{name, ca, pm}, true, func(p pick, d defVar) func(c *ctx) {
			return func(c *ctx) {
				c.chain(c.node("bpmn:task", "x", ss("f1"), ss("f2")))
				ev := c.node("bpmn:boundaryEvent", "b", nil, ss("f3"), append([]attr{A("attachedToRef", c.id("x"))}, p.attrs...)...)
				d.add(c, ev)
				c.put(ev, c.node("bpmn:endEvent", "end2", ss("f3"), nil), c.seq("f3", "b", "end2"))
			}
		}},
		{"intermediateThrowEvent", []opt{name}, false, func(p pick, d defVar) func(c *ctx) {
			return func(c *ctx) {
				ev := c.node("bpmn:intermediateThrowEvent", "x", ss("f1"), ss("f2"), p.attrs...)
				d.add(c, ev)
				c.chain(ev)
			}
		}},
		{"endEvent", []opt{name}, false, func(p pick, d defVar) func(c *ctx) {
			return func(c *ctx) {
				en := c.node("bpmn:endEvent", "end", ss("f2"), nil, p.attrs...)
				d.add(c, en)
				c.put(c.node("bpmn:startEvent", "start", nil, ss("f1")), c.node("bpmn:task", "x", ss("f1"), ss("f2")), en,
					c.seq("f1", "start", "x"), c.seq("f2", "x", "end"))
			}
		}},
	}
	for _, ps := range positions {
		for _, p := range grid(ps.opts) {
			for _, d := range defVariants(tier, ps.catching) {
				v := bodyVariant(fmt.Sprintf("%s[%s|%s]", ps.label, p.label, d.label), p.weight+d.weight, ps.body(p, d))
				v.trivial = (ps.label == "startEvent" || ps.label == "endEvent") && v.weight == 0
				vs = append(vs, v)
			}
		}
	}
	return sortVariants(vs)
}

// ---- group: sub-processes ----

func subprocessVariants(tier string) []variant {
	full := thorough(tier)
	var vs []variant
	opts := []opt{O("name", "Sub"), O("triggeredByEvent", "false")}
	if full {
		opts = []opt{O("name", "Sub"), O("triggeredByEvent", boolVals...), O("isForCompensation", boolVals...), O("startQuantity", "2"), O("completionQuantity", "1")}
	}
	inner := func(c *ctx, p string) []*el {
		in := &ctx{p: c.p + p}
		in.chain(in.node("bpmn:task", "x", ss("f1"), ss("f2")))
		return in.flow
	}
	for _, p := range grid(opts) {
		p := p
		vs = append(vs, bodyVariant("subProcess["+p.label+"]", p.weight, func(c *ctx) {
			c.chain(c.node("bpmn:subProcess", "x", ss("f1"), ss("f2"), p.attrs...).add(inner(c, "i_")...))
		}))
	}
	vs = append(vs, bodyVariant("subProcess[empty]", 1, func(c *ctx) { c.chain(c.node("bpmn:subProcess", "x", ss("f1"), ss("f2"))) }))
	vs = append(vs, bodyVariant("subProcess[in-subProcess]", 2, func(c *ctx) {
		mid := &ctx{p: c.p + "m_"}
		mid.chain(mid.node("bpmn:subProcess", "x", ss("f1"), ss("f2")).add(inner(mid, "i_")...))
		c.chain(c.node("bpmn:subProcess", "x", ss("f1"), ss("f2")).add(mid.flow...))
	}))
	vs = append(vs, bodyVariant("subProcess[boundary-timer]", 3, func(c *ctx) {
		c.chain(c.node("bpmn:subProcess", "x", ss("f1"), ss("f2")).add(inner(c, "i_")...))
		c.put(c.node("bpmn:boundaryEvent", "b", nil, ss("f3"), A("attachedToRef", c.id("x"))).add(timerDef(c, 1, "timeDuration", timerExprVariants(false)[0])),
			c.node("bpmn:endEvent", "end2", ss("f3"), nil), c.seq("f3", "b", "end2"))
	}))
	vs = append(vs, bodyVariant("subProcess[two-siblings]", 3, func(c *ctx) {
		c.put(c.node("bpmn:startEvent", "start", nil, ss("f1")),
			c.node("bpmn:subProcess", "x", ss("f1"), ss("f2")).add(inner(c, "i_")...),
			c.node("bpmn:subProcess", "y", ss("f2"), ss("f3")).add(inner(c, "j_")...),
			c.node("bpmn:endEvent", "end", ss("f3"), nil),
			c.seq("f1", "start", "x"), c.seq("f2", "x", "y"), c.seq("f3", "y", "end"))
	}))
	return sortVariants(vs)
}

// ---- group: data objects ----

func dataVariants(tier string) []variant {
	full := thorough(tier)
	var vs []variant
	do := []opt{O("name", "D"), O("isCollection", "true"), O("#body", `{"a": "aa"}`)}
	if full {
		do = []opt{O("name", "D"), O("isCollection", boolVals...), O("itemSubjectRef", "item1"), O("#dataState", "ready"), O("#body", `{"a": "aa"}`)}
	}
	ro := []opt{O("#ref", "1"), O("name", "R")}
	if full {
		ro = append(ro, O("dataObjectRef", "do1"), O("itemSubjectRef", "item1"))
	}
	var refPicks []pick
	for _, p := range grid(ro) {
		if !p.has("#ref") && p.weight > 0 {
			continue // attributes of an absent reference
		}
		refPicks = append(refPicks, p)
	}
	mkObj := func(c *ctx, id string, p pick) *el {
		e := E("bpmn:dataObject", A("id", c.id(id)))
		var body, state string
		for _, a := range p.attrs {
			switch a.k {
			case "#body":
				body = a.v
			case "#dataState":
				state = a.v
			case "itemSubjectRef":
				c.needItemDef()
				e.with(a)
			default:
				e.with(a)
			}
		}
		if body != "" {
			e.add(E("bpmn:extensionElements").add(&el{tag: "olive:dataObjectBody", text: body, cdata: true}))
		}
		if state != "" {
			e.add(E("bpmn:dataState", A("id", c.id(id+"_state")), A("name", state)))
		}
		return e
	}
	mkRef := func(c *ctx, id string, p pick) *el {
		if !p.has("#ref") {
			return nil
		}
		e := E("bpmn:dataObjectReference", A("id", c.id(id)))
		for _, a := range p.attrs {
			switch a.k {
			case "#ref":
			case "dataObjectRef":
				e.with(A(a.k, c.id(a.v)))
			case "itemSubjectRef":
				c.needItemDef()
				e.with(a)
			default:
				e.with(a)
			}
		}
		return e
	}
	for _, p := range grid(do) {
		for _, rp := range refPicks {
			p, rp := p, rp
			vs = append(vs, bodyVariant(fmt.Sprintf("dataObject[%s|ref:%s]", p.label, rp.label), 1+p.weight+rp.weight, func(c *ctx) {
				c.chain(c.node("bpmn:task", "x", ss("f1"), ss("f2")))
				c.put(mkObj(c, "do1", p))
				if r := mkRef(c, "dr1", rp); r != nil {
					c.put(r)
				}
			}))
		}
	}
	vs = append(vs, bodyVariant("dataObject[two-objects-two-refs-bound-to-task]", 6, func(c *ctx) {
		t := c.node("bpmn:serviceTask", "x", ss("f1"), ss("f2")).add(E("bpmn:extensionElements").add(
			E("olive:dataInput", A("name", "in"), A("targetRef", c.id("dr1"))),
			E("olive:dataOutput", A("name", "out"), A("targetRef", c.id("dr2")))))
		c.chain(t)
		c.put(E("bpmn:dataObjectReference", A("id", c.id("dr1")), A("name", "in"), A("dataObjectRef", c.id("do1"))),
			E("bpmn:dataObject", A("id", c.id("do1"))).add(E("bpmn:extensionElements").add(&el{tag: "olive:dataObjectBody", text: `{"a": "aa"}`, cdata: true})),
			E("bpmn:dataObjectReference", A("id", c.id("dr2")), A("name", "out"), A("dataObjectRef", c.id("do2"))),
			E("bpmn:dataObject", A("id", c.id("do2"))))
	}))
	return sortVariants(vs)
}

// ---- group: olive extension elements ----

var itemTypes = []struct{ t, v string }{
	{"string", "s"}, {"integer", "42"}, {"boolean", "true"}, {"float", "1.5"}, {"array", `[1,"a"]`}, {"object", `{"a": "b"}`},
}

func item(tag, name, typ, val, ref string) *el {
	e := E(tag, A("name", name), A("value", val), A("type", typ))
	if ref != "" {
		e.with(A("ref", ref))
	}
	return e
}

func extHost(tag string, ext ...*el) func(c *ctx) {
	return func(c *ctx) {
		c.chain(c.node(tag, "x", ss("f1"), ss("f2")).add(E("bpmn:extensionElements").add(ext...)))
	}
}

func extensionVariants(tier string) []variant {
	full := thorough(tier)
	var vs []variant
	// (a) every subset of the six extension children of a service task, canonical content
	type child struct {
		label string
		mk    func(c *ctx) *el
	}
	children := []child{
		{"taskDefinition", func(*ctx) *el { return E("olive:taskDefinition", A("type", "service"), A("retries", "2")) }},
		{"taskHeaders", func(*ctx) *el {
			return E("olive:taskHeaders").add(item("olive:header", "contentType", "string", "application/json", ""))
		}},
		{"properties", func(*ctx) *el {
			return E("olive:properties").add(item("olive:property", "a", "integer", "1", ""), item("olive:property", "b", "object", `{"a": "b"}`, ""))
		}},
		{"results", func(*ctx) *el { return E("olive:results").add(item("olive:field", "foo", "integer", "", "")) }},
		{"dataInput", func(c *ctx) *el { return E("olive:dataInput", A("name", "in"), A("targetRef", c.id("dr1"))) }},
		{"dataOutput", func(c *ctx) *el { return E("olive:dataOutput", A("name", "out"), A("targetRef", c.id("dr1"))) }},
	}
	for mask := 0; mask < 1<<len(children); mask++ {
		mask := mask
		var labels []string
		w := 0
		for i, ch := range children {
			if mask&(1<<i) != 0 {
				labels = append(labels, ch.label)
				w++
			}
		}
		if !full && w > 2 && w < len(children) {
			continue // quick: empty, singletons, pairs and the full set
		}
		vs = append(vs, bodyVariant("serviceTask-ext{"+strings.Join(labels, ",")+"}", 1+w, func(c *ctx) {
			var ext []*el
			for i, ch := range children {
				if mask&(1<<i) != 0 {
					ext = append(ext, ch.mk(c))
				}
			}
			c.chain(c.node("bpmn:serviceTask", "x", ss("f1"), ss("f2")).add(E("bpmn:extensionElements").add(ext...)))
			if mask&(16|32) != 0 {
				c.put(E("bpmn:dataObjectReference", A("id", c.id("dr1")), A("dataObjectRef", c.id("do1"))), E("bpmn:dataObject", A("id", c.id("do1"))))
			}
		}))
	}
	// (b) attribute subsets of taskDefinition
	td := []opt{O("type", "service"), O("timeout", "30s"), O("retries", "2")}
	if full {
		td = append(td, O("target", "t1"), O("metadata", `{"a":"b"}`))
	}
	for _, p := range grid(td) {
		p := p
		vs = append(vs, bodyVariant("taskDefinition["+p.label+"]", 2+p.weight, extHost("bpmn:serviceTask", E("olive:taskDefinition", p.attrs...))))
	}
	// (c) every item type in every item container, with and without ref
	conts := []struct{ outer, inner string }{{"olive:taskHeaders", "olive:header"}, {"olive:properties", "olive:property"}, {"olive:results", "olive:field"}}
	for _, ct := range conts {
		for _, it := range itemTypes {
			for _, ref := range []string{"", "$c.name"} {
				if !full && (ref != "" && it.t != "string") {
					continue
				}
				ct, it, ref := ct, it, ref
				vs = append(vs, bodyVariant(fmt.Sprintf("%s[%s,ref=%v]", local(ct.outer), it.t, ref != ""), 3,
					extHost("bpmn:serviceTask", E(ct.outer).add(item(ct.inner, "n", it.t, it.v, ref)))))
			}
		}
		// (d) item counts 0 and 2
		ct := ct
		vs = append(vs, bodyVariant(local(ct.outer)+"[0 items]", 2, extHost("bpmn:serviceTask", E(ct.outer))))
		vs = append(vs, bodyVariant(local(ct.outer)+"[2 items]", 4, extHost("bpmn:serviceTask",
			E(ct.outer).add(item(ct.inner, "n1", "string", "v1", ""), item(ct.inner, "n2", "integer", "2", "")))))
	}
	// (e) script
	for _, p := range grid([]opt{O("expression", "=a * b"), O("result", "sum"), O("resultType", "integer")}) {
		p := p
		vs = append(vs, bodyVariant("script["+p.label+"]", 2+p.weight, extHost("bpmn:scriptTask", E("olive:script", p.attrs...))))
	}
	// (f) calledElement
	for _, p := range grid([]opt{O("definitionId", "child-definitions"), O("processId", "child-process"), O("propagateAllChildVariables", boolVals...)}) {
		p := p
		vs = append(vs, bodyVariant("calledElement["+p.label+"]", 2+p.weight, extHost("bpmn:callActivity", E("olive:calledElement", p.attrs...))))
	}
	// (g) calledDecision
	for _, p := range grid([]opt{O("decisionId", "decision1"), O("result", "a")}) {
		p := p
		vs = append(vs, bodyVariant("calledDecision["+p.label+"]", 2+p.weight, extHost("bpmn:businessRuleTask", E("olive:calledDecision", p.attrs...))))
	}
	// (h) dataObjectBody: plain text, text with markup characters (escaped), CDATA
	for i, b := range []*el{{tag: "olive:dataObjectBody", text: "plain"}, {tag: "olive:dataObjectBody", text: `{"a": "<b>&"}`}, {tag: "olive:dataObjectBody", text: `{"a": "aa"}`, cdata: true}} {
		b := b
		vs = append(vs, bodyVariant(fmt.Sprintf("dataObjectBody[%d]", i), 3, func(c *ctx) {
			c.chain(c.node("bpmn:task", "x", ss("f1"), ss("f2")))
			c.put(E("bpmn:dataObject", A("id", c.id("do1"))).add(E("bpmn:extensionElements").add(b)))
		}))
	}
	// (i) properties on every other kind of host
	props := func() *el {
		return E("bpmn:extensionElements").add(E("olive:properties").add(item("olive:property", "a", "integer", "1", "")))
	}
	for _, tag := range []string{"bpmn:task", "bpmn:userTask", "bpmn:sendTask", "bpmn:receiveTask", "bpmn:manualTask", "bpmn:exclusiveGateway", "bpmn:intermediateThrowEvent"} {
		tag := tag
		vs = append(vs, bodyVariant("properties-on["+local(tag)+"]", 3, func(c *ctx) { c.chain(c.node(tag, "x", ss("f1"), ss("f2")).add(props())) }))
	}
	vs = append(vs, bodyVariant("properties-on[startEvent,endEvent,sequenceFlow]", 5, func(c *ctx) {
		f1, _ := c.chain(c.node("bpmn:task", "x", ss("f1"), ss("f2")))
		c.flow[0].add(props())
		c.flow[2].add(props())
		f1.add(props())
	}))
	vs = append(vs, bodyVariant("properties-on[subProcess]", 4, func(c *ctx) {
		in := &ctx{p: c.p + "i_"}
		in.chain(in.node("bpmn:task", "x", ss("f1"), ss("f2")))
		c.chain(c.node("bpmn:subProcess", "x", ss("f1"), ss("f2")).add(props()).add(in.flow...))
	}))
	vs = append(vs, variant{label: "properties-on[process]", weight: 3, noNest: true, mk: func(bool) gdoc {
		g := procDoc(false, func(c *ctx) { c.chain(c.node("bpmn:task", "x", ss("f1"), ss("f2"))) })
		proc := g.root.kids[len(g.root.kids)-1]
		proc.kids = append([]*el{props()}, proc.kids...)
		return g
	}})
	return sortVariants(vs)
}

// ---- group: collaborations ----

func simpleProcess(id string, p string) *el {
	c := &ctx{p: p}
	c.chain(c.node("bpmn:task", "x", ss("f1"), ss("f2")))
	return E("bpmn:process", A("id", id), A("isExecutable", "true")).add(c.flow...)
}

func collabVariants(tier string) []variant {
	full := thorough(tier)
	var vs []variant
	co := []opt{O("name", "C"), O("isClosed", "false")}
	if full {
		co = []opt{O("name", "C"), O("isClosed", boolVals...)}
	}
	for nCollab := 1; nCollab <= 2; nCollab++ {
		for nPart := 1; nPart <= 2; nPart++ {
			for _, procRef := range []bool{true, false} {
				for nFlow := 0; nFlow <= 2; nFlow++ {
					for _, msgRef := range []bool{false, true} {
						if nFlow == 0 && msgRef {
							continue
						}
						for _, p := range grid(co) {
							if !full && (nCollab == 2 && p.weight > 0 || nFlow == 2 && !procRef) {
								continue
							}
							nCollab, nPart, procRef, nFlow, msgRef, p := nCollab, nPart, procRef, nFlow, msgRef, p
							w := p.weight + nCollab + nPart + nFlow
							if msgRef {
								w++
							}
							if procRef {
								w++
							}
							label := fmt.Sprintf("collab[n=%d,participants=%d,processRef=%v,messageFlows=%d,messageRef=%v|%s]", nCollab, nPart, procRef, nFlow, msgRef, p.label)
							vs = append(vs, variant{label: label, weight: w, noNest: true, mk: func(bool) gdoc {
								d := definitions()
								if msgRef {
									d.add(E("bpmn:message", A("id", "msg1"), A("name", "M1")))
								}
								for k := 1; k <= nCollab; k++ {
									cid := fmt.Sprintf("c%d_", k)
									col := E("bpmn:collaboration", A("id", cid+"collab")).with(p.attrs...)
									for i := 1; i <= nPart; i++ {
										pt := E("bpmn:participant", A("id", fmt.Sprintf("%spart%d", cid, i)), A("name", fmt.Sprintf("P%d", i)))
										if procRef {
											pt.with(A("processRef", fmt.Sprintf("proc%d", i)))
										}
										col.add(pt)
									}
									for i := 1; i <= nFlow; i++ {
										// first flow: node to node (or to the other participant), second: reverse direction
										src, dst := "p1_x", fmt.Sprintf("%spart%d", cid, nPart)
										if nPart == 2 {
											dst = "p2_x"
										}
										if i == 2 {
											src, dst = dst, src
										}
										mf := E("bpmn:messageFlow", A("id", fmt.Sprintf("%smf%d", cid, i)), A("name", fmt.Sprintf("MF%d", i)), A("sourceRef", src), A("targetRef", dst))
										if msgRef {
											mf.with(A("messageRef", "msg1"))
										}
										col.add(mf)
									}
									d.add(col)
								}
								for i := 1; i <= nPart; i++ {
									d.add(simpleProcess(fmt.Sprintf("proc%d", i), fmt.Sprintf("p%d_", i)))
								}
								return gdoc{root: d, exec: true}
							}})
						}
					}
				}
			}
		}
	}
	// participant processes whose body is nested in a sub-process
	vs = append(vs, variant{label: "collab[nested-bodies]", weight: 9, noNest: true, mk: func(bool) gdoc {
		d := definitions().add(E("bpmn:collaboration", A("id", "collab")).add(
			E("bpmn:participant", A("id", "part1"), A("processRef", "proc1")),
			E("bpmn:participant", A("id", "part2"), A("processRef", "proc2")),
			E("bpmn:messageFlow", A("id", "mf1"), A("sourceRef", "p1_n_x"), A("targetRef", "p2_n_x"))))
		for i := 1; i <= 2; i++ {
			in := &ctx{p: fmt.Sprintf("p%d_n_", i)}
			in.chain(in.node("bpmn:task", "x", ss("f1"), ss("f2")))
			out := &ctx{p: fmt.Sprintf("p%d_", i)}
			out.chain(out.node("bpmn:subProcess", "x", ss("f1"), ss("f2")).add(in.flow...))
			d.add(E("bpmn:process", A("id", fmt.Sprintf("proc%d", i)), A("isExecutable", "true")).add(out.flow...))
		}
		return gdoc{root: d, exec: true}
	}})
	return sortVariants(vs)
}

// ---- group: definitions and process attributes, documentation, indented rendering ----

func definitionsVariants(tier string) []variant {
	full := thorough(tier)
	var vs []variant
	base := func(c *ctx) { c.chain(c.node("bpmn:task", "x", ss("f1"), ss("f2"))) }
	do := []opt{O("name", "Defs"), O("expressionLanguage", langExpr), O("exporter", "verif")}
	po := []opt{O("name", "P"), O("isExecutable", boolVals...)}
	if full {
		do = []opt{O("name", "Defs"), O("expressionLanguage", langExpr, langXPath), O("typeLanguage", nsXSD), O("exporter", "verif"), O("exporterVersion", "1.0")}
		po = []opt{O("name", "P"), O("isExecutable", boolVals...), O("processType", "Private"), O("isClosed", boolVals...)}
	}
	for _, p := range grid(do) {
		p := p
		vs = append(vs, variant{label: "definitions[" + p.label + "]", weight: p.weight, noNest: true, trivial: p.weight == 0, mk: func(bool) gdoc {
			g := procDoc(false, base)
			g.root.with(p.attrs...)
			return g
		}})
	}
	for _, p := range grid(po) {
		p := p
		if p.weight == 0 {
			continue
		}
		vs = append(vs, variant{label: "process[" + p.label + "]", weight: p.weight, noNest: true, mk: func(bool) gdoc {
			c := &ctx{}
			base(c)
			proc := E("bpmn:process", A("id", "proc")).with(p.attrs...).add(c.flow...)
			return gdoc{root: definitions().add(proc), exec: p.get("isExecutable") == "true"}
		}})
	}
	vs = append(vs, variant{label: "definitions[no-targetNamespace]", weight: 1, noNest: true, mk: func(bool) gdoc {
		g := procDoc(false, base)
		var keep []attr
		for _, a := range g.root.attrs {
			if a.k != "targetNamespace" {
				keep = append(keep, a)
			}
		}
		g.root.attrs = keep
		return g
	}})
	vs = append(vs, variant{label: "definitions[two-processes]", weight: 2, noNest: true, mk: func(bool) gdoc {
		return gdoc{root: definitions().add(simpleProcess("proc1", "p1_"), simpleProcess("proc2", "p2_")), exec: true}
	}})
	for _, p := range grid([]opt{O("id", "doc1"), O("textFormat", "text/plain")}) {
		p := p
		vs = append(vs, bodyVariant("documentation["+p.label+"]", 1+p.weight, func(c *ctx) {
			attrs := c.fixRefs(p.attrs, "id")
			c.chain(c.node("bpmn:task", "x", ss("f1"), ss("f2")).add(E("bpmn:documentation", attrs...).txt("some <documented> & text")))
		}))
		vs = append(vs, bodyVariant("documentation-inner-whitespace["+p.label+"]", 2+p.weight, func(c *ctx) {
			attrs := c.fixRefs(p.attrs, "id")
			c.chain(c.node("bpmn:task", "x", ss("f1"), ss("f2")).add(E("bpmn:documentation", attrs...).txt("two  blanks,\n\ta line break and a tab")))
		}))
	}
	// indented rendering of the base document of every node kind (white-space-only text
	// between elements): taken from the weight-0 variants of the other groups
	for _, src := range [][]variant{activityVariants("quick"), gatewayVariants("quick"), eventVariants("quick"), subprocessVariants("quick"), dataVariants("quick")} {
		seen := map[string]bool{}
		for _, v := range src {
			kind := v.label[:strings.Index(v.label, "[")]
			if seen[kind] {
				continue
			}
			seen[kind] = true
			v.label = "indented:" + v.label
			v.pretty = true
			v.weight++
			v.trivial = false
			vs = append(vs, v)
		}
	}
	for _, name := range []string{"flow[|f1:formal|f2:informal]", "serviceTask-ext{taskDefinition,taskHeaders,properties,results,dataInput,dataOutput}"} {
		for _, src := range [][]variant{flowVariants("quick"), extensionVariants("quick")} {
			for _, v := range src {
				if v.label == name {
					v.label = "indented:" + v.label
					v.pretty = true
					vs = append(vs, v)
				}
			}
		}
	}
	return sortVariants(vs)
}
