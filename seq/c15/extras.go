package c15

// Documents outside the stated quantifier of C15 (event definitions other than
// timer/signal/message, loop characteristics, lanes, artifacts, io specifications, imports).
// They are offered through Extras(), never through Plains(): a difference found here shows a
// round-trip defect of the schema package but not a violation of C15 as quantified.

func extraVariants(tier string) []variant {
	var vs []variant
	task := func(c *ctx, kids ...*el) *el { return c.node("bpmn:task", "x", ss("f1"), ss("f2")).add(kids...) }
	formalT := A("xsi:type", "bpmn:tFormalExpression")

	endWith := func(label string, w int, def func(c *ctx) *el) {
		vs = append(vs, bodyVariant("endEvent["+label+"]", w, func(c *ctx) {
			c.chain(task(c))
			c.flow[2].add(def(c))
		}))
	}
	endWith("terminate", 1, func(c *ctx) *el { return E("bpmn:terminateEventDefinition", A("id", c.id("ted"))) })
	endWith("error", 2, func(c *ctx) *el {
		c.root("err1", func() *el { return E("bpmn:error", A("id", "err1"), A("name", "E1"), A("errorCode", "42")) })
		return E("bpmn:errorEventDefinition", A("id", c.id("eed")), A("errorRef", "err1"))
	})
	endWith("escalation", 2, func(c *ctx) *el {
		c.root("esc1", func() *el { return E("bpmn:escalation", A("id", "esc1"), A("name", "X1"), A("escalationCode", "7")) })
		return E("bpmn:escalationEventDefinition", A("id", c.id("esd")), A("escalationRef", "esc1"))
	})
	endWith("cancel", 1, func(c *ctx) *el { return E("bpmn:cancelEventDefinition", A("id", c.id("ced"))) })
	endWith("compensate", 2, func(c *ctx) *el {
		return E("bpmn:compensateEventDefinition", A("id", c.id("cod")), A("waitForCompletion", "true"), A("activityRef", c.id("x")))
	})

	catchWith := func(label string, w int, def func(c *ctx) *el) {
		vs = append(vs, bodyVariant("intermediateCatchEvent["+label+"]", w, func(c *ctx) {
			c.chain(c.node("bpmn:intermediateCatchEvent", "x", ss("f1"), ss("f2")).add(def(c)))
		}))
	}
	catchWith("conditional-nocondition", 1, func(c *ctx) *el { return E("bpmn:conditionalEventDefinition", A("id", c.id("cnd"))) })
	catchWith("conditional-informal", 2, func(c *ctx) *el {
		return E("bpmn:conditionalEventDefinition", A("id", c.id("cnd"))).add(E("bpmn:condition").txt("true"))
	})
	catchWith("conditional-formal", 3, func(c *ctx) *el {
		return E("bpmn:conditionalEventDefinition", A("id", c.id("cnd"))).add(E("bpmn:condition", formalT).txt("true"))
	})
	catchWith("link", 2, func(c *ctx) *el {
		return E("bpmn:linkEventDefinition", A("id", c.id("lnk")), A("name", "L")).add(E("bpmn:source").txt(c.id("x")))
	})

	vs = append(vs, bodyVariant("task[standardLoop-nocondition]", 1, func(c *ctx) {
		c.chain(task(c, E("bpmn:standardLoopCharacteristics", A("id", c.id("loop")))))
	}))
	vs = append(vs, bodyVariant("task[standardLoop-attrs]", 3, func(c *ctx) {
		c.chain(task(c, E("bpmn:standardLoopCharacteristics", A("id", c.id("loop")), A("testBefore", "true"), A("loopMaximum", "3")).add(
			E("bpmn:loopCondition", formalT).txt("i < 3"))))
	}))
	vs = append(vs, bodyVariant("task[multiInstance]", 3, func(c *ctx) {
		c.chain(task(c, E("bpmn:multiInstanceLoopCharacteristics", A("id", c.id("mi")), A("isSequential", "true")).add(
			E("bpmn:loopCardinality", formalT).txt("3"), E("bpmn:completionCondition").txt("false"))))
	}))
	vs = append(vs, bodyVariant("task[ioSpecification]", 4, func(c *ctx) {
		c.chain(task(c,
			E("bpmn:ioSpecification", A("id", c.id("io"))).add(
				E("bpmn:dataInput", A("id", c.id("di1")), A("name", "in")),
				E("bpmn:dataOutput", A("id", c.id("do1")), A("name", "out")),
				E("bpmn:inputSet", A("id", c.id("is1"))).add(E("bpmn:dataInputRefs").txt(c.id("di1"))),
				E("bpmn:outputSet", A("id", c.id("os1"))).add(E("bpmn:dataOutputRefs").txt(c.id("do1")))),
			E("bpmn:property", A("id", c.id("prop1")), A("name", "p")),
			E("bpmn:dataInputAssociation", A("id", c.id("dia1"))).add(
				E("bpmn:sourceRef").txt(c.id("prop1")), E("bpmn:targetRef").txt(c.id("di1")),
				E("bpmn:assignment", A("id", c.id("as1"))).add(E("bpmn:from", formalT).txt("1"), E("bpmn:to", formalT).txt("x")))))
	}))
	// (userTask/potentialOwner is not offered: Activity models only the head element resourceRole,
	// so a potentialOwner child never reaches the model.)
	vs = append(vs, bodyVariant("complexGateway[activationCondition]", 3, func(c *ctx) {
		c.chain(c.node("bpmn:complexGateway", "x", ss("f1"), ss("f2")).add(E("bpmn:activationCondition", formalT).txt("true")))
	}))
	vs = append(vs, bodyVariant("textAnnotation+association+group", 4, func(c *ctx) {
		c.root("cat1", func() *el {
			return E("bpmn:category", A("id", "cat1"), A("name", "C")).add(E("bpmn:categoryValue", A("id", "cv1"), A("value", "v")))
		})
		c.chain(task(c))
		c.put(E("bpmn:textAnnotation", A("id", c.id("ta1"))).add(E("bpmn:text").txt("a note")),
			E("bpmn:association", A("id", c.id("as1")), A("sourceRef", c.id("x")), A("targetRef", c.id("ta1")), A("associationDirection", "None")),
			E("bpmn:group", A("id", c.id("g1")), A("categoryValueRef", "cv1")))
	}))
	vs = append(vs, variant{label: "process[laneSet]", weight: 4, noNest: true, mk: func(bool) gdoc {
		g := procDoc(false, func(c *ctx) { c.chain(c.node("bpmn:task", "x", ss("f1"), ss("f2"))) })
		proc := g.root.kids[len(g.root.kids)-1]
		ls := E("bpmn:laneSet", A("id", "ls1")).add(
			E("bpmn:lane", A("id", "lane1"), A("name", "L1")).add(E("bpmn:flowNodeRef").txt("start"), E("bpmn:flowNodeRef").txt("x")),
			E("bpmn:lane", A("id", "lane2"), A("name", "L2")).add(E("bpmn:flowNodeRef").txt("end"),
				E("bpmn:childLaneSet", A("id", "ls2")).add(E("bpmn:lane", A("id", "lane3")))))
		proc.kids = append([]*el{ls}, proc.kids...)
		return g
	}})
	vs = append(vs, variant{label: "definitions[import]", weight: 2, noNest: true, mk: func(bool) gdoc {
		g := procDoc(false, func(c *ctx) { c.chain(c.node("bpmn:task", "x", ss("f1"), ss("f2"))) })
		g.root.kids = append([]*el{E("bpmn:import", A("namespace", "http://example.org/x"), A("location", "x.xsd"), A("importType", nsXSD))}, g.root.kids...)
		return g
	}})
	return sortVariants(vs)
}
