package c15

import (
	"sort"
	"strings"
)

// Minimal XML tree used by the generator. Documents are rendered either compact (no text
// between elements) or indented (white-space-only text between elements, leaf text untouched).

type attr struct {
	k, v       string
	unmodelled bool // the schema has no field for it: dropped by the first Parse, never compared
}

type el struct {
	tag   string
	attrs []attr
	kids  []*el
	text  string
	cdata bool
}

func E(tag string, attrs ...attr) *el { return &el{tag: tag, attrs: attrs} }
func A(k, v string) attr              { return attr{k: k, v: v} }

func (e *el) add(kids ...*el) *el {
	for _, k := range kids {
		if k != nil {
			e.kids = append(e.kids, k)
		}
	}
	return e
}
func (e *el) with(attrs ...attr) *el { e.attrs = append(e.attrs, attrs...); return e }
func (e *el) txt(s string) *el       { e.text = s; return e }

var escaper = strings.NewReplacer("&", "&amp;", "<", "&lt;", ">", "&gt;", `"`, "&quot;")

func (e *el) render(sb *strings.Builder, pretty bool, depth int) {
	ind := ""
	if pretty {
		ind = strings.Repeat("  ", depth)
		sb.WriteString(ind)
	}
	sb.WriteString("<" + e.tag)
	for _, a := range e.attrs {
		sb.WriteString(" " + a.k + `="` + escaper.Replace(a.v) + `"`)
	}
	if len(e.kids) == 0 && e.text == "" {
		sb.WriteString("/>")
		if pretty {
			sb.WriteString("\n")
		}
		return
	}
	sb.WriteString(">")
	if e.text != "" {
		if e.cdata {
			sb.WriteString("<![CDATA[" + e.text + "]]>")
		} else {
			sb.WriteString(escaper.Replace(e.text))
		}
	}
	if len(e.kids) > 0 {
		if pretty {
			sb.WriteString("\n")
		}
		for _, k := range e.kids {
			k.render(sb, pretty, depth+1)
		}
		if pretty {
			sb.WriteString(ind)
		}
	}
	sb.WriteString("</" + e.tag + ">")
	if pretty {
		sb.WriteString("\n")
	}
}

func local(tag string) string {
	if i := strings.Index(tag, ":"); i >= 0 {
		return tag[i+1:]
	}
	return tag
}

func (e *el) unmodelled(into map[triple]bool) {
	for _, a := range e.attrs {
		if a.unmodelled {
			into[triple{local(e.tag), local(a.k), a.v}] = true
		}
	}
	for _, k := range e.kids {
		k.unmodelled(into)
	}
}

func renderDoc(root *el, pretty bool) string {
	var sb strings.Builder
	sb.WriteString(`<?xml version="1.0" encoding="UTF-8"?>`)
	if pretty {
		sb.WriteString("\n")
	}
	root.render(&sb, pretty, 0)
	return sb.String()
}

// ---- option grids ----

// opt is one optional attribute with the values it takes when present.
type opt struct {
	k    string
	vals []string
}

func O(k string, vals ...string) opt { return opt{k, vals} }

var boolVals = []string{"true", "false"}

// pick is one point of an option grid.
type pick struct {
	attrs  []attr
	weight int
	label  string
}

func (p pick) has(k string) bool {
	for _, a := range p.attrs {
		if a.k == k {
			return true
		}
	}
	return false
}

func (p pick) get(k string) string {
	for _, a := range p.attrs {
		if a.k == k {
			return a.v
		}
	}
	return ""
}

// grid enumerates the full product over opts of (absent | each value), fewest present
// attributes first, otherwise in lexicographic order of choice indices.
func grid(opts []opt) []pick {
	out := []pick{{}}
	for _, o := range opts {
		var next []pick
		for _, p := range out {
			next = append(next, p)
			for _, v := range o.vals {
				q := pick{attrs: append(append([]attr{}, p.attrs...), A(o.k, v)), weight: p.weight + 1}
				if len(o.vals) > 1 {
					q.label = p.label + "," + o.k + "=" + v
				} else {
					q.label = p.label + "," + o.k
				}
				next = append(next, q)
			}
		}
		out = next
	}
	for i := range out {
		out[i].label = strings.TrimPrefix(out[i].label, ",")
	}
	sort.SliceStable(out, func(i, j int) bool { return out[i].weight < out[j].weight })
	return out
}

func gridSize(opts []opt) int {
	n := 1
	for _, o := range opts {
		n *= 1 + len(o.vals)
	}
	return n
}
