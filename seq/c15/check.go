package c15

import (
	"encoding/xml"
	"fmt"
	"reflect"
	"strings"

	"github.com/olive-io/bpmn/schema"

	"verif/harness/rep"
)

// StrictIDs widens the FindBy clause to elements that have an id attribute but are outside the
// domain of schema.ExactId (Definitions, Documentation, diagram-interchange shapes/edges...).
// ExactId only ever matches implementors of BaseElementInterface, so under the fixed convention
// "m.FindBy(schema.ExactId(id))" these can never be found by construction; they are counted and
// reported as a note, not as violations, unless this is set.
var StrictIDs = false

// stats accumulates per-Plain counts that are printed by the runner.
type stats struct {
	Docs, Elements, IDs, OutsideIDs int64
}

type outcome struct {
	xml1       string
	violations int
}

func safeParse(data []byte) (d *schema.Definitions, err error, pan any) {
	defer func() {
		if p := recover(); p != nil {
			pan = p
		}
	}()
	d, err = schema.Parse(data)
	return
}

func safeMarshal(d *schema.Definitions) (out []byte, err error, pan any) {
	defer func() {
		if p := recover(); p != nil {
			pan = p
		}
	}()
	out, err = xml.Marshal(d)
	return
}

func safeFind(d *schema.Definitions, id string) (e schema.Element, found bool, pan any) {
	defer func() {
		if p := recover(); p != nil {
			pan = p
		}
	}()
	e, found = d.FindBy(schema.ExactId(id))
	return
}

// RoundTrip returns Marshal(Parse(xml0)) for debugging and replay.
func RoundTrip(xml0 string) (string, error) {
	m0, err, pan := safeParse([]byte(xml0))
	if pan != nil {
		return "", fmt.Errorf("parse panic: %v", pan)
	}
	if err != nil {
		return "", err
	}
	out, err, pan := safeMarshal(m0)
	if pan != nil {
		return "", fmt.Errorf("marshal panic: %v", pan)
	}
	return string(out), err
}

func excerpt(s string, n int) string {
	if len(s) > n {
		return s[:n] + "..."
	}
	return s
}

// checkDoc runs the whole C15 oracle on one document. generated tells whether xml0 comes from
// the generator (then a parse error on xml0 is a harness defect and reported as such).
func checkDoc(r *rep.Report, st *stats, name, xml0 string, generated bool) outcome {
	var oc outcome
	viol := func(sig, msg string, extra map[string]any) {
		in := map[string]any{"name": name, "xml0": xml0}
		for k, v := range extra {
			in[k] = v
		}
		oc.violations++
		r.Violation(sig, name+": "+msg, in)
	}
	st.Docs++

	m0, err, pan := safeParse([]byte(xml0))
	if pan != nil {
		viol("C15/parse/panic", fmt.Sprintf("Parse(xml0) panicked: %v", pan), nil)
		return oc
	}
	if err != nil {
		if generated {
			viol("C15/parse/error-on-input", "Parse(xml0) failed on a generated document: "+err.Error(), nil)
		} else {
			viol("C15/parse/error-on-bundled", "Parse failed on a bundled file: "+err.Error(), nil)
		}
		return oc
	}
	before := copyDefinitions(m0)

	out, err, pan := safeMarshal(m0)
	if pan != nil {
		viol("C15/marshal/panic", fmt.Sprintf("xml.Marshal(m0) panicked: %v", pan), nil)
		return oc
	}
	if err != nil {
		viol("C15/marshal/error", "xml.Marshal(m0) failed: "+err.Error(), nil)
		return oc
	}
	xml1 := string(out)
	oc.xml1 = xml1

	// clause: serialising does not alter the model
	if ds, _ := compare(before, m0, 8); len(ds) > 0 {
		seen := map[string]bool{}
		for _, d := range ds {
			sig := "C15/marshal/mutates-model/" + d.sigTail()
			if seen[sig] {
				continue
			}
			seen[sig] = true
			viol(sig, "model differs after Marshal at "+d.String(), map[string]any{"diff": d.Path, "detail": d.Detail})
		}
	}

	m1, err, pan := safeParse(out)
	if pan != nil {
		viol("C15/parse/panic-on-own-output", fmt.Sprintf("Parse(xml1) panicked: %v", pan), map[string]any{"xml1": xml1})
		return oc
	}
	if err != nil {
		viol("C15/parse/error-on-own-output", "Parse(Marshal(m0)) failed: "+err.Error(), map[string]any{"xml1": xml1})
		return oc
	}

	// clause: m1 equivalent to m0
	// (reference is the copy taken before Marshal, so that a Marshal that damages m0 cannot hide
	// the same damage in m1)
	ds, n := compare(before, m1, 16)
	st.Elements += int64(n)
	seen := map[string]bool{}
	for _, d := range ds {
		sig := "C15/roundtrip/" + d.sigTail()
		if seen[sig] {
			continue
		}
		seen[sig] = true
		viol(sig, "re-parsed model differs at "+d.String(), map[string]any{"diff": d.Path, "detail": d.Detail, "xml1": xml1})
	}

	// clause: every element with an id is retrievable by that id, in m0 and in m1
	for k, m := range []*schema.Definitions{m0, m1} {
		which := "m0"
		if k == 1 {
			which = "m1"
		}
		ids, outside := collectIDs(m)
		count := map[string]int{}
		for _, e := range ids {
			count[e.ID]++
		}
		for _, e := range ids {
			st.IDs++
			got, found, pan := safeFind(m, e.ID)
			tn := e.Type.Elem().Name()
			switch {
			case pan != nil:
				viol("C15/findby/panic", fmt.Sprintf("%s.FindBy(ExactId(%q)) panicked: %v", which, e.ID, pan), map[string]any{"diff": e.Path})
			case !found:
				viol("C15/findby/not-found/"+tn, fmt.Sprintf("%s.FindBy(ExactId(%q)) found nothing; element is at %s", which, e.ID, e.Path), map[string]any{"diff": e.Path, "model": which})
			case reflect.TypeOf(got) != e.Type:
				viol("C15/findby/wrong-kind/"+tn, fmt.Sprintf("%s.FindBy(ExactId(%q)) returned %T, element at %s is %s", which, e.ID, got, e.Path, e.Type), map[string]any{"diff": e.Path, "model": which})
			case count[e.ID] == 1 && any(got) != e.Ptr:
				viol("C15/findby/wrong-element/"+tn, fmt.Sprintf("%s.FindBy(ExactId(%q)) returned another %T than the one at %s", which, e.ID, got, e.Path), map[string]any{"diff": e.Path, "model": which})
			}
		}
		for tn, c := range outside {
			st.OutsideIDs += int64(c)
			if StrictIDs {
				viol("C15/findby/not-addressable/"+tn, fmt.Sprintf("%s has %d %s with an id; ExactId cannot match that type", which, c, tn), nil)
			}
		}
	}
	return oc
}

// ---- generator self-check (not part of the oracle) ----

type triple struct{ el, attr, val string }

// xmlFacts parses a document generically and returns the multiset of (element, attribute,
// value) and (element, "#text", trimmed text) facts, ignoring namespace declarations and
// xsi:type (whose loss is the oracle's business).
func xmlFacts(doc string) (map[triple]int, error) {
	dec := xml.NewDecoder(strings.NewReader(doc))
	facts := map[triple]int{}
	var stack []string
	for {
		tok, err := dec.Token()
		if err != nil {
			if err.Error() == "EOF" {
				return facts, nil
			}
			return facts, err
		}
		switch t := tok.(type) {
		case xml.StartElement:
			stack = append(stack, t.Name.Local)
			facts[triple{t.Name.Local, "#element", ""}]++
			for _, a := range t.Attr {
				if a.Name.Space == "xmlns" || a.Name.Local == "xmlns" || a.Name.Local == "type" && (a.Name.Space == "xsi" || strings.HasSuffix(a.Name.Space, "XMLSchema-instance")) || a.Name.Local == "xsi:type" {
					continue
				}
				facts[triple{t.Name.Local, a.Name.Local, a.Value}]++
			}
		case xml.EndElement:
			stack = stack[:len(stack)-1]
		case xml.CharData:
			if s := strings.TrimSpace(string(t)); s != "" && len(stack) > 0 {
				facts[triple{stack[len(stack)-1], "#text", s}]++
			}
		}
	}
}

// selfCheck verifies that everything the generator wrote into xml0 (minus the attributes it
// marked as not modelled by the schema) shows up again in xml1: a guard against a generator
// that silently emits things Parse ignores, which would make the comparison vacuous.
func selfCheck(xml0, xml1 string, unmodelled map[triple]bool) []string {
	f0, err := xmlFacts(xml0)
	if err != nil {
		return []string{"xml0 not well-formed: " + err.Error()}
	}
	f1, err := xmlFacts(xml1)
	if err != nil {
		return []string{"xml1 not well-formed: " + err.Error()}
	}
	var miss []string
	for k, n := range f0 {
		if unmodelled[k] {
			continue
		}
		if f1[k] < n {
			miss = append(miss, fmt.Sprintf("%s/%s=%q x%d (xml1 has %d)", k.el, k.attr, k.val, n, f1[k]))
		}
	}
	return miss
}
