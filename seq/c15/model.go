package c15

// Reflective oracle over *schema.Definitions: deep copy, equivalence (with the two tolerances the
// property allows) and enumeration of all elements that carry an id.

import (
	"fmt"
	"math/big"
	"reflect"
	"strings"

	"github.com/olive-io/bpmn/schema"
)

var (
	bigIntType  = reflect.TypeOf(big.Int{})
	anExprType  = reflect.TypeOf(schema.AnExpression{})
	baseElemItf = reflect.TypeOf((*schema.BaseElementInterface)(nil)).Elem()
)

// deepCopy returns a structurally independent copy of v (pointers, slices, interfaces and
// structs are re-allocated; big.Int is copied by value semantics).
func deepCopy(v reflect.Value) reflect.Value {
	switch v.Kind() {
	case reflect.Ptr:
		if v.IsNil() {
			return reflect.Zero(v.Type())
		}
		if v.Type().Elem() == bigIntType {
			n := new(big.Int).Set(v.Interface().(*big.Int))
			return reflect.ValueOf(n)
		}
		n := reflect.New(v.Type().Elem())
		n.Elem().Set(deepCopy(v.Elem()))
		return n
	case reflect.Interface:
		if v.IsNil() {
			return reflect.Zero(v.Type())
		}
		n := reflect.New(v.Type()).Elem()
		n.Set(deepCopy(v.Elem()))
		return n
	case reflect.Slice:
		if v.IsNil() {
			return reflect.Zero(v.Type())
		}
		n := reflect.MakeSlice(v.Type(), v.Len(), v.Len())
		for i := 0; i < v.Len(); i++ {
			n.Index(i).Set(deepCopy(v.Index(i)))
		}
		return n
	case reflect.Struct:
		n := reflect.New(v.Type()).Elem()
		if v.Type() == bigIntType {
			b := v.Interface().(big.Int)
			n.Set(reflect.ValueOf(*new(big.Int).Set(&b)))
			return n
		}
		for i := 0; i < v.NumField(); i++ {
			if v.Type().Field(i).PkgPath != "" {
				panic("c15: unexported field in model type " + v.Type().String())
			}
			n.Field(i).Set(deepCopy(v.Field(i)))
		}
		return n
	case reflect.Map:
		panic("c15: map in model type")
	default:
		n := reflect.New(v.Type()).Elem()
		n.Set(v)
		return n
	}
}

func copyDefinitions(d *schema.Definitions) *schema.Definitions {
	return deepCopy(reflect.ValueOf(d)).Interface().(*schema.Definitions)
}

// fieldRole describes how a struct field is bound to XML.
type fieldRole int

const (
	roleElement fieldRole = iota
	roleAttr
	roleText
)

func roleOf(f reflect.StructField) (fieldRole, string) {
	tag := f.Tag.Get("xml")
	parts := strings.Split(tag, ",")
	name := parts[0]
	if i := strings.LastIndex(name, " "); i >= 0 {
		name = name[i+1:]
	}
	role := roleElement
	for _, p := range parts[1:] {
		switch p {
		case "attr":
			role = roleAttr
		case "chardata", "cdata", "innerxml":
			role = roleText
		}
	}
	if name == "" {
		name = strings.TrimSuffix(f.Name, "Field")
	}
	return role, name
}

// diff is one difference between two models.
type diff struct {
	Path   string // Go path from Definitions
	Class  string // attribute-lost, attribute-gained, attribute-changed, element-lost, element-gained, element-changed, text-changed, expression-kind-lost, expression-kind-gained, type-changed
	Shape  string // <Element>.<attr> or <child element>; "" for expression kind
	Detail string // a -> b
}

func (d diff) sigTail() string {
	if d.Shape == "" {
		return d.Class
	}
	return d.Class + "/" + d.Shape
}

func (d diff) String() string { return d.Path + ": " + d.Detail + " [" + d.sigTail() + "]" }

type cmpCtx struct {
	diffs    []diff
	compared int // struct values (elements) compared
	max      int
}

func (c *cmpCtx) add(d diff) {
	if len(c.diffs) < c.max {
		c.diffs = append(c.diffs, d)
	}
}

// compare reports the differences between a (reference) and b. Tolerances: (1) text payloads
// (fields bound with ",chardata") are compared after trimming leading and trailing white space,
// and an absent payload equals a white-space-only payload; (2) nil and empty slices are equal.
// Everything else is strict: pointer presence, attribute values, element counts and order
// within one collection, dynamic type of expressions.
func compare(a, b *schema.Definitions, max int) (diffs []diff, compared int) {
	c := &cmpCtx{max: max}
	c.walk(reflect.ValueOf(a).Elem(), reflect.ValueOf(b).Elem(), "Definitions", "Definitions", roleElement, "definitions")
	return c.diffs, c.compared
}

func short(v reflect.Value) string {
	if !v.IsValid() {
		return "<invalid>"
	}
	switch v.Kind() {
	case reflect.Ptr, reflect.Interface:
		if v.IsNil() {
			return "absent"
		}
		return short(v.Elem())
	case reflect.Struct:
		if v.Type() == bigIntType {
			b := v.Interface().(big.Int)
			return b.String()
		}
		return v.Type().Name() + "{..}"
	case reflect.Slice:
		return fmt.Sprintf("%d x %s", v.Len(), v.Type().Elem().Name())
	case reflect.String:
		s := v.String()
		if len(s) > 60 {
			s = s[:60] + "..."
		}
		return fmt.Sprintf("%q", s)
	default:
		return fmt.Sprint(v.Interface())
	}
}

func textOf(v reflect.Value) (string, bool) {
	for v.Kind() == reflect.Ptr {
		if v.IsNil() {
			return "", false
		}
		v = v.Elem()
	}
	return strings.TrimSpace(v.String()), true
}

// walk compares a and b. owner is the Go type name of the nearest enclosing non-embedded
// struct (the XML element the field belongs to); role/xname describe the field being compared.
func (c *cmpCtx) walk(a, b reflect.Value, path, owner string, role fieldRole, xname string) {
	shape := func() string {
		if role == roleAttr {
			return owner + "." + xname
		}
		return xname
	}
	kindWord := func(s string) string {
		if role == roleAttr {
			return "attribute-" + s
		}
		return "element-" + s
	}
	if role == roleText {
		sa, _ := textOf(a)
		sb, _ := textOf(b)
		if sa != sb {
			c.add(diff{path, "text-changed", owner, fmt.Sprintf("%q -> %q", sa, sb)})
		}
		return
	}
	switch a.Kind() {
	case reflect.Ptr:
		if a.IsNil() != b.IsNil() {
			w := "lost"
			if a.IsNil() {
				w = "gained"
			}
			c.add(diff{path, kindWord(w), shape(), short(a) + " -> " + short(b)})
			return
		}
		if a.IsNil() {
			return
		}
		if a.Type().Elem() == bigIntType {
			if a.Interface().(*big.Int).Cmp(b.Interface().(*big.Int)) != 0 {
				c.add(diff{path, kindWord("changed"), shape(), short(a) + " -> " + short(b)})
			}
			return
		}
		c.walk(a.Elem(), b.Elem(), path, owner, role, xname)
	case reflect.Interface:
		if a.IsNil() != b.IsNil() {
			w := "lost"
			if a.IsNil() {
				w = "gained"
			}
			c.add(diff{path, kindWord(w), shape(), short(a) + " -> " + short(b)})
			return
		}
		if a.IsNil() {
			return
		}
		ta, tb := a.Elem().Type(), b.Elem().Type()
		if ta != tb {
			fa, af := a.Interface().(*schema.FormalExpression)
			fb, bf := b.Interface().(*schema.FormalExpression)
			ea, ae := a.Interface().(*schema.Expression)
			eb, be := b.Interface().(*schema.Expression)
			switch {
			case af && be:
				c.add(diff{path, "expression-kind-lost", xname, "formal -> informal"})
				c.exprCommon(fa, eb, path)
			case ae && bf:
				c.add(diff{path, "expression-kind-gained", xname, "informal -> formal"})
				c.exprCommon(fb, ea, path)
			default:
				c.add(diff{path, "type-changed", xname, ta.String() + " -> " + tb.String()})
			}
			return
		}
		c.walk(a.Elem(), b.Elem(), path, owner, role, xname)
	case reflect.Slice:
		if a.Len() != b.Len() {
			w := "lost"
			if a.Len() < b.Len() {
				w = "gained"
			}
			c.add(diff{path, kindWord(w), shape(), short(a) + " -> " + short(b)})
			return
		}
		for i := 0; i < a.Len(); i++ {
			c.walk(a.Index(i), b.Index(i), fmt.Sprintf("%s[%d]", path, i), owner, role, xname)
		}
	case reflect.Struct:
		if a.Type() == bigIntType {
			x, y := a.Interface().(big.Int), b.Interface().(big.Int)
			if x.Cmp(&y) != 0 {
				c.add(diff{path, kindWord("changed"), shape(), short(a) + " -> " + short(b)})
			}
			return
		}
		c.compared++
		c.walkStruct(a, b, path, a.Type().Name(), xname)
	default:
		if a.Interface() != b.Interface() {
			w := "changed"
			if a.Kind() == reflect.String { // value-typed string attributes: empty means absent
				if b.Len() == 0 {
					w = "lost"
				} else if a.Len() == 0 {
					w = "gained"
				}
			}
			c.add(diff{path, kindWord(w), shape(), short(a) + " -> " + short(b)})
		}
	}
}

// exprCommon compares what a formal and an informal expression have in common (id,
// documentation, extension elements, text), so that a kind change does not mask a second,
// independent loss inside the same expression.
func (c *cmpCtx) exprCommon(f *schema.FormalExpression, e *schema.Expression, path string) {
	fv, ev := reflect.ValueOf(f).Elem(), reflect.ValueOf(e).Elem()
	c.walkStruct(fv.FieldByName("Expression").FieldByName("BaseElementWithMixedContent"), ev.FieldByName("BaseElementWithMixedContent"),
		path+".BaseElementWithMixedContent", "Expression", "expression")
	c.walk(fv.FieldByName("TextPayloadField"), ev.FieldByName("TextPayloadField"), path+".TextPayloadField", "Expression", roleText, "")
}

// walkStruct compares the fields of one element. parentX is the XML name under which the
// struct itself is bound; it is inherited by the single untagged field of AnExpression, so that
// a difference there is named after conditionExpression/timeDate/... and not after the wrapper.
func (c *cmpCtx) walkStruct(a, b reflect.Value, path, owner, parentX string) {
	t := a.Type()
	for i := 0; i < t.NumField(); i++ {
		f := t.Field(i)
		if f.Anonymous && f.Type.Kind() == reflect.Struct {
			// embedded base type: its fields belong to the same XML element
			c.walkStruct(a.Field(i), b.Field(i), path+"."+f.Name, owner, parentX)
			continue
		}
		role, xname := roleOf(f)
		if t == anExprType {
			xname = parentX
		}
		c.walk(a.Field(i), b.Field(i), path+"."+f.Name, owner, role, xname)
	}
}

// idElem is an element of the model that carries an id in the sense of schema.ExactId: its
// address implements schema.BaseElementInterface and Id() reports present.
type idElem struct {
	ID   string
	Path string
	Ptr  any
	Type reflect.Type // pointer type
}

// collectIDs walks the model and returns (1) all outermost elements in ExactId's domain that
// have an id, (2) the number of structs that have an IdField but are outside ExactId's domain
// (Definitions, Documentation, Import.., and all diagram-interchange elements).
func collectIDs(d *schema.Definitions) (in []idElem, outside map[string]int) {
	outside = map[string]int{}
	var rec func(v reflect.Value, path string, embedded bool)
	rec = func(v reflect.Value, path string, embedded bool) {
		switch v.Kind() {
		case reflect.Ptr, reflect.Interface:
			if !v.IsNil() {
				rec(v.Elem(), path, false)
			}
		case reflect.Slice:
			for i := 0; i < v.Len(); i++ {
				rec(v.Index(i), fmt.Sprintf("%s[%d]", path, i), false)
			}
		case reflect.Struct:
			if v.Type() == bigIntType {
				return
			}
			if !embedded && v.CanAddr() {
				p := v.Addr()
				if p.Type().Implements(baseElemItf) {
					if id, ok := p.Interface().(schema.BaseElementInterface).Id(); ok && id != nil {
						in = append(in, idElem{*id, path, p.Interface(), p.Type()})
					}
				} else if m := p.MethodByName("Id"); m.IsValid() {
					out := m.Call(nil)
					if len(out) == 2 && out[1].Bool() {
						outside[v.Type().Name()]++
					}
				}
			}
			for i := 0; i < v.NumField(); i++ {
				f := v.Type().Field(i)
				rec(v.Field(i), path+"."+f.Name, f.Anonymous && f.Type.Kind() == reflect.Struct)
			}
		}
	}
	rec(reflect.ValueOf(d), "Definitions", false)
	return
}
