// Stand-alone runner for the C15 sequential checker.
//
//	cd /verif && go run ./seq/c15/cmd -tier quick [-only c15-flows] [-extras] [-strict-ids] [-budget 10m] [-dump name]
package main

import (
	"encoding/json"
	"flag"
	"fmt"
	"os"
	"sort"
	"strings"
	"time"

	"verif/harness/rep"
	"verif/seq/c15"
)

func main() {
	tier := flag.String("tier", "quick", "quick or thorough")
	only := flag.String("only", "", "run only the Plain with this name")
	extras := flag.Bool("extras", false, "also run the enumerations outside the stated quantifier")
	strict := flag.Bool("strict-ids", false, "also demand FindBy for ids outside ExactId's domain")
	budget := flag.Duration("budget", 30*time.Minute, "time budget")
	dump := flag.String("dump", "", "print the generated document with this name and exit")
	list := flag.Bool("list", false, "list the generated document names and exit")
	rt := flag.String("roundtrip", "", "print Marshal(Parse(file)) for this file and exit")
	flag.Parse()
	if *rt != "" {
		data, err := os.ReadFile(*rt)
		if err != nil {
			fmt.Println(err)
			os.Exit(2)
		}
		out, err := c15.RoundTrip(string(data))
		fmt.Println(out)
		if err != nil {
			fmt.Println("error:", err)
			os.Exit(2)
		}
		return
	}

	if *dump != "" || *list {
		for _, d := range c15.Corpus(*tier) {
			if *list {
				fmt.Println(d.Name, d.Executable, len(d.XML))
			} else if d.Name == *dump {
				fmt.Println(d.XML)
			}
		}
		return
	}
	c15.StrictIDs = *strict
	t0 := time.Now()
	r := rep.New("C15", *tier, "/tmp/c15-replays", t0.Add(*budget))
	plains := c15.Plains(*tier)
	if *extras {
		plains = append(plains, c15.Extras(*tier)...)
	}
	for _, p := range plains {
		if *only != "" && p.Name != *only {
			continue
		}
		r.RunPlain(p)
	}
	r.Finish(t0)
	b, _ := json.MarshalIndent(r, "", " ")
	fmt.Println(string(b))
	for _, l := range r.PerScenario {
		fmt.Println(l)
	}
	st := c15.Stats()
	var names []string
	for n := range st {
		names = append(names, n)
	}
	sort.Strings(names)
	var tot c15.Stat
	for _, n := range names {
		s := st[n]
		fmt.Printf("%-18s space=%d docs=%d elements=%d findby=%d ids-outside-ExactId=%d selfcheck-fails=%d\n", n, s.Space, s.Docs, s.Elements, s.IDs, s.OutsideIDs, s.SelfCheckFails)
		tot.Space += s.Space
		tot.Docs += s.Docs
		tot.Elements += s.Elements
		tot.IDs += s.IDs
	}
	fmt.Printf("%-18s space=%d docs=%d elements=%d findby=%d\n", "TOTAL", tot.Space, tot.Docs, tot.Elements, tot.IDs)
	sigs := map[string][]string{}
	for _, v := range r.Violations {
		sigs[v.Sig] = append(sigs[v.Sig], v.Scenario)
	}
	var ss []string
	for s := range sigs {
		ss = append(ss, s)
	}
	sort.Strings(ss)
	fmt.Printf("%d violation records, %d distinct signatures\n", len(r.Violations), len(ss))
	for _, s := range ss {
		fmt.Printf("  %s  (%s)\n", s, strings.Join(sigs[s], ","))
	}
	for _, v := range r.Violations {
		fmt.Printf("VIOLATION %s [%s]\n    %s\n    replay %s\n", v.Sig, v.Scenario, v.Msg, v.Replay)
	}
	if len(r.Violations) > 0 {
		os.Exit(1)
	}
}
