package c16

// Oracle of check C16: canonical forms, item-type classes and comparison.
//
// Interpretation choices (all stated in the task's conventions or derived from the code):
//   - integer kinds (signed and unsigned, also behind one pointer) -> int64, item type "integer";
//     floats -> float64(v), "float"; string -> string, "string"; bool -> bool, "boolean";
//     slice/array -> "array", map/struct -> "object", value = generic JSON tree.
//   - A generic JSON tree is what encoding/json yields for Marshal followed by Unmarshal into `any`
//     (numbers float64). For float32 leaves inside containers BOTH float64(x) and the float64
//     nearest to x's shortest decimal (what encoding/json prints) are accepted.
//   - A pointer is transparent: the canonical form of &x is that of x.
//   - nil (untyped nil, typed nil pointer, nil slice, nil map) is "empty": accepted read-back values
//     are nil, "", an empty/nil []any and an empty/nil map[string]any; accepted item types are ""
//     and the type of the static kind (array for a nil slice, object for a nil map, the pointee's
//     type for a nil pointer). Only a panic or a non-empty value is flagged.
//   - Declared item types (ValueFrom on a typed Value, olive properties): the value is asserted
//     only if the dynamic class of the supplied value equals the declared type (no pointer, except
//     pointer to struct/map for "object", which the code handles explicitly); otherwise only
//     "no panic" is asserted.

import (
	"encoding/json"
	"fmt"
	"reflect"
	"runtime"
	"strconv"
	"strings"

	"github.com/olive-io/bpmn/schema"
)

// class is the static classification of a supplied value.
type class struct {
	item    schema.ItemType // matching item type ("" for untyped nil)
	shape   string          // signature shape: does not depend on the concrete value
	isNil   bool            // empty value
	pointer bool            // supplied through a pointer
	ptrptr  bool
	base    string // shape without the pointer prefix (nil variants and pointer-to-pointer kept)
	named   bool   // named scalar type (type myInt int): kind-based code sees it, type switches do not
}

func kindItem(k reflect.Kind) (schema.ItemType, string) {
	switch k {
	case reflect.Int, reflect.Int8, reflect.Int16, reflect.Int32, reflect.Int64:
		return schema.ItemTypeInteger, "signed-kind"
	case reflect.Uint, reflect.Uint8, reflect.Uint16, reflect.Uint32, reflect.Uint64:
		return schema.ItemTypeInteger, "unsigned-kind"
	case reflect.Float32, reflect.Float64:
		return schema.ItemTypeFloat, "float"
	case reflect.String:
		return schema.ItemTypeString, "string"
	case reflect.Bool:
		return schema.ItemTypeBoolean, "bool"
	case reflect.Slice:
		return schema.ItemTypeArray, "slice"
	case reflect.Array:
		return schema.ItemTypeArray, "array"
	case reflect.Map:
		return schema.ItemTypeObject, "map"
	case reflect.Struct:
		return schema.ItemTypeObject, "struct"
	}
	return "", "other"
}

func classify(v any) class {
	rv := reflect.ValueOf(v)
	if !rv.IsValid() {
		return class{shape: "nil", base: "nil", isNil: true}
	}
	c := class{}
	t := rv.Type()
	for t.Kind() == reflect.Pointer {
		if c.pointer {
			c.ptrptr = true
		}
		c.pointer = true
		if !rv.IsNil() {
			rv = rv.Elem()
		} else {
			c.isNil = true
		}
		t = t.Elem()
	}
	c.item, c.shape = kindItem(t.Kind())
	switch t.Kind() {
	case reflect.Slice, reflect.Array, reflect.Map, reflect.Struct:
	default:
		c.named = t.PkgPath() != ""
	}
	if c.named {
		c.shape = "named-" + c.shape
	}
	c.base = c.shape
	if (t.Kind() == reflect.Slice || t.Kind() == reflect.Map) && !c.isNil && rv.IsNil() {
		c.isNil = true
	}
	switch {
	case c.isNil && c.pointer:
		c.shape = "nil-pointer"
		c.base = c.shape
	case c.isNil:
		c.shape = "nil-" + c.shape
		c.base = c.shape
	case c.ptrptr:
		c.shape = "pointer-to-pointer"
		c.base = c.shape
	case c.pointer:
		c.shape = "pointer-to-" + c.shape
	}
	return c
}

// treeA builds the generic JSON tree of v with float32 widened exactly (float64(x)); it mirrors
// encoding/json for the kinds of the grammar (exported fields, json name tags, "-", omitempty).
func treeA(rv reflect.Value) any {
	if !rv.IsValid() {
		return nil
	}
	switch rv.Kind() {
	case reflect.Pointer, reflect.Interface:
		if rv.IsNil() {
			return nil
		}
		return treeA(rv.Elem())
	case reflect.Int, reflect.Int8, reflect.Int16, reflect.Int32, reflect.Int64:
		return float64(rv.Int())
	case reflect.Uint, reflect.Uint8, reflect.Uint16, reflect.Uint32, reflect.Uint64:
		return float64(rv.Uint())
	case reflect.Float32, reflect.Float64:
		return rv.Float()
	case reflect.String:
		return rv.String()
	case reflect.Bool:
		return rv.Bool()
	case reflect.Slice:
		if rv.IsNil() {
			return nil
		}
		fallthrough
	case reflect.Array:
		out := make([]any, rv.Len())
		for i := range out {
			out[i] = treeA(rv.Index(i))
		}
		return out
	case reflect.Map:
		if rv.IsNil() {
			return nil
		}
		out := map[string]any{}
		it := rv.MapRange()
		for it.Next() {
			out[it.Key().String()] = treeA(it.Value())
		}
		return out
	case reflect.Struct:
		out := map[string]any{}
		t := rv.Type()
		for i := 0; i < t.NumField(); i++ {
			f := t.Field(i)
			if !f.IsExported() {
				continue
			}
			name := f.Name
			omit := false
			if tag, ok := f.Tag.Lookup("json"); ok {
				if tag == "-" {
					continue
				}
				tn, opts := tag, ""
				for j := 0; j < len(tag); j++ {
					if tag[j] == ',' {
						tn, opts = tag[:j], tag[j+1:]
						break
					}
				}
				if tn != "" {
					name = tn
				}
				omit = opts == "omitempty"
			}
			if omit && rv.Field(i).IsZero() {
				continue
			}
			out[name] = treeA(rv.Field(i))
		}
		return out
	}
	panic(fmt.Sprintf("c16 oracle: unsupported kind %v", rv.Kind()))
}

// treeB is the encoding/json round trip.
func treeB(v any) any {
	b, err := json.Marshal(v)
	if err != nil {
		panic("c16 oracle: encoding/json cannot marshal a generated value: " + err.Error())
	}
	var out any
	if err := json.Unmarshal(b, &out); err != nil {
		panic("c16 oracle: " + err.Error())
	}
	return out
}

// treeEqual compares two generic JSON trees strictly (types included). f32 tolerates the float32
// rounding difference (used only for the oracle's self-check).
func treeEqual(a, b any, f32 bool) bool {
	switch x := a.(type) {
	case nil:
		return b == nil
	case bool:
		y, ok := b.(bool)
		return ok && x == y
	case string:
		y, ok := b.(string)
		return ok && x == y
	case float64:
		y, ok := b.(float64)
		if !ok {
			return false
		}
		if x == y {
			return true
		}
		return f32 && float32(x) == float32(y)
	case []any:
		y, ok := b.([]any)
		if !ok || len(x) != len(y) {
			return false
		}
		for i := range x {
			if !treeEqual(x[i], y[i], f32) {
				return false
			}
		}
		return true
	case map[string]any:
		y, ok := b.(map[string]any)
		if !ok || len(x) != len(y) {
			return false
		}
		for k, xv := range x {
			yv, ok := y[k]
			if !ok || !treeEqual(xv, yv, f32) {
				return false
			}
		}
		return true
	}
	return false
}

// want is the expectation for a stored top-level value.
type want struct {
	cls   class
	empty bool
	alts  []any // acceptable canonical read-back values (1 for scalars, 2 trees for containers)
}

func trees(v any) []any {
	a := treeA(reflect.ValueOf(v))
	b := treeB(v)
	if !treeEqual(a, b, true) {
		panic(fmt.Sprintf("c16 oracle self-check: own tree %#v differs from encoding/json %#v", a, b))
	}
	if treeEqual(a, b, false) {
		return []any{a}
	}
	return []any{a, b}
}

func expect(v any) want {
	c := classify(v)
	w := want{cls: c}
	if c.isNil {
		w.empty = true
		return w
	}
	rv := reflect.ValueOf(v)
	for rv.Kind() == reflect.Pointer {
		rv = rv.Elem()
	}
	switch rv.Kind() {
	case reflect.Int, reflect.Int8, reflect.Int16, reflect.Int32, reflect.Int64:
		w.alts = []any{rv.Int()}
	case reflect.Uint, reflect.Uint8, reflect.Uint16, reflect.Uint32, reflect.Uint64:
		w.alts = []any{int64(rv.Uint())}
	case reflect.Float32, reflect.Float64:
		w.alts = []any{rv.Float()}
		if rv.Kind() == reflect.Float32 {
			// as inside containers: the float64 nearest to the float32's shortest decimal
			// (what encoding/json and %v print for a float32) is the same value in canonical form
			if f, err := strconv.ParseFloat(strconv.FormatFloat(rv.Float(), 'g', -1, 32), 64); err == nil && f != rv.Float() {
				w.alts = append(w.alts, f)
			}
		}
	case reflect.String:
		w.alts = []any{rv.String()}
	case reflect.Bool:
		w.alts = []any{rv.Bool()}
	default:
		w.alts = trees(v)
	}
	return w
}

func isEmptyValue(got any) bool {
	switch x := got.(type) {
	case nil:
		return true
	case string:
		return x == ""
	case []any:
		return len(x) == 0
	case map[string]any:
		return len(x) == 0
	}
	return false
}

// topEqual compares a read-back top-level value with one canonical alternative.
func topEqual(got, alt any) bool {
	switch a := alt.(type) {
	case int64:
		g, ok := got.(int64)
		return ok && g == a
	}
	return treeEqual(alt, got, false)
}

// verdict of comparing (type, value) read back against the expectation.
// clause is "" (ok), "value-lost", "wrong-item-type" or "value-changed"; shape refines the signature.
func (w want) check(gotType schema.ItemType, got any) (clause, shape, detail string) {
	if w.empty {
		if !isEmptyValue(got) {
			return "value-changed", w.cls.base, fmt.Sprintf("empty value read back as %#v", got)
		}
		if gotType != "" && gotType != w.cls.item {
			return "wrong-item-type", w.cls.base, fmt.Sprintf("item type %q for an empty value of class %q", gotType, w.cls.item)
		}
		return "", "", ""
	}
	okv := false
	for _, a := range w.alts {
		if topEqual(got, a) {
			okv = true
			break
		}
	}
	if gotType == "" && isEmptyValue(got) {
		return "value-lost", w.cls.base, fmt.Sprintf("nothing stored: item type \"\" and value %s read back, want %s", show(got), show(w.alts[0]))
	}
	if gotType != w.cls.item {
		return "wrong-item-type", w.cls.base, fmt.Sprintf("item type %q, want %q (value read back %s)", gotType, w.cls.item, show(got))
	}
	if !okv {
		shape := w.cls.base
		if _, isF := got.(float64); isF && w.cls.item == schema.ItemTypeFloat {
			shape = "float-precision"
		}
		return "value-changed", shape, fmt.Sprintf("read back %s, want %s", show(got), show(w.alts[0]))
	}
	return "", "", ""
}

func show(v any) string {
	s := fmt.Sprintf("%T(%#v)", v, v)
	if len(s) > 300 {
		s = s[:300] + "..."
	}
	return s
}

// matchesDeclared says whether the value's dynamic class equals the declared item type in the
// sense of the statement (then the canonical value must come back from a typed Value).
func matchesDeclared(c class, t schema.ItemType) bool {
	if c.isNil || c.ptrptr || c.named || c.item != t {
		return false
	}
	if c.pointer {
		return t == schema.ItemTypeObject
	}
	return true
}

const harnessMark = "C16 HARNESS BUG"

// guard runs f and converts a panic into a description "<panic value> at <file:line of the
// innermost repository frame>". A panic whose innermost non-library frame is this package (not
// the repository) is a bug of the checker; it is marked and reported as a cap, never as a violation.
func guard(f func()) (panicked string) {
	defer func() {
		if r := recover(); r != nil {
			panicked = fmt.Sprint(r)
			if len(panicked) > 200 {
				panicked = panicked[:200]
			}
			pcs := make([]uintptr, 64)
			n := runtime.Callers(0, pcs)
			frames := runtime.CallersFrames(pcs[:n])
			seenPanic := false
			for {
				fr, more := frames.Next()
				if fr.Function == "runtime.gopanic" {
					seenPanic = true
				} else if seenPanic {
					if strings.HasPrefix(fr.Function, "github.com/olive-io/bpmn/") {
						file := fr.File
						if i := strings.Index(file, "/repo/"); i >= 0 {
							file = file[i:]
						}
						panicked += fmt.Sprintf(" at %s:%d (%s)", file, fr.Line, fr.Function)
						break
					}
					if strings.HasPrefix(fr.Function, "verif/seq/c16.") {
						panicked = fmt.Sprintf("%s: %s at %s:%d", harnessMark, panicked, fr.File, fr.Line)
						break
					}
				}
				if !more {
					break
				}
			}
		}
	}()
	f()
	return ""
}
