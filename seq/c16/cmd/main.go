// Stand-alone runner for the C16 sequential checker.
//
//	go run ./seq/c16/cmd -tier quick|thorough [-only substr] [-budget 600s] [-list]
package main

import (
	"encoding/json"
	"flag"
	"fmt"
	"os"
	"runtime/pprof"
	"strings"
	"time"

	"verif/harness/rep"
	"verif/seq/c16"
)

func main() {
	tier := flag.String("tier", "quick", "quick or thorough")
	only := flag.String("only", "", "run only Plains whose name contains this")
	budget := flag.Duration("budget", 30*time.Minute, "time budget")
	list := flag.Bool("list", false, "list Plains, weights and the size of the value grammar")
	prof := flag.String("cpuprofile", "", "write a CPU profile to this file")
	flag.Parse()
	if *prof != "" {
		f, err := os.Create(*prof)
		if err == nil {
			pprof.StartCPUProfile(f)
			defer pprof.StopCPUProfile()
		}
	}

	plains := c16.Plains(*tier)
	if *list {
		for _, p := range plains {
			fmt.Printf("%-24s weight=%d\n", p.Name, p.Weight)
		}
		b, _ := json.Marshal(c16.SpaceSize(*tier))
		fmt.Println("value grammar:", string(b))
		return
	}
	t0 := time.Now()
	r := rep.New("C16", *tier, "/tmp/c16-replays", t0.Add(*budget))
	for _, p := range plains {
		if *only != "" && !strings.Contains(p.Name, *only) {
			continue
		}
		r.RunPlain(p)
	}
	r.Finish(t0)
	per := r.PerScenario
	r.PerScenario = nil
	b, _ := json.MarshalIndent(r, "", " ")
	fmt.Println(string(b))
	sz, _ := json.Marshal(c16.SpaceSize(*tier))
	fmt.Println("value grammar:", string(sz))
	for _, l := range per {
		fmt.Println(l)
	}
	for _, v := range r.Violations {
		fmt.Printf("VIOLATION %s [%s]\n    %s\n    replay: %s\n", v.Sig, v.Scenario, v.Msg, v.Replay)
	}
}
