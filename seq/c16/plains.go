// Package c16 decides property C16 ("values survive storage unchanged; no value or declaration
// makes the engine panic") by exhaustive enumeration of a finite value grammar (see values.go)
// against every storage entry point of the repository. Interpretation choices: see oracle.go.
//
// Nontrivial rule for r.Case: a case is trivial iff its value is a plain small scalar (an integer
// in -1..1, a float in {0,-0.5,1.5}, a short ASCII string without special characters, a bool);
// every other value (boundary scalars, unicode/escaped strings, nil, pointers, containers) is
// nontrivial.
package c16

import (
	"context"
	"fmt"
	"reflect"
	"sort"
	"strconv"
	"strings"

	"github.com/olive-io/bpmn/schema"
	bpmn "github.com/olive-io/bpmn/v2"
	"github.com/olive-io/bpmn/v2/pkg/data"
	"github.com/olive-io/bpmn/v2/pkg/id"

	"verif/harness/rep"
)

// Plains returns the enumerations of C16 for a tier ("quick": depth 2, "thorough": depth 3).
func Plains(tier string) []*rep.Plain {
	d := depthFor(tier)
	// Weight ~ measured CPU seconds x 4 (thorough) of the Plain when run alone, at least 1. newvalue is
	// dominated by the JSON encoder's per-type compilation (every generated type is new to it).
	wt := func(quick, thorough int) int {
		if d >= 3 {
			return thorough
		}
		return quick
	}
	ps := []*rep.Plain{
		{Name: "newvalue", Weight: wt(2, 20), Run: func(r *rep.Report) { runNewValue(r, values(d)) }},
		{Name: "valuefrom", Weight: wt(2, 20), Run: func(r *rep.Report) { runValueFrom(r, values(d)) }},
		{Name: "setvariable", Weight: wt(2, 20), Run: func(r *rep.Report) { runSetVariable(r, values(d)) }},
		{Name: "isolation", Weight: wt(2, 22), Run: func(r *rep.Report) { runIsolation(r, values(d)) }},
		{Name: "process", Weight: wt(2, 2), Run: func(r *rep.Report) { runProcess(r, values(1)) }},
		{Name: "apply", Weight: wt(2, 22), Run: func(r *rep.Report) { runApply(r, values(d)) }},
		{Name: "dataobject", Weight: wt(2, 20), Run: func(r *rep.Report) { runDataObject(r, values(d)) }},
	}
	// fetchinput is the most expensive entry point: split by value class (depth, then residue)
	split := func(name string, w int, pred func(i int, g gv) bool) {
		ps = append(ps, &rep.Plain{Name: name, Weight: w, Run: func(r *rep.Report) {
			var sel []gv
			for i, g := range values(d) {
				if pred(i, g) {
					sel = append(sel, g)
				}
			}
			runFetch(r, sel)
		}})
	}
	split("fetchinput-d0", 1, func(i int, g gv) bool { return g.depth == 0 })
	split("fetchinput-d1", wt(3, 4), func(i int, g gv) bool { return g.depth == 1 })
	if d < 3 {
		split("fetchinput-d2", 4, func(i int, g gv) bool { return g.depth == 2 })
	} else {
		for k := 0; k < 2; k++ {
			k := k
			split(fmt.Sprintf("fetchinput-d2-%d", k), 16, func(i int, g gv) bool { return g.depth == 2 && i%2 == k })
		}
		for k := 0; k < 4; k++ {
			k := k
			split(fmt.Sprintf("fetchinput-d3-%d", k), 14, func(i int, g gv) bool { return g.depth == 3 && i%4 == k })
		}
	}
	return ps
}

// SpaceSize reports the size of the value grammar for a tier: values per depth.
func SpaceSize(tier string) map[string]int {
	out := map[string]int{}
	for _, g := range values(depthFor(tier)) {
		out["depth"+strconv.Itoa(g.depth)]++
		out["total"]++
	}
	return out
}

type env struct {
	r     *rep.Report
	entry string
}

func (e env) violation(clause, shape, msg string, g gv, declared string, extra map[string]any) {
	if strings.Contains(msg, harnessMark) {
		e.r.Cap(msg)
		return
	}
	in := map[string]any{"value": g.desc, "go_type": fmt.Sprintf("%T", g.v), "entry": e.entry, "declared_type": declared, "depth": g.depth}
	for k, v := range extra {
		in[k] = v
	}
	e.r.Violation("C16/"+e.entry+"/"+clause+"/"+shape, msg, in)
}

func (e env) expired() bool {
	if e.r.Expired() {
		e.r.Cap("time budget exhausted; remaining values of entry point " + e.entry + " not evaluated")
		return true
	}
	return false
}

// ---------------------------------------------------------------- (1) schema.NewValue

func runNewValue(r *rep.Report, vs []gv) {
	e := env{r, "newvalue"}
	for i, g := range vs {
		if i%256 == 0 && e.expired() {
			return
		}
		w := expect(g.v)
		var typ schema.ItemType
		var val any
		p := guard(func() {
			sv := schema.NewValue(g.v)
			typ = sv.Type()
			val = sv.Value()
		})
		r.Case("newvalue|"+g.desc, g.nontrivial)
		if i%97 == 5 {
			r.Sample(map[string]any{"entry": "newvalue", "value": g.desc, "type": typ, "read_back": show(val)})
		}
		if p != "" {
			e.violation("panic", w.cls.base, fmt.Sprintf("schema.NewValue(%s) panics: %s", g.desc, p), g, "", nil)
			continue
		}
		if clause, shape, detail := w.check(typ, val); clause != "" {
			e.violation(clause, shape, fmt.Sprintf("schema.NewValue(%s): %s", g.desc, detail), g, "", nil)
			continue
		}
		// a *schema.Value handed to NewValue is copied, not re-encoded
		if typ != "" {
			var typ2 schema.ItemType
			var val2 any
			sv0 := &schema.Value{ItemType: typ, ItemValue: ""}
			p := guard(func() {
				sv0 = schema.NewValue(g.v)
				sv := schema.NewValue(sv0)
				typ2, val2 = sv.Type(), sv.Value()
			})
			if p != "" {
				e.violation("panic", "value-of-value", fmt.Sprintf("NewValue(NewValue(%s)) panics: %s", g.desc, p), g, "", nil)
			} else if clause, shape, detail := w.check(typ2, val2); clause != "" {
				e.violation(clause, "value-of-value-"+shape, fmt.Sprintf("NewValue(NewValue(%s)): %s", g.desc, detail), g, "", nil)
			}
		}
	}
}

// ---------------------------------------------------------------- (2) typed Value.ValueFrom

func runValueFrom(r *rep.Report, vs []gv) {
	e := env{r, "valuefrom"}
	for i, g := range vs {
		if i%256 == 0 && e.expired() {
			return
		}
		w := expect(g.v)
		for _, t := range declaredTypes {
			var typ schema.ItemType
			var val any
			p := guard(func() {
				sv := &schema.Value{ItemType: t}
				sv.ValueFrom(g.v)
				typ = sv.Type()
				val = sv.Value()
			})
			r.Case("valuefrom|"+typeName(t)+"|"+g.desc, g.nontrivial)
			if i%131 == 7 && t == schema.ItemTypeArray {
				r.Sample(map[string]any{"entry": "valuefrom", "declared": typeName(t), "value": g.desc, "type": typ, "read_back": show(val)})
			}
			with := "-with-" + typeName(t) + "-type"
			if p != "" {
				e.violation("panic", w.cls.base+with, fmt.Sprintf("(&schema.Value{ItemType:%q}).ValueFrom(%s) panics: %s", t, g.desc, p), g, typeName(t), nil)
				continue
			}
			if t != "" && !matchesDeclared(w.cls, t) {
				continue // declared type does not fit the dynamic type: only "no panic" is asserted
			}
			if clause, shape, detail := w.check(typ, val); clause != "" {
				e.violation(clause, shape+with, fmt.Sprintf("(&schema.Value{ItemType:%q}).ValueFrom(%s): %s", t, g.desc, detail), g, typeName(t), nil)
			}
		}
	}
}

// ---------------------------------------------------------------- (3) FlowDataLocator variables

func runSetVariable(r *rep.Report, vs []gv) {
	e := env{r, "setvariable"}
	for i, g := range vs {
		if i%256 == 0 && e.expired() {
			return
		}
		w := expect(g.v)
		loc := data.NewFlowDataLocator()
		var got, ival any
		var found, ifound, missFound bool
		var ityp schema.ItemType
		var miss any
		p := guard(func() {
			loc.SetVariable("old", "old")
			loc.SetVariable("x", "old") // overwritten below
			loc.SetVariable("x", g.v)
			got, found = loc.GetVariable("x")
			item, ok := loc.CloneVariables()["x"]
			ifound = ok
			if ok {
				ityp, ival = item.Type(), item.Value()
			}
			miss, missFound = loc.GetVariable("missing")
		})
		r.Case("setvariable|"+g.desc, g.nontrivial)
		if i%101 == 9 {
			r.Sample(map[string]any{"entry": "setvariable", "value": g.desc, "type": ityp, "read_back": show(got)})
		}
		if p != "" {
			e.violation("panic", w.cls.base, fmt.Sprintf("SetVariable(\"x\", %s)/GetVariable/CloneVariables panics: %s", g.desc, p), g, "", nil)
			continue
		}
		if !found || !ifound {
			e.violation("value-lost", w.cls.shape, fmt.Sprintf("variable set to %s is not found afterwards", g.desc), g, "", nil)
			continue
		}
		if missFound || miss != nil {
			e.violation("phantom-variable", w.cls.shape, "GetVariable of a name never set reports a value", g, "", nil)
		}
		if clause, shape, detail := w.check(ityp, got); clause != "" {
			e.violation(clause, shape, fmt.Sprintf("SetVariable(%s) then GetVariable: %s", g.desc, detail), g, "", nil)
			continue
		} else if clause, shape, detail := w.check(ityp, ival); clause != "" {
			e.violation(clause, "clone-"+shape, fmt.Sprintf("SetVariable(%s) then CloneVariables()[x].Value(): %s", g.desc, detail), g, "", nil)
			continue
		}
		if o, ok := loc.GetVariable("old"); !ok || o != "old" {
			e.violation("other-variable-changed", w.cls.shape, fmt.Sprintf("setting x to %s changed variable old to %s", g.desc, show(o)), g, "", nil)
		}
		// storing the stored item again (IItem / *schema.Value path of SetVariable) keeps the value
		p = guard(func() {
			l2 := data.NewFlowDataLocator()
			l2.SetVariable("y", loc.CloneVariables()["x"])
			got, found = l2.GetVariable("y")
			ityp = l2.CloneVariables()["y"].Type()
		})
		if p != "" {
			e.violation("panic", "restore-"+w.cls.base, fmt.Sprintf("SetVariable(y, item of %s) panics: %s", g.desc, p), g, "", nil)
		} else if clause, shape, detail := w.check(ityp, got); clause != "" || !found {
			e.violation("value-changed", "restore-"+shape, fmt.Sprintf("re-storing the item of %s: %s", g.desc, detail), g, "", nil)
		}
	}
}

// ---------------------------------------------------------------- (4) isolation / aliasing

// differ changes x (settable) to a value different from its current one; false if impossible.
func differ(x reflect.Value) bool {
	if !x.CanSet() && x.Kind() != reflect.Map && x.Kind() != reflect.Slice && x.Kind() != reflect.Pointer {
		return false
	}
	switch x.Kind() {
	case reflect.Bool:
		x.SetBool(!x.Bool())
	case reflect.Int, reflect.Int8, reflect.Int16, reflect.Int32, reflect.Int64:
		if x.Int() > 0 {
			x.SetInt(x.Int() - 1)
		} else {
			x.SetInt(x.Int() + 1)
		}
	case reflect.Uint, reflect.Uint8, reflect.Uint16, reflect.Uint32, reflect.Uint64:
		if x.Uint() > 0 {
			x.SetUint(x.Uint() - 1)
		} else {
			x.SetUint(1)
		}
	case reflect.Float32, reflect.Float64:
		if x.Float() == 2 {
			x.SetFloat(3)
		} else {
			x.SetFloat(2)
		}
	case reflect.String:
		x.SetString(x.String() + "MUT")
	case reflect.Interface:
		if !x.CanSet() {
			return false
		}
		x.Set(reflect.ValueOf("MUT" + fmt.Sprint(x.Interface())))
	case reflect.Pointer:
		if x.IsNil() {
			if !x.CanSet() {
				return false
			}
			x.Set(reflect.New(x.Type().Elem()))
			return true
		}
		if differ(x.Elem()) {
			return true
		}
		if !x.CanSet() {
			return false
		}
		x.Set(reflect.Zero(x.Type()))
	case reflect.Slice:
		if x.Len() > 0 {
			return differ(x.Index(0))
		}
		if !x.CanSet() {
			return false
		}
		x.Set(reflect.MakeSlice(x.Type(), 1, 1))
	case reflect.Array:
		if x.Len() == 0 {
			return false
		}
		return differ(x.Index(0))
	case reflect.Map:
		if x.IsNil() {
			if !x.CanSet() {
				return false
			}
			x.Set(reflect.MakeMap(x.Type()))
		}
		for _, k := range x.MapKeys() {
			x.SetMapIndex(k, reflect.Value{})
		}
		x.SetMapIndex(reflect.ValueOf("MUT"), reflect.Zero(x.Type().Elem()))
	case reflect.Struct:
		for i := 0; i < x.NumField(); i++ {
			if x.Type().Field(i).IsExported() && differ(x.Field(i)) {
				return true
			}
		}
		return false
	default:
		return false
	}
	return true
}

// mutateCaller mutates, in place, the container/pointee the caller handed to the engine.
func mutateCaller(v any) bool {
	rv := reflect.ValueOf(v)
	if !rv.IsValid() {
		return false
	}
	switch rv.Kind() {
	case reflect.Pointer:
		if rv.IsNil() {
			return false
		}
		return differ(rv.Elem())
	case reflect.Slice:
		if rv.Len() == 0 {
			return false
		}
		return differ(rv.Index(0))
	case reflect.Map:
		if rv.IsNil() {
			return false
		}
		return differ(rv)
	}
	return false
}

// mutateReadBack scribbles over a read-back container (all levels).
func mutateReadBack(v any) bool {
	switch x := v.(type) {
	case []any:
		if len(x) == 0 {
			return false
		}
		for i := range x {
			mutateReadBack(x[i])
			x[i] = "MUT"
		}
		return true
	case map[string]any:
		if x == nil {
			return false
		}
		for k, e := range x {
			mutateReadBack(e)
			delete(x, k)
		}
		x["MUT"] = 1.0
		return true
	}
	return false
}

func runIsolation(r *rep.Report, vs []gv) {
	e := env{r, "isolation"}
	other := "other-instance-value"
	for i, g := range vs {
		if i%256 == 0 && e.expired() {
			return
		}
		w := expect(g.v)
		r.Case("isolation|"+g.desc, g.nontrivial)
		if i%211 == 3 {
			r.Sample(map[string]any{"entry": "isolation", "value": g.desc})
		}
		var steps []string // failed steps
		var l1, l2, l3 *data.FlowDataLocator
		ok := func(l *data.FlowDataLocator, name string, w want) string {
			got, found := l.GetVariable(name)
			if !found {
				return "not found"
			}
			item := l.CloneVariables()[name]
			if c, _, d := w.check(item.Type(), got); c != "" {
				return d
			}
			if c, _, d := w.check(item.Type(), item.Value()); c != "" {
				return d
			}
			return ""
		}
		wo := expect(other)
		p := guard(func() {
			l1, l2 = data.NewFlowDataLocator(), data.NewFlowDataLocator()
			// through the public option, as a process would be configured
			m1 := map[string]any{"x": g.v}
			m2 := map[string]any{"x": other, "only2": 2}
			var o1, o2 bpmn.Options
			bpmn.WithLocator(l1)(&o1)
			bpmn.WithVariables(m1)(&o1)
			bpmn.WithLocator(l2)(&o2)
			bpmn.WithVariables(m2)(&o2)
			if d := ok(l1, "x", w); d != "" {
				steps = append(steps, "stored|stored: "+d)
				return // storage itself is broken for this value: the other entry points report it
			}
			if d := ok(l2, "x", wo); d != "" {
				steps = append(steps, "cross-talk/other-locator|cross-talk l1->l2: "+d)
			}
			if _, f := l1.GetVariable("only2"); f {
				steps = append(steps, "cross-talk/other-locator|cross-talk: l1 sees a variable of l2")
			}
			// caller mutates its own containers afterwards
			m1["x"] = "replaced-by-caller"
			m1["new"] = 1
			delete(m2, "x")
			if d := ok(l1, "x", w); d != "" {
				steps = append(steps, "aliasing/variables-map|aliasing of the variables map: "+d)
			}
			if _, f := l1.GetVariable("new"); f {
				steps = append(steps, "aliasing/variables-map|aliasing of the variables map: later key visible")
			}
			if d := ok(l2, "x", wo); d != "" {
				steps = append(steps, "aliasing/variables-map|aliasing of the variables map (delete): "+d)
			}
			if mutateCaller(g.v) {
				if d := ok(l1, "x", w); d != "" {
					steps = append(steps, "aliasing/caller-container|aliasing of the caller's container/pointee: "+d)
				}
			}
			// mutate what was read back
			got, _ := l1.GetVariable("x")
			if mutateReadBack(got) {
				if d := ok(l1, "x", w); d != "" {
					steps = append(steps, "aliasing/read-back-value|aliasing of the read-back value: "+d)
				}
			}
			cv := l1.CloneVariables()
			if mutateReadBack(cv["x"].Value()) {
				if d := ok(l1, "x", w); d != "" {
					steps = append(steps, "aliasing/cloned-item-value|aliasing of the cloned item's value: "+d)
				}
			}
			cv["x"] = schema.NewValue("scribble")
			cv["extra"] = schema.NewValue(1)
			if d := ok(l1, "x", w); d != "" {
				steps = append(steps, "aliasing/clone-variables-map|aliasing of the CloneVariables map: "+d)
			}
			if _, f := l1.GetVariable("extra"); f {
				steps = append(steps, "aliasing/clone-variables-map|aliasing of the CloneVariables map: key added")
			}
			// merge into a third locator, then diverge
			l3 = data.NewFlowDataLocator()
			l3.Merge(l1)
			if d := ok(l3, "x", w); d != "" {
				steps = append(steps, "merge/merged-copy|merge: "+d)
			}
			l1.SetVariable("x", other)
			if d := ok(l3, "x", w); d != "" {
				steps = append(steps, "merge/set-on-source|after merge, set on source visible in target: "+d)
			}
			l3.SetVariable("x", "third")
			if d := ok(l1, "x", wo); d != "" {
				steps = append(steps, "merge/set-on-target|after merge, set on target visible in source: "+d)
			}
			if d := ok(l2, "x", wo); d != "" {
				steps = append(steps, "cross-talk/unrelated-locator|unrelated locator changed: "+d)
			}
		})
		if p != "" {
			e.violation("panic", w.cls.base, fmt.Sprintf("isolation script with %s panics: %s", g.desc, p), g, "", nil)
			continue
		}
		for _, s := range steps {
			tag, detail, _ := strings.Cut(s, "|")
			if tag == "stored" {
				break // storage itself is broken for this value: reported by setvariable
			}
			clause, shape, _ := strings.Cut(tag, "/")
			e.violation(clause, shape, fmt.Sprintf("value %s: %s", g.desc, detail), g, "", map[string]any{"step": detail})
		}
	}
}

// ---------------------------------------------------------------- (4b) two real process instances

func runProcess(r *rep.Report, vs []gv) {
	e := env{r, "process"}
	ext, _, _ := resultsExt()
	defs, _, err := parseDoc(ext)
	if err != nil {
		r.Cap("cannot parse the fixture document: " + err.Error())
		return
	}
	procEl, found := defs.FindBy(schema.ExactId("proc"))
	if !found {
		r.Cap("fixture: process not found")
		return
	}
	pe := procEl.(*schema.Process)
	other := "other-instance-value"
	wo := expect(other)
	// the default (sno) generator costs ~10 ms of calibration per process; ids are irrelevant here
	idg := id.NewFallbackGenerator()
	for i, g := range vs {
		if i%64 == 0 && e.expired() {
			return
		}
		w := expect(g.v)
		r.Case("process|"+g.desc, g.nontrivial)
		if i%301 == 11 {
			r.Sample(map[string]any{"entry": "process", "value": g.desc})
		}
		// The instances are never started and their context is never cancelled: after a cancel the
		// tracer and relay goroutines of a not-started process busy-spin on ctx.Done() (they wait
		// for senders that never finish), which would burn all CPUs. Idle goroutines are leaked instead.
		ctx := context.Background()
		var steps []string
		p := guard(func() {
			m1 := map[string]any{"x": g.v}
			m2 := map[string]any{"x": other}
			p1, err1 := bpmn.NewProcess(pe, defs, bpmn.WithContext(ctx), bpmn.WithIdGenerator(idg), bpmn.WithVariables(m1), bpmn.WithDataObjects(map[string]any{"DO_in": g.v}))
			p2, err2 := bpmn.NewProcess(pe, defs, bpmn.WithContext(ctx), bpmn.WithIdGenerator(idg), bpmn.WithVariables(m2), bpmn.WithDataObjects(map[string]any{"DO_in": other}))
			if err1 != nil || err2 != nil {
				steps = append(steps, fmt.Sprintf("setup/new-process-error|NewProcess errors %v / %v", err1, err2))
				return
			}
			chk := func(l data.IFlowDataLocator, w want, what string) {
				got, f := l.GetVariable("x")
				if !f {
					steps = append(steps, what+": variable not found")
					return
				}
				item := l.CloneVariables()["x"]
				if c, _, d := w.check(item.Type(), got); c != "" {
					steps = append(steps, what+": variable "+d)
				}
				al, f := l.FindIItemAwareLocator(data.LocatorObject)
				if !f {
					steps = append(steps, what+": no data object locator")
					return
				}
				for _, id := range []string{"DO_in", "DOR_in"} {
					aw, f := al.FindItemAwareById(id)
					if !f || aw.Get() == nil {
						steps = append(steps, what+": data object "+id+" not found")
						continue
					}
					if c, _, d := w.check(aw.Get().Type(), aw.Get().Value()); c != "" {
						steps = append(steps, what+": data object "+id+" "+d)
					}
				}
			}
			chk(p1.Locator(), w, "stored|stored")
			if len(steps) > 0 {
				return
			}
			chk(p2.Locator(), wo, "cross-talk/other-instance|p2 after creating p1")
			m1["x"] = "replaced"
			mutateCaller(g.v)
			chk(p1.Locator(), w, "aliasing/caller-container|p1 after the caller mutated what it passed in")
			p1.Locator().SetVariable("x", "changed-in-p1")
			p1.Locator().SetVariable("only1", 1)
			chk(p2.Locator(), wo, "cross-talk/set-on-other-instance|p2 after SetVariable on p1")
			if _, f := p2.Locator().GetVariable("only1"); f {
				steps = append(steps, "cross-talk/set-on-other-instance|p2 sees a variable set on p1")
			}
		})
		if p != "" {
			e.violation("panic", w.cls.base, fmt.Sprintf("NewProcess(WithVariables/WithDataObjects %s) script panics: %s", g.desc, p), g, "", nil)
			continue
		}
		for _, s := range steps {
			tag, detail, _ := strings.Cut(s, "|")
			if tag == "stored" {
				break // storage itself is broken for this value: reported by setvariable/dataobject
			}
			clause, shape, _ := strings.Cut(tag, "/")
			e.violation(clause, shape, fmt.Sprintf("value %s: %s", g.desc, detail), g, "", map[string]any{"step": detail})
		}
	}
}

// ---------------------------------------------------------------- (5) ApplyTaskResult / ApplyTaskDataOutput

func runApply(r *rep.Report, vs []gv) {
	ext, fields, outs := resultsExt()
	_, task, err := parseDoc(ext)
	if err != nil {
		r.Cap("cannot parse the fixture document: " + err.Error())
		return
	}
	_, bare, err := parseDoc(`<olive:taskDefinition type="service"/>`)
	if err != nil {
		r.Cap("cannot parse the fixture document: " + err.Error())
		return
	}
	_, noext, err := parseDoc("-")
	if err != nil {
		r.Cap("cannot parse the fixture document: " + err.Error())
		return
	}
	for i, g := range vs {
		if i%256 == 0 && r.Expired() {
			r.Cap("time budget exhausted; remaining values of entry point apply not evaluated")
			return
		}
		w := expect(g.v)
		for _, mode := range []string{"applyresult", "applydataoutput"} {
			e := env{r, mode}
			names := fields
			if mode == "applydataoutput" {
				names = outs
			}
			in := map[string]any{"undeclared": g.v, "": g.v}
			for _, n := range names {
				in[n] = g.v
			}
			var out, outSub, outBare, outNoExt, outNil map[string]data.IItem
			type rd struct {
				t schema.ItemType
				v any
			}
			read := map[string]rd{}
			var piped rd
			pipedOK := false
			p := guard(func() {
				if mode == "applyresult" {
					out = bpmn.ApplyTaskResult(task, in)
					outSub = bpmn.ApplyTaskResult(task, map[string]any{names[0]: g.v, "undeclared": g.v})
					outBare = bpmn.ApplyTaskResult(bare, in)
					outNoExt = bpmn.ApplyTaskResult(noext, in)
					outNil = bpmn.ApplyTaskResult(task, nil)
				} else {
					out = bpmn.ApplyTaskDataOutput(task, in)
					outSub = bpmn.ApplyTaskDataOutput(task, map[string]any{names[0]: g.v, "undeclared": g.v})
					outBare = bpmn.ApplyTaskDataOutput(bare, in)
					outNoExt = bpmn.ApplyTaskDataOutput(noext, in)
					outNil = bpmn.ApplyTaskDataOutput(task, nil)
				}
				for k, it := range out {
					if it == nil {
						continue
					}
					read[k] = rd{it.Type(), it.Value()}
				}
				// what flow.go does with the returned items
				loc := data.NewFlowDataLocator()
				if mode == "applyresult" {
					for k, it := range out {
						loc.SetVariable(k, it)
					}
					if v, ok := loc.GetVariable(names[0]); ok {
						piped, pipedOK = rd{loc.CloneVariables()[names[0]].Type(), v}, true
					}
				} else {
					oc := data.NewDataObjectContainer()
					loc.PutIItemAwareLocator(data.LocatorObject, oc)
					for k, it := range out {
						aw := data.NewContainer(nil)
						oc.PutItemAwareById(k, aw)
						aw.Put(it)
					}
					if it, ok := loc.CloneItems(data.LocatorObject)[names[0]]; ok && it != nil {
						piped, pipedOK = rd{it.Type(), it.Value()}, true
					}
				}
			})
			for _, n := range names {
				r.Case(mode+"|"+n+"|"+g.desc, g.nontrivial)
			}
			if i%173 == 13 && mode == "applyresult" {
				r.Sample(map[string]any{"entry": mode, "value": g.desc, "returned_names": keys(out)})
			}
			if p != "" {
				e.violation("panic", w.cls.base, fmt.Sprintf("%s with value %s panics: %s", mode, g.desc, p), g, "", nil)
				continue
			}
			if len(out) != len(names) || len(outSub) != 1 || len(outBare) != 0 || len(outNoExt) != 0 || len(outNil) != 0 {
				e.violation("undeclared-name-returned", w.cls.shape, fmt.Sprintf("%s returns names %v / %v / %v / %v / %v, want exactly the declared ones that were supplied", mode, keys(out), keys(outSub), keys(outBare), keys(outNoExt), keys(outNil)), g, "", nil)
				continue
			}
			bad := false
			for _, n := range names {
				x, ok := read[n]
				if !ok {
					e.violation("declared-name-missing", w.cls.shape, fmt.Sprintf("%s does not return declared name %s for value %s", mode, n, g.desc), g, n, nil)
					bad = true
					break
				}
				if clause, shape, detail := w.check(x.t, x.v); clause != "" {
					e.violation(clause, shape, fmt.Sprintf("%s name %s value %s: %s", mode, n, g.desc, detail), g, n, nil)
					bad = true
					break
				}
			}
			if bad {
				continue
			}
			if !pipedOK {
				e.violation("value-lost", "stored-"+w.cls.shape, fmt.Sprintf("%s item of %s stored in the instance's locator is not found", mode, g.desc), g, names[0], nil)
			} else if clause, shape, detail := w.check(piped.t, piped.v); clause != "" {
				e.violation(clause, "stored-"+shape, fmt.Sprintf("%s item of %s stored in the instance's locator: %s", mode, g.desc, detail), g, names[0], nil)
			}
		}
	}
}

func keys(m map[string]data.IItem) []string {
	var out []string
	for k := range m {
		out = append(out, k)
	}
	sort.Strings(out)
	return out
}

// ---------------------------------------------------------------- data objects

func runDataObject(r *rep.Report, vs []gv) {
	e := env{r, "dataobject"}
	ext, _, _ := resultsExt()
	_, task, err := parseDoc(ext)
	if err != nil {
		r.Cap("cannot parse the fixture document: " + err.Error())
		return
	}
	for i, g := range vs {
		if i%256 == 0 && e.expired() {
			return
		}
		w := expect(g.v)
		r.Case("dataobject|"+g.desc, g.nontrivial)
		if i%307 == 17 {
			r.Sample(map[string]any{"entry": "dataobject", "value": g.desc})
		}
		var t1, t2, t3 schema.ItemType
		var v1, v2, v3 any
		var f1, f2, f3 bool
		p := guard(func() {
			loc := data.NewFlowDataLocator()
			var o bpmn.Options
			bpmn.WithLocator(loc)(&o)
			bpmn.WithDataObjects(map[string]any{"DOR_in": g.v, "DO_other": "other"})(&o)
			al, ok := loc.FindIItemAwareLocator(data.LocatorObject)
			if !ok {
				return
			}
			if aw, ok := al.FindItemAwareById("DOR_in"); ok && aw.Get() != nil {
				f1, t1, v1 = true, aw.Get().Type(), aw.Get().Value()
			}
			if it, ok := loc.CloneItems(data.LocatorObject)["DOR_in"]; ok && it != nil {
				f2, t2, v2 = true, it.Type(), it.Value()
			}
			_, _, dos := bpmn.FetchTaskDataInput(loc, task)
			if it, ok := dos["in"]; ok && it != nil {
				f3, t3, v3 = true, it.Type(), it.Value()
			}
		})
		if p != "" {
			e.violation("panic", w.cls.base, fmt.Sprintf("WithDataObjects(%s)/FetchTaskDataInput panics: %s", g.desc, p), g, "", nil)
			continue
		}
		if !f1 || !f2 || !f3 {
			e.violation("value-lost", w.cls.shape, fmt.Sprintf("data object %s not found afterwards (byId=%v cloneItems=%v dataInput=%v)", g.desc, f1, f2, f3), g, "", nil)
			continue
		}
		for k, x := range []struct {
			t schema.ItemType
			v any
		}{{t1, v1}, {t2, v2}, {t3, v3}} {
			if clause, shape, detail := w.check(x.t, x.v); clause != "" {
				e.violation(clause, shape, fmt.Sprintf("data object %s read via %s: %s", g.desc, []string{"FindItemAwareById", "CloneItems", "FetchTaskDataInput dataInput"}[k], detail), g, "", nil)
				break
			}
		}
	}
}

// ---------------------------------------------------------------- (6) FetchTaskDataInput references

type refCase struct {
	ref     string // "" = property named like the variable
	name    string // property name
	kind    string // present / null-at-path / absent-path / absent-variable / malformed-ref / empty-path / by-name
	present bool
	alts    []any // canonical alternatives of the referenced JSON value (present only)
}

func simpleKey(k string) bool {
	if k == "" {
		return false
	}
	for _, c := range k {
		if c < 128 && !(c == '_' || c >= '0' && c <= '9' || c >= 'a' && c <= 'z' || c >= 'A' && c <= 'Z') {
			return false
		}
	}
	return true
}

// walk lists every path of a generic JSON tree (keys that need no gjson escaping only).
func walk(t any, prefix string, out *[]string) {
	switch x := t.(type) {
	case []any:
		for i, e := range x {
			p := prefix + strconv.Itoa(i)
			*out = append(*out, p)
			walk(e, p+".", out)
		}
	case map[string]any:
		ks := make([]string, 0, len(x))
		for k := range x {
			if simpleKey(k) {
				ks = append(ks, k)
			}
		}
		sort.Strings(ks)
		for _, k := range ks {
			p := prefix + k
			*out = append(*out, p)
			walk(x[k], p+".", out)
		}
	}
}

func at(t any, path string) (any, bool) {
	for _, seg := range strings.Split(path, ".") {
		switch x := t.(type) {
		case []any:
			i, err := strconv.Atoi(seg)
			if err != nil || i < 0 || i >= len(x) {
				return nil, false
			}
			t = x[i]
		case map[string]any:
			e, ok := x[seg]
			if !ok {
				return nil, false
			}
			t = e
		default:
			return nil, false
		}
	}
	return t, true
}

// jsonClass classifies a generic JSON value.
func jsonClass(v any) (schema.ItemType, string) {
	switch v.(type) {
	case float64:
		return schema.ItemTypeFloat, "number"
	case string:
		return schema.ItemTypeString, "string"
	case bool:
		return schema.ItemTypeBoolean, "bool"
	case []any:
		return schema.ItemTypeArray, "array"
	case map[string]any:
		return schema.ItemTypeObject, "object"
	}
	return "", "null"
}

type elemCache map[string]*schema.ServiceTask

func (c elemCache) get(name, ref string, t schema.ItemType) (*schema.ServiceTask, error) {
	k := name + "\x00" + ref + "\x00" + string(t)
	if el, ok := c[k]; ok {
		return el, nil
	}
	_, el, err := parseDoc(refExt(name, ref, t))
	if err != nil {
		return nil, err
	}
	c[k] = el
	return el, nil
}

func runFetch(r *rep.Report, vs []gv) {
	e := env{r, "fetchinput"}
	cache := elemCache{}
	for i, g := range vs {
		if i%32 == 0 && e.expired() {
			return
		}
		w := expect(g.v)
		// the variables of this instance
		loc := data.NewFlowDataLocator()
		wrapped := map[string]any{"x": g.v}
		hasV := false
		if p := guard(func() {
			var o bpmn.Options
			bpmn.WithLocator(loc)(&o)
			bpmn.WithVariables(map[string]any{"w": wrapped, "s": "str"})(&o)
		}); p != "" {
			e.violation("panic", "setup-"+w.cls.base, fmt.Sprintf("WithVariables(w: {x: %s}) panics: %s", g.desc, p), g, "", nil)
			continue
		}
		if p := guard(func() {
			loc.SetVariable("v", g.v)
			for _, t := range declaredTypes {
				loc.SetVariable("v_"+typeName(t), g.v)
			}
		}); p == "" {
			// else: storing the bare value panics, which entry point setvariable reports
			guard(func() {
				got, found := loc.GetVariable("v")
				item := loc.CloneVariables()["v"]
				if found && item != nil {
					c, _, _ := w.check(item.Type(), got)
					hasV = c == "" // else: the bare value is not stored faithfully (reported by setvariable)
				}
			})
		}
		wt := trees(wrapped)
		var cases []refCase
		inAlts := func(root []any, path string) (alts []any, ok bool) {
			for _, t := range root {
				x, f := at(t, path)
				if !f {
					return nil, false
				}
				alts = append(alts, x)
			}
			return alts, true
		}
		addPath := func(variable string, root []any, path string) {
			alts, ok := inAlts(root, path)
			rc := refCase{ref: "$" + variable + "." + path, name: "p", present: ok, alts: alts}
			switch {
			case !ok:
				rc.kind = "absent-path"
			case alts[0] == nil:
				rc.kind = "null-at-path"
				rc.present = false
			default:
				rc.kind = "present"
			}
			cases = append(cases, rc)
		}
		addPath("w", wt, "x")
		addPath("w", wt, "nope")
		addPath("w", wt, "x.nope.deeper")
		cases = append(cases,
			refCase{ref: "$nov.x", name: "p", kind: "absent-variable"},
			refCase{ref: "$w", name: "p", kind: "malformed-ref"},
			refCase{ref: "$", name: "p", kind: "malformed-ref"},
			refCase{ref: "w.x", name: "p", kind: "malformed-ref"},
			refCase{ref: "$.x", name: "p", kind: "malformed-ref"},
			refCase{ref: "$w.", name: "p", kind: "absent-path"},
		)
		if hasV && !w.empty {
			var paths []string
			walk(w.alts[0], "", &paths) // no paths for scalars
			for _, p := range paths {
				addPath("v", w.alts, p)
			}
		}
		for _, rc := range cases {
			for _, t := range declaredTypes {
				el, err := cache.get(rc.name, rc.ref, t)
				if err != nil {
					r.Cap("fixture for ref " + rc.ref + " does not parse: " + err.Error())
					return
				}
				runFetchCase(e, g, loc, el, rc, t, w)
			}
		}
		if hasV {
			for _, t := range declaredTypes {
				name := "v_" + typeName(t)
				el, err := cache.get(name, "", t)
				if err != nil {
					r.Cap("fixture does not parse: " + err.Error())
					return
				}
				rc := refCase{name: name, kind: "by-name", present: !w.empty, alts: w.alts}
				runFetchCase(e, g, loc, el, rc, t, w)
			}
		}
		if i%41 == 19 {
			r.Sample(map[string]any{"entry": "fetchinput", "value": g.desc, "refs": len(cases)})
		}
	}
}

func runFetchCase(e env, g gv, loc data.IFlowDataLocator, el *schema.ServiceTask, rc refCase, t schema.ItemType, w want) {
	var headers map[string]string
	var props map[string]data.IItem
	var ptyp schema.ItemType
	var pval any
	var pfound bool
	p := guard(func() {
		headers, props, _ = bpmn.FetchTaskDataInput(loc, el)
		if it, ok := props[rc.name]; ok && it != nil {
			pfound, ptyp, pval = true, it.Type(), it.Value()
		}
	})
	refDesc := rc.ref
	if refDesc == "" {
		refDesc = "(by name " + rc.name + ")"
	}
	e.r.Case("fetchinput|"+refDesc+"|"+typeName(t)+"|"+g.desc, g.nontrivial)
	extra := map[string]any{"ref": rc.ref, "property": rc.name, "ref_kind": rc.kind}
	with := "-with-" + typeName(t) + "-type"
	if p != "" {
		shape := rc.kind
		if rc.present {
			_, s := valueShape(rc.alts[0])
			shape = "present-" + s
		}
		e.violation("panic", shape+with, fmt.Sprintf("FetchTaskDataInput with property type=%q ref=%q (%s) on variable value %s panics: %s", t, rc.ref, rc.kind, g.desc, p), g, typeName(t), extra)
		return
	}
	wantType := t
	if wantType == "" {
		wantType = schema.ItemTypeString // Item.UnmarshalXML defaults the declared type to string
	}
	if !pfound {
		e.violation("property-missing", rc.kind+with, fmt.Sprintf("property %s (ref %q) is not returned", rc.name, rc.ref), g, typeName(t), extra)
		return
	}
	// header: a string at a present path replaces the default, anything else keeps it
	wantHeader := "dflt"
	if rc.ref == "" {
		wantHeader = "dflt"
	} else if rc.present {
		if s, ok := rc.alts[0].(string); ok {
			wantHeader = s
		}
	}
	if h, ok := headers["h"]; !ok || h != wantHeader {
		e.violation("header-changed", rc.kind, fmt.Sprintf("header with ref %q on value %s is %q, want %q", rc.ref, g.desc, h, wantHeader), g, "", extra)
	}
	if !rc.present {
		return // nothing referenced: only "no panic" is asserted
	}
	cls, shape := valueShape(rc.alts[0])
	if cls != wantType {
		return // declared property type does not fit the referenced value: only "no panic"
	}
	if ptyp != wantType {
		e.violation("wrong-item-type", shape+with, fmt.Sprintf("property type=%q ref=%q on value %s has item type %q", t, rc.ref, g.desc, ptyp), g, typeName(t), extra)
		return
	}
	for _, a := range rc.alts {
		if topEqual(pval, a) {
			return
		}
	}
	if _, isF := pval.(float64); isF && cls == schema.ItemTypeFloat {
		shape = "float-precision"
	}
	e.violation("value-changed", shape+with, fmt.Sprintf("property type=%q ref=%q on variable value %s yields %s, want %s", t, rc.ref, g.desc, show(pval), show(rc.alts[0])), g, typeName(t), extra)
}

// valueShape classifies a canonical value (top-level canonical: int64 allowed).
func valueShape(v any) (schema.ItemType, string) {
	if _, ok := v.(int64); ok {
		return schema.ItemTypeInteger, "integer"
	}
	return jsonClass(v)
}
