package c16

import (
	"fmt"
	"strings"

	"github.com/olive-io/bpmn/schema"
)

const docTemplate = `<?xml version="1.0" encoding="UTF-8"?>
<bpmn:definitions xmlns:bpmn="http://www.omg.org/spec/BPMN/20100524/MODEL"
                  xmlns:olive="http://olive.io/spec/BPMN/MODEL" id="Definitions_c16" targetNamespace="http://bpmn.io/schema/bpmn">
  <bpmn:process id="proc" isExecutable="true">
    <bpmn:startEvent id="start"><bpmn:outgoing>f1</bpmn:outgoing></bpmn:startEvent>
    <bpmn:serviceTask id="task">
      <bpmn:incoming>f1</bpmn:incoming>
      <bpmn:outgoing>f2</bpmn:outgoing>
      %s
    </bpmn:serviceTask>
    <bpmn:endEvent id="end"><bpmn:incoming>f2</bpmn:incoming></bpmn:endEvent>
    <bpmn:sequenceFlow id="f1" sourceRef="start" targetRef="task"/>
    <bpmn:sequenceFlow id="f2" sourceRef="task" targetRef="end"/>
    <bpmn:dataObjectReference id="DOR_in" name="in" dataObjectRef="DO_in"/>
    <bpmn:dataObject id="DO_in">
      <bpmn:extensionElements>
        <olive:dataObjectBody><![CDATA[{"a": "aa"}]]></olive:dataObjectBody>
      </bpmn:extensionElements>
    </bpmn:dataObject>
    <bpmn:dataObjectReference id="DOR_out" name="out" dataObjectRef="DO_out"/>
    <bpmn:dataObject id="DO_out"/>
  </bpmn:process>
</bpmn:definitions>`

var xmlEsc = strings.NewReplacer("&", "&amp;", "<", "&lt;", ">", "&gt;", `"`, "&quot;", "'", "&apos;", "\n", "&#10;", "\t", "&#9;", "\r", "&#13;")

// parseDoc parses a document whose service task "task" carries the given extension elements
// (ext == "-" : no extensionElements at all).
func parseDoc(ext string) (*schema.Definitions, *schema.ServiceTask, error) {
	body := "<bpmn:extensionElements>" + ext + "</bpmn:extensionElements>"
	if ext == "-" {
		body = ""
	}
	defs, err := schema.Parse([]byte(fmt.Sprintf(docTemplate, body)))
	if err != nil {
		return nil, nil, err
	}
	el, found := defs.FindBy(schema.ExactId("task"))
	if !found {
		return nil, nil, fmt.Errorf("task not found")
	}
	st, ok := el.(*schema.ServiceTask)
	if !ok {
		return nil, nil, fmt.Errorf("task is %T", el)
	}
	return defs, st, nil
}

var declaredTypes = []schema.ItemType{"", schema.ItemTypeObject, schema.ItemTypeArray, schema.ItemTypeInteger,
	schema.ItemTypeString, schema.ItemTypeBoolean, schema.ItemTypeFloat}

func typeName(t schema.ItemType) string {
	if t == "" {
		return "undeclared"
	}
	return string(t)
}

func typeAttr(t schema.ItemType) string {
	if t == "" {
		return ""
	}
	return ` type="` + string(t) + `"`
}

// resultsExt declares one result field per declared type (and one without type), plus two data outputs.
func resultsExt() (ext string, fields []string, outs []string) {
	var b strings.Builder
	b.WriteString(`<olive:taskDefinition type="service"/>`)
	b.WriteString("<olive:results>")
	for _, t := range declaredTypes {
		n := "r_" + typeName(t)
		fields = append(fields, n)
		b.WriteString(`<olive:field name="` + n + `"` + typeAttr(t) + `/>`)
	}
	b.WriteString("</olive:results>")
	outs = []string{"out", "out2"}
	b.WriteString(`<olive:dataInput name="in" targetRef="DOR_in"/>`)
	b.WriteString(`<olive:dataOutput name="out" targetRef="DOR_out"/>`)
	b.WriteString(`<olive:dataOutput name="out2" targetRef="DOR_out"/>`)
	return b.String(), fields, outs
}

// refExt declares one header and one property that reference ref (ref == "": a property whose
// name is the variable name).
func refExt(name, ref string, t schema.ItemType) string {
	r := ""
	if ref != "" {
		r = ` ref="` + xmlEsc.Replace(ref) + `"`
	}
	return `<olive:taskHeaders><olive:header name="h" value="dflt"` + r + `/></olive:taskHeaders>` +
		`<olive:properties><olive:property name="` + xmlEsc.Replace(name) + `"` + typeAttr(t) + r + `/></olive:properties>`
}
