package c16

// The finite value grammar of check C16.
//
//	S  (full scalar set)   every int/uint width at {min,-1,0,1,max} / {0,1,max capped at MaxInt64},
//	                       float32/float64 at 7 boundary values, 14 strings, both booleans,
//	                       4 named scalar types
//	N  (nil leaves)        untyped nil, typed nil pointers, nil slices, nil maps
//	R  (representative leaves, a subset of S ∪ N used below depth 1)
//	C  (constructors)      &x, []T{x}, [1]T{x}, map[string]T{"k":x}, struct{F T}{x},
//	                       struct{F T `json:"f"`}{x}, []any{x}, map[string]any{"k":x}
//	V(0) = S ∪ N
//	V(1) = C(S ∪ N) ∪ multi-element containers ∪ hand-written composites of depth 1
//	V(2) = C(C(R)) ∪ composites of depth 2        (thorough tier: C(C(S ∪ N ∪ R)))
//	V(3) = C(C(C(R))) ∪ composites of depth 3
//
// Exclusions (stated, not sampled away): []uint8 (encoding/json renders it as a base64 string, so
// "slice -> array" and "what encoding/json yields" contradict each other), &x where x is already a
// pointer (pointer-to-pointer is a separate three-element class PP), untyped nil as the child of a
// typed container, uintptr, NaN/Inf, unsigned values above MaxInt64, invalid UTF-8.
//
// The enumeration order is simplest first: depth, then constructor, then leaf order.

import (
	"fmt"
	"math"
	"reflect"
	"strconv"
)

type myInt int
type myStr string
type myFloat float64
type myBool bool

type sPlain struct {
	A int
	B string
	C float64
	D bool
}

type sTags struct {
	A          int     `json:"a"`
	B          string  `json:"b,omitempty"`
	C          *int    `json:"c"`
	U          uint16  `json:"u"`
	F32        float32 `json:"f32"`
	Skip       string  `json:"-"`
	unexported int
}

type sNested struct {
	Inner sPlain             `json:"inner"`
	List  []sTags            `json:"list"`
	M     map[string]*sPlain `json:"m"`
	P     *sNested           `json:"p"`
	Any   any                `json:"any"`
}

// gv is one generated value.
type gv struct {
	v          any           // the value as handed to the repository code
	rv         reflect.Value // typed view (invalid for untyped nil)
	desc       string        // Go-syntax description, unique per value
	depth      int
	nontrivial bool
	byCaller   bool // composites: hand-written
}

func mk(x any, desc string, depth int, nontrivial bool) gv {
	return gv{v: x, rv: reflect.ValueOf(x), desc: desc, depth: depth, nontrivial: nontrivial}
}

func num(x any, small bool) gv {
	return mk(x, fmt.Sprintf("%T(%v)", x, x), 0, !small)
}

func str(s string, small bool) gv { return mk(s, strconv.Quote(s), 0, !small) }

const (
	maxI64 = math.MaxInt64
)

// scalars returns S, grouped so that each kind's boundary values can also be used as the elements
// of one multi-element container.
func scalarGroups() [][]gv {
	var g [][]gv
	g = append(g, []gv{num(int(0), true), num(int(1), true), num(int(-1), true), num(int(math.MinInt), false), num(int(math.MaxInt), false)})
	g = append(g, []gv{num(int8(0), true), num(int8(1), true), num(int8(-1), true), num(int8(math.MinInt8), false), num(int8(math.MaxInt8), false)})
	g = append(g, []gv{num(int16(0), true), num(int16(1), true), num(int16(-1), true), num(int16(math.MinInt16), false), num(int16(math.MaxInt16), false)})
	g = append(g, []gv{num(int32(0), true), num(int32(1), true), num(int32(-1), true), num(int32(math.MinInt32), false), num(int32(math.MaxInt32), false)})
	g = append(g, []gv{num(int64(0), true), num(int64(1), true), num(int64(-1), true), num(int64(math.MinInt64), false), num(int64(math.MaxInt64), false)})
	g = append(g, []gv{num(uint(0), true), num(uint(1), true), num(uint(maxI64), false)})
	g = append(g, []gv{num(uint8(0), true), num(uint8(1), true), num(uint8(math.MaxUint8), false)})
	g = append(g, []gv{num(uint16(0), true), num(uint16(1), true), num(uint16(math.MaxUint16), false)})
	g = append(g, []gv{num(uint32(0), true), num(uint32(1), true), num(uint32(math.MaxUint32), false)})
	g = append(g, []gv{num(uint64(0), true), num(uint64(1), true), num(uint64(maxI64), false)})
	f64 := []float64{0, -0.5, 1.5, 1e-7, 1e21, math.MaxFloat32, 123456.789012345}
	var g32, g64 []gv
	for i, f := range f64 {
		g32 = append(g32, mk(float32(f), "float32("+strconv.FormatFloat(f, 'g', -1, 64)+")", 0, i >= 3))
		g64 = append(g64, mk(f, "float64("+strconv.FormatFloat(f, 'g', -1, 64)+")", 0, i >= 3))
	}
	g = append(g, g32, g64)
	g = append(g, []gv{
		str("", true), str("a", true), str("hello world", true), str("123", true),
		str("héllo", false), str("日本語", false), str("😀", false), str("ключ значение", false),
		str(`q"uo\te`, false), str("line\nbreak\ttab\r", false), str("<&>", false),
		str("true", false), str("null", false), str("[1]", false), str(`{"a":1}`, false),
	})
	g = append(g, []gv{mk(false, "false", 0, false), mk(true, "true", 0, false)})
	return g
}

func namedScalars() []gv {
	return []gv{
		mk(myInt(7), "myInt(7)", 0, true), mk(myStr("x"), `myStr("x")`, 0, true),
		mk(myFloat(1.5), "myFloat(1.5)", 0, true), mk(myBool(true), "myBool(true)", 0, true),
	}
}

func nilLeaves() []gv {
	return []gv{
		{v: nil, desc: "nil", depth: 0, nontrivial: true},
		mk((*int)(nil), "(*int)(nil)", 0, true),
		mk((*uint8)(nil), "(*uint8)(nil)", 0, true),
		mk((*string)(nil), "(*string)(nil)", 0, true),
		mk((*float64)(nil), "(*float64)(nil)", 0, true),
		mk((*bool)(nil), "(*bool)(nil)", 0, true),
		mk((*sPlain)(nil), "(*sPlain)(nil)", 0, true),
		mk((*[]int)(nil), "(*[]int)(nil)", 0, true),
		mk((*map[string]any)(nil), "(*map[string]any)(nil)", 0, true),
		mk([]int(nil), "[]int(nil)", 0, true),
		mk([]any(nil), "[]any(nil)", 0, true),
		mk(map[string]any(nil), "map[string]any(nil)", 0, true),
		mk(map[string]int(nil), "map[string]int(nil)", 0, true),
	}
}

// repLeaves is R.
func repLeaves() []gv {
	return []gv{
		num(int8(math.MinInt8), false), num(int64(math.MaxInt64), false), num(int(1), true),
		num(uint8(math.MaxUint8), false), num(uint64(maxI64), false),
		mk(float32(1e-7), "float32(1e-07)", 0, true), mk(float64(123456.789012345), "float64(123456.789012345)", 0, true),
		mk(float64(1e21), "float64(1e+21)", 0, true),
		str("", true), str("日本語😀", false), str("q\"uo\\te\n<&>", false),
		mk(true, "true", 0, false),
		{v: nil, desc: "nil", depth: 0, nontrivial: true},
		mk((*int)(nil), "(*int)(nil)", 0, true),
		mk([]int(nil), "[]int(nil)", 0, true),
		mk(map[string]any(nil), "map[string]any(nil)", 0, true),
	}
}

var anyType = reflect.TypeOf((*any)(nil)).Elem()
var stringType = reflect.TypeOf("")

// construct applies every constructor of C to x (where applicable).
func construct(x gv) []gv {
	var out []gv
	d := x.depth + 1
	add := func(v reflect.Value, desc string) {
		out = append(out, gv{v: v.Interface(), rv: v, desc: desc, depth: d, nontrivial: true})
	}
	if x.rv.IsValid() {
		t := x.rv.Type()
		tn := t.String()
		if t.Kind() != reflect.Pointer {
			p := reflect.New(t)
			p.Elem().Set(x.rv)
			add(p, "&"+x.desc)
		}
		if t.Kind() != reflect.Uint8 {
			s := reflect.MakeSlice(reflect.SliceOf(t), 1, 1)
			s.Index(0).Set(x.rv)
			add(s, "[]"+tn+"{"+x.desc+"}")
		}
		a := reflect.New(reflect.ArrayOf(1, t)).Elem()
		a.Index(0).Set(x.rv)
		add(a, "[1]"+tn+"{"+x.desc+"}")
		m := reflect.MakeMap(reflect.MapOf(stringType, t))
		m.SetMapIndex(reflect.ValueOf("k"), x.rv)
		add(m, "map[string]"+tn+"{\"k\": "+x.desc+"}")
		st := reflect.New(reflect.StructOf([]reflect.StructField{{Name: "F", Type: t}})).Elem()
		st.Field(0).Set(x.rv)
		add(st, "struct{F "+tn+"}{"+x.desc+"}")
		st2 := reflect.New(reflect.StructOf([]reflect.StructField{{Name: "F", Type: t, Tag: `json:"f"`}})).Elem()
		st2.Field(0).Set(x.rv)
		add(st2, "struct{F "+tn+" `json:\"f\"`}{"+x.desc+"}")
	}
	out = append(out, gv{v: []any{x.v}, rv: reflect.ValueOf([]any{x.v}), desc: "[]any{" + x.desc + "}", depth: d, nontrivial: true})
	mm := map[string]any{"k": x.v}
	out = append(out, gv{v: mm, rv: reflect.ValueOf(mm), desc: "map[string]any{\"k\": " + x.desc + "}", depth: d, nontrivial: true})
	return out
}

// multi builds, for one scalar group, the containers holding all boundary values of that kind.
func multi(group []gv) []gv {
	t := group[0].rv.Type()
	tn := t.String()
	n := len(group)
	list := ""
	for i, e := range group {
		if i > 0 {
			list += ", "
		}
		list += e.desc
	}
	var out []gv
	add := func(v reflect.Value, desc string) {
		out = append(out, gv{v: v.Interface(), rv: v, desc: desc, depth: 1, nontrivial: true})
	}
	if t.Kind() != reflect.Uint8 {
		s := reflect.MakeSlice(reflect.SliceOf(t), n, n)
		for i, e := range group {
			s.Index(i).Set(e.rv)
		}
		add(s, "[]"+tn+"{"+list+"}")
	}
	a := reflect.New(reflect.ArrayOf(n, t)).Elem()
	for i, e := range group {
		a.Index(i).Set(e.rv)
	}
	add(a, fmt.Sprintf("[%d]%s{%s}", n, tn, list))
	m := reflect.MakeMap(reflect.MapOf(stringType, t))
	as := make([]any, n)
	for i, e := range group {
		m.SetMapIndex(reflect.ValueOf(fmt.Sprintf("k%d", i)), e.rv)
		as[i] = e.v
	}
	add(m, "map[string]"+tn+"{k0..k"+strconv.Itoa(n-1)+": "+list+"}")
	add(reflect.ValueOf(as), "[]any{"+list+"}")
	return out
}

func intp(i int) *int { return &i }

func composites() []gv {
	c := func(x any, desc string, depth int) gv {
		g := mk(x, desc, depth, true)
		g.byCaller = true
		return g
	}
	one := 1
	pone := &one
	s := "s"
	ps := &s
	st := sPlain{A: 1, B: "b"}
	pst := &st
	return []gv{
		c([]int{}, "[]int{}", 1), c([]any{}, "[]any{}", 1), c(map[string]any{}, "map[string]any{}", 1),
		c(map[string]string{}, "map[string]string{}", 1), c(struct{}{}, "struct{}{}", 1), c([0]int{}, "[0]int{}", 1),
		c(&struct{}{}, "&struct{}{}", 1),
		c(sPlain{}, "sPlain{}", 1),
		c(sPlain{A: -7, B: "héllo \"q\"", C: 1e-7, D: true}, `sPlain{A:-7, B:"héllo \"q\"", C:1e-07, D:true}`, 1),
		c(&sPlain{A: math.MaxInt64, B: "<&>", C: 123456.789012345}, `&sPlain{A:MaxInt64, B:"<&>", C:123456.789012345}`, 2),
		c(sTags{}, "sTags{}", 1),
		c(sTags{A: 1, B: "b", C: intp(-1), U: 65535, F32: 1e-7, Skip: "skipped", unexported: 9}, `sTags{A:1, B:"b", C:&-1, U:65535, F32:1e-07, Skip:"skipped", unexported:9}`, 2),
		c([]any{1, "two", 3.5, true, nil}, `[]any{1, "two", 3.5, true, nil}`, 1),
		c([]any{int8(-1), uint8(2), uint64(maxI64), float32(1.5)}, `[]any{int8(-1), uint8(2), uint64(MaxInt64), float32(1.5)}`, 1),
		c(map[string]any{"i": 1, "s": "two", "f": 3.5, "b": true, "n": nil}, `map[string]any{"i":1, "s":"two", "f":3.5, "b":true, "n":nil}`, 1),
		c(map[string]any{"ключ": "значение", "with space": 1, "": "empty key"}, `map[string]any{"ключ":"значение", "with space":1, "":"empty key"}`, 1),
		c(map[string]string{"a": "1", "b": "", "c": "日本語"}, `map[string]string{"a":"1", "b":"", "c":"日本語"}`, 1),
		c([]string{"", "a", "日本語", `q"uo\te`, "line\nbreak"}, `[]string{"", "a", "日本語", "q\"uo\\te", "line\nbreak"}`, 1),
		c([]*int{nil, intp(5)}, "[]*int{nil, &5}", 2),
		c([][]int{{1, 2}, {}, nil}, "[][]int{{1,2}, {}, nil}", 2),
		c([]map[string]any{{"a": 1}, nil, {}}, `[]map[string]any{{"a":1}, nil, {}}`, 2),
		c(map[string][]any{"l": {1, "x", nil}, "e": {}}, `map[string][]any{"l":{1,"x",nil}, "e":{}}`, 2),
		c(map[string]any{"a": map[string]any{"b": []any{1, map[string]any{"c": "deep"}}}}, `map[string]any{"a":{"b":[1,{"c":"deep"}]}}`, 3),
		c([]any{[]any{[]any{"x"}}}, `[]any{[]any{[]any{"x"}}}`, 3),
		c([]sPlain{{A: 1}, {B: "b"}}, `[]sPlain{{A:1}, {B:"b"}}`, 2),
		c(map[string]*sPlain{"p": {A: 1}, "n": nil}, `map[string]*sPlain{"p":&{A:1}, "n":nil}`, 3),
		c(sNested{}, "sNested{}", 2),
		c(sNested{Inner: sPlain{A: 1}, List: []sTags{{A: 2, C: intp(3)}}, M: map[string]*sPlain{"x": {B: "y"}}, P: &sNested{Any: []any{1, "a"}}, Any: map[string]any{"k": 1.5}},
			`sNested{Inner:{A:1}, List:[{A:2,C:&3}], M:{"x":&{B:"y"}}, P:&sNested{Any:[1,"a"]}, Any:{"k":1.5}}`, 3),
		c(&sNested{Any: uint8(200)}, `&sNested{Any:uint8(200)}`, 3),
		c(&pone, "&&int(1)", 2), c(&ps, `&&"s"`, 2), c(&pst, `&&sPlain{A:1, B:"b"}`, 2),
	}
}

// values enumerates V(0..maxDepth), simplest first. The same call always yields fresh,
// independent Go values (nothing is shared between two calls), so a Plain may mutate them.
func values(maxDepth int) []gv { return valuesG(maxDepth, maxDepth >= 3) }

// valuesG: with full2 the depth-2 level is built over all of S ∪ N instead of R.
func valuesG(maxDepth int, full2 bool) []gv {
	var out []gv
	groups := scalarGroups()
	var s []gv
	for _, g := range groups {
		s = append(s, g...)
	}
	s = append(s, namedScalars()...)
	n := nilLeaves()
	out = append(out, s...)
	out = append(out, n...)
	if maxDepth < 1 {
		return out
	}
	comp := composites()
	// depth 1
	for _, x := range append(append([]gv{}, s...), n...) {
		out = append(out, construct(x)...)
	}
	for _, g := range groups {
		out = append(out, multi(g)...)
	}
	for _, c := range comp {
		if c.depth == 1 {
			out = append(out, c)
		}
	}
	// deeper levels over R (thorough: depth 2 over all of S ∪ N)
	level := repLeaves()
	for d := 1; d <= maxDepth; d++ {
		var next []gv
		for _, x := range level {
			next = append(next, construct(x)...)
		}
		if d >= 2 {
			if d == 2 && full2 {
				for _, x := range append(append([]gv{}, s...), n...) {
					for _, y := range construct(x) {
						out = append(out, construct(y)...)
					}
				}
				// leaves of R that are not in S
				seen := map[string]bool{}
				for _, x := range out {
					seen[x.desc] = true
				}
				for _, x := range next {
					if !seen[x.desc] {
						out = append(out, x)
					}
				}
			} else {
				out = append(out, next...)
			}
			for _, c := range comp {
				if c.depth == d {
					out = append(out, c)
				}
			}
		}
		level = next
	}
	return out
}

func depthFor(tier string) int {
	if tier == "thorough" {
		return 3
	}
	return 2
}
