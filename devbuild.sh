#!/bin/sh
# developer helper: instrument + build the worker into bin/worker (not used by registered checks)
cd "$(dirname "$0")" || exit 2
export GOFLAGS=-mod=mod GOPROXY=off GOSUMDB=off GOTOOLCHAIN=local GOWORK=off GODEBUG=goindex=0
(cd instr && go build -o ../bin/instr .) || exit 2
rm -rf /dev/shm/verif-dev && mkdir -p /dev/shm/verif-dev
bin/instr -out /dev/shm/verif-dev -rt "$(pwd)/rt" -dir "$(pwd)" github.com/olive-io/bpmn/v2 github.com/olive-io/bpmn/v2/pkg/... github.com/olive-io/bpmn/v2/model github.com/muyo/sno github.com/muyo/sno/internal verif/harness/... || exit 2
go build -overlay /dev/shm/verif-dev/overlay.json -o bin/worker ./harness/cmd/worker
