module verif

go 1.22.0

replace github.com/olive-io/bpmn/v2 => /repo

replace github.com/olive-io/bpmn/schema => /repo/schema

require (
	github.com/muyo/sno v1.2.1
	github.com/olive-io/bpmn/schema v1.8.0
	github.com/olive-io/bpmn/v2 v2.0.0-00010101000000-000000000000
)

require (
	github.com/ChrisTrenkamp/xsel v0.9.16 // indirect
	github.com/Chronokeeper/anyxml v0.0.0-20160530174208-54457d8e98c6 // indirect
	github.com/bits-and-blooms/bitset v1.24.4 // indirect
	github.com/bytedance/gopkg v0.1.3 // indirect
	github.com/bytedance/sonic v1.15.0 // indirect
	github.com/bytedance/sonic/loader v0.5.0 // indirect
	github.com/cloudwego/base64x v0.1.6 // indirect
	github.com/expr-lang/expr v1.17.8 // indirect
	github.com/goccmack/goutil v1.2.3 // indirect
	github.com/hashicorp/errwrap v1.0.0 // indirect
	github.com/hashicorp/go-multierror v1.1.1 // indirect
	github.com/klauspost/cpuid/v2 v2.2.10 // indirect
	github.com/pkg/errors v0.9.1 // indirect
	github.com/qri-io/iso8601 v0.1.0 // indirect
	github.com/tidwall/gjson v1.18.0 // indirect
	github.com/tidwall/match v1.1.1 // indirect
	github.com/tidwall/pretty v1.2.0 // indirect
	github.com/tidwall/sjson v1.2.5 // indirect
	github.com/twitchyliquid64/golang-asm v0.15.1 // indirect
	golang.org/x/arch v0.14.0 // indirect
	golang.org/x/net v0.24.0 // indirect
	golang.org/x/sys v0.30.0 // indirect
	golang.org/x/text v0.14.0 // indirect
)
