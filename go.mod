module verif

go 1.22.0

toolchain go1.23.5

replace github.com/olive-io/bpmn/v2 => /repo

replace github.com/olive-io/bpmn/schema => /repo/schema

require (
	github.com/olive-io/bpmn/schema v1.8.0
	github.com/olive-io/bpmn/v2 v2.0.0-00010101000000-000000000000
	golang.org/x/tools v0.29.0
)

require (
	golang.org/x/mod v0.22.0 // indirect
	golang.org/x/sync v0.10.0 // indirect
)
